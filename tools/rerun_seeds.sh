#!/bin/bash
# tools/rerun_seeds.sh [jobs] : re-run every seeded change under seeded/ against its property's check (scratch copies, /repo untouched)
J=${1:-4}
cd /verif
ls seeded | grep -E '^C[0-9]+_' | while read s; do echo "$s ${s%%_*}"; done | \
  xargs -P $J -L 1 bash -c 'out=$(tools/try_seed.sh $0 $1 2>&1 | tail -3); rc=$(grep -o "exit=[0-9]*" seeded/$0/result_$1.txt | head -1); v=$(grep -c "^VIOLATION" seeded/$0/result_$1.txt); nf=$(grep -c "no-failing-input-found" seeded/$0/result_$1.txt); echo "$0 $rc violation=$v nofail=$nf"' 
