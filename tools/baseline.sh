#!/bin/bash
# Runs the repository's pinned test suite with the verification guard OFF and
# checks that every test of the stable baseline (/root/.vp/BASELINE.json) passes.
unset DCMSTACK_VERIF
OUT=$(mktemp -d /verif/work/baseline.XXXXXX 2>/dev/null || mktemp -d)
cd /repo && /venv/bin/python -m pytest -ra -q -p no:cacheprovider --timeout=900 --continue-on-collection-errors --junitxml=$OUT/junit.xml >$OUT/log 2>&1
/venv/bin/python - "$OUT/junit.xml" <<'PY'
import sys, json, xml.etree.ElementTree as ET
base = json.load(open('/root/.vp/BASELINE.json'))['stable_pass']
ok = set()
for tc in ET.parse(sys.argv[1]).getroot().iter('testcase'):
    if not any(c.tag in ('failure', 'error', 'skipped') for c in tc):
        ok.add(tc.get('classname') + '::' + tc.get('name'))
missing = [b for b in base if b not in ok]
print('baseline: %d/%d stable tests pass' % (len(base) - len(missing), len(base)))
for m in missing: print('  NOT PASSING:', m)
sys.exit(1 if missing else 0)
PY
rc=$?
rm -rf "$OUT"
exit $rc
