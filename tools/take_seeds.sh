#!/bin/bash
# tools/take_seeds.sh <property id> <worktree> <label prefix> : confirm seed1/seed2 of a finished red-team agent, drop the
# worktree, run the property's check against each (blind), update the matrix.
PID=$1; WT=$2; PFX=$3
cd /verif
for s in seed1 seed2; do
  [ -d $WT/$s ] || continue
  tools/confirm_seed.sh $PID $WT $s $PFX$s 2>&1 | grep -v conda | tail -1
done
git -C /repo worktree remove --force $WT 2>/dev/null
for s in seed1 seed2; do
  [ -d seeded/${PID}_$PFX$s ] || continue
  echo "== ${PID}_$PFX$s"; tools/try_seed.sh ${PID}_$PFX$s $PID 2>&1 | tail -2 | cut -c1-230
done
python3 tools/seed_matrix.py >/dev/null
