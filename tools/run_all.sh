#!/bin/bash
# Runs the quick command of every registered check on the current /repo and summarises (regenerates evidence/*.json).
cd "$(dirname "$0")/.."
for id in $(python3 -c "import json; print(' '.join(c['property_id'] for c in json.load(open('MANIFEST.json'))['checks']))"); do
  s=$(date +%s); out=$(VERIF_SEED=${VERIF_SEED:-0} ./check $id --tier ${1:-quick} 2>&1); rc=$?
  echo "$id rc=$rc $(( $(date +%s) - s ))s  $(echo "$out" | grep -E "^$id tier" | cut -c1-160)"
  echo "$out" | grep -E "^VIOLATION|broken:" | head -3
done
python3-vt - <<'PY' 2>&1 | grep -v conda
import json, jsonschema, glob
sch = json.load(open('/root/.vp/EVIDENCE.schema.json'))
for c in json.load(open('MANIFEST.json'))['checks']:
    p = c['evidence_file']
    try:
        e = json.load(open(p)); jsonschema.validate(e, sch)
        cov = e['coverage']
        assert cov['discharged'] == cov['obligations'] >= 1, 'discharged %s != obligations %s' % (cov['discharged'], cov['obligations'])
    except Exception as ex:
        print('EVIDENCE PROBLEM', p, str(ex)[:200])
print('evidence files checked')
PY
