#!/bin/bash
# tools/confirm_harmless.sh <property id> <worktree> <dir name h1|h2|h3>
# Confirms a behaviour-preserving change independently: with and without the patch the 88 baseline tests pass and the
# author's demo (which checks the property's statement) exits 0.  Stores it under harmless/<PID>_<dir>/.
set -u
PID=$1; WT=$2; SD=$3
DEST=/verif/harmless/${PID}_${SD}
cd "$WT" || exit 2
git checkout -q -- src test 2>/dev/null
base_ok() {
  /venv/bin/python -m pytest -q -p no:cacheprovider --timeout=900 --continue-on-collection-errors --junitxml=$WT/.junit.xml >/dev/null 2>&1
  /venv/bin/python - "$WT/.junit.xml" <<'PY'
import sys, json, xml.etree.ElementTree as ET
base = json.load(open('/root/.vp/BASELINE.json'))['stable_pass']
ok = set()
for tc in ET.parse(sys.argv[1]).getroot().iter('testcase'):
    if not any(c.tag in ('failure', 'error', 'skipped') for c in tc):
        ok.add(tc.get('classname') + '::' + tc.get('name'))
print(len([b for b in base if b in ok]), len(ok))
PY
  rm -f $WT/.junit.xml
}
demo() { ( cd $WT/$SD && PYTHONPATH=$WT/src PYTHONHASHSEED=0 timeout 600 /venv/bin/python demo.py >/dev/null 2>&1; echo $? ); }
C_DEMO=$(demo)
git apply "$SD/patch.diff" || { echo "patch does not apply"; exit 2; }
P_BASE=$(base_ok); P_DEMO=$(demo)
git checkout -q -- src test
echo "$PID $SD clean demo_exit=$C_DEMO | patched: baseline/pass=$P_BASE demo_exit=$P_DEMO"
if [ "${P_BASE%% *}" = "88" ] && [ "$C_DEMO" = "0" ] && [ "$P_DEMO" = "0" ]; then
  mkdir -p $DEST && cp $SD/patch.diff $SD/demo.py $DEST/ && cp $SD/NOTES.md $DEST/NOTES.md 2>/dev/null
  if git -C /repo apply --check $DEST/patch.diff 2>/dev/null; then APPLIES=true; else APPLIES=false; fi
  cat > $DEST/meta.json <<JSON
{"property": "$PID", "label": "$SD", "origin": "independent sub-agent given only the property text and a scratch worktree; asked for a change under which the property still holds",
 "confirmed": {"patched_baseline_pass": "${P_BASE%% *}/88", "clean_demo_exit": $C_DEMO, "patched_demo_exit": $P_DEMO},
 "applies_to_repo_head": $APPLIES}
JSON
  echo "CONFIRMED -> $DEST"
else
  echo "NOT CONFIRMED"
fi
