#!/bin/bash
# tools/try_harmless.sh <name under harmless/> <property id> [tier] : run the check against a scratch copy of /repo with the
# behaviour-preserving change applied; the expected verdict is exit 0.
H=$1; PID=$2; TIER=${3:-quick}
S=/verif/work/harmrun_$H
rm -rf $S; mkdir -p $S
rsync -a --exclude .git /repo/ $S/
patch -s -p1 -d $S < /verif/harmless/$H/patch.diff || { echo "patch failed"; rm -rf $S; exit 2; }
cd /verif
VERIF_RUN_TAG=$H DCMSTACK_REPO=$S ./check $PID --tier $TIER > $S.log 2>&1
rc=$?
tail -4 $S.log
RP=$(grep -o 'replay=[^ ]*' $S.log | head -1 | cut -d= -f2)
{ echo "check=$PID tier=$TIER exit=$rc"; grep -E '^(VIOLATION|NOTE|  broken)' $S.log | cut -c1-400; [ -n "$RP" ] && [ -f "$RP" ] && { echo "--- replay ---"; head -c 2500 "$RP"; }; } > /verif/harmless/$H/result_$PID.txt
rm -rf $S $S.log /verif/replays/${PID}_$H /verif/work/${PID}_$H /verif/work/coq_$H /verif/work/.build.lock.$H
exit $rc
