#!/usr/bin/env python3
"""Builds harmless/MATRIX.md from harmless/*/meta.json and result_*.txt (written by tools/try_harmless.sh)."""
import os, json, glob, re
ROOT = os.path.join(os.path.dirname(os.path.abspath(__file__)), '..', 'harmless')
rows = []
for d in sorted(glob.glob(os.path.join(ROOT, 'C*_h*'))):
    name = os.path.basename(d)
    meta = json.load(open(os.path.join(d, 'meta.json')))
    first = ''
    np_ = os.path.join(d, 'NOTES.md')
    if os.path.exists(np_):
        m = re.search(r'^(?!#)(\S.{20,})$', open(np_).read(), re.M)
        first = (m.group(1) if m else '')[:150]
    res = []
    for r in sorted(glob.glob(os.path.join(d, 'result_*.txt'))):
        t = open(r).read()
        m = re.search(r'check=(\S+) tier=(\S+) exit=(\d+)', t)
        if m:
            if m.group(3) == '0':
                v = 'passes' + (' (source/table tie downgraded to correspondence)' if 'NOTE:' in t else '')
            else:
                v = 'ALARM' + (' (no failing input)' if 'no-failing-input-found' in t else ' (failing input)')
            res.append('%s %s' % (m.group(1), v))
    rows.append((name, meta['property'], '; '.join(res) or 'not run', meta.get('verdict', 'harmless'), first))
with open(os.path.join(ROOT, 'MATRIX.md'), 'w') as f:
    f.write('# Behaviour-preserving changes and what the checks say\n\nEach change was written by an independent sub-agent that saw only the property text and a scratch worktree and was asked for a '
            'realistic change under which the property still holds (pure refactorings and changes of behaviour the text does not constrain); confirmed by tools/confirm_harmless.sh '
            '(88 baseline tests pass, the author\'s property demo passes with and without it); run with tools/try_harmless.sh. Expected verdict: passes. '
            '"verdict" records our analysis when the check alarmed.\n\n')
    f.write('| change | property | result | analysis | what it changes |\n|---|---|---|---|---|\n')
    for r in rows:
        f.write('| %s | %s | %s | %s | %s |\n' % r)
print(len(rows), 'changes;', sum('ALARM' in r[2] for r in rows), 'alarms')
