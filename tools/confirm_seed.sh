#!/bin/bash
# tools/confirm_seed.sh <property id> <worktree> <seed dir name> <label>
# Confirms a seeded change independently: clean tree -> baseline tests pass + demo exits 0;
# with the patch -> the same 88 baseline tests pass + demo exits non-zero.  Then stores it under seeded/.
set -u
PID=$1; WT=$2; SD=$3; LABEL=$4
DEST=/verif/seeded/${PID}_${LABEL}
cd "$WT" || exit 2
git checkout -q -- src test 2>/dev/null
[ -z "$(git status --porcelain -- src test)" ] || { echo "worktree not clean"; exit 2; }
base_ok() {  # prints number of baseline tests that pass
  /venv/bin/python -m pytest -q -p no:cacheprovider --timeout=900 --continue-on-collection-errors --junitxml=$WT/.junit.xml >/dev/null 2>&1
  /venv/bin/python - "$WT/.junit.xml" <<'PY'
import sys, json, xml.etree.ElementTree as ET
base = json.load(open('/root/.vp/BASELINE.json'))['stable_pass']
ok = set()
for tc in ET.parse(sys.argv[1]).getroot().iter('testcase'):
    if not any(c.tag in ('failure', 'error', 'skipped') for c in tc):
        ok.add(tc.get('classname') + '::' + tc.get('name'))
print(len([b for b in base if b in ok]), len(ok))
PY
  rm -f $WT/.junit.xml
}
demo() { ( cd $WT/$SD && PYTHONPATH=$WT/src PYTHONHASHSEED=0 timeout 600 /venv/bin/python demo.py >/dev/null 2>&1; echo $? ); }
C_BASE=$(base_ok); C_DEMO=$(demo)
git apply "$SD/patch.diff" || { echo "patch does not apply"; exit 2; }
P_BASE=$(base_ok); P_DEMO=$(demo)
git checkout -q -- src test
echo "clean: baseline/pass=$C_BASE demo_exit=$C_DEMO | patched: baseline/pass=$P_BASE demo_exit=$P_DEMO"
if [ "${C_BASE%% *}" = "88" ] && [ "${P_BASE%% *}" = "88" ] && [ "$C_DEMO" = "0" ] && [ "$P_DEMO" != "0" ]; then
  mkdir -p $DEST && cp $SD/patch.diff $SD/demo.py $DEST/ && cp $SD/NOTES.md $DEST/NOTES.md 2>/dev/null
  # patch must also apply to /repo's current HEAD
  if git -C /repo apply --check $DEST/patch.diff 2>/dev/null; then APPLIES=true; else APPLIES=false; fi
  cat > $DEST/meta.json <<JSON
{"property": "$PID", "label": "$LABEL", "origin": "independent sub-agent given only the property text and a scratch worktree",
 "confirmed": {"clean_baseline_pass": "${C_BASE%% *}/88", "clean_demo_exit": $C_DEMO, "patched_baseline_pass": "${P_BASE%% *}/88", "patched_total_pass": "${P_BASE##* }", "patched_demo_exit": $P_DEMO,
               "how": "tools/confirm_seed.sh in the scratch worktree (git apply, pytest, demo, git checkout)"},
 "applies_to_repo_head": $APPLIES,
 "needs_to_manifest": "see NOTES.md"}
JSON
  echo "CONFIRMED -> $DEST (applies to /repo HEAD: $APPLIES)"
else
  echo "REJECTED"
fi
