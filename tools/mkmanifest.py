#!/usr/bin/env python3
"""Rebuilds MANIFEST.json from the registry below (one entry per claimed property)."""
import json, os
HERE = os.path.dirname(os.path.abspath(__file__))
ROOT = os.path.dirname(HERE)
props = [json.loads(l) for l in open(os.path.join(ROOT, 'properties.jsonl'))]

TECH = "Coq proof over an executable Gallina model; model tied to the code by generated tables + differential correspondence evaluated in Coq"
NOTE_COMMON = ("Trusted: Coq 8.16.1 kernel incl. vm_compute; the table translator tools/gen_tables.py; the correspondence harness (generators, "
               "implementation runner, Coq literal printer); the hand-written model is validated against the implementation only on the generated inputs. ")

# id -> dict(text=..., note=..., design_ref=..., technique=...)
REG = json.load(open(os.path.join(HERE, 'registry.json')))
NA = json.load(open(os.path.join(HERE, 'not_applicable.json')))

checks = []
for p in props:
    pid = p['id']
    if pid not in REG:
        continue
    r = REG[pid]
    checks.append({
        "property_id": pid,
        "quick_cmd": "./check %s --tier quick" % pid,
        "thorough_cmd": "./check %s --tier thorough" % pid,
        "evidence_file": "/verif/evidence/%s.json" % pid,
        "replay_cmd_template": "./check %s --replay {path}" % pid,
        "engine": "coq-proof+correspondence",
        "level_claimed": {"category": "proof", "text": r['text'], "design_ref": r.get('design_ref', 'DESIGN.md section 4 ' + pid)},
        "level_note": NOTE_COMMON + r.get('note', ''),
        "technique": r.get('technique', TECH),
    })
m = {
    "version": 1,
    "setup_cmd": "./setup.sh",
    "hooks": {"guard": "DCMSTACK_VERIF",
              "enable": "no source hooks are needed: every observation point is public API; the harness sets DCMSTACK_VERIF=1 but the sources never read it",
              "baseline_off_cmd": "/verif/tools/baseline.sh", "source_commits": [], "add_only": True},
    "engines": [{"name": "coq-proof+correspondence", "path": "check", "serves_properties": sorted(REG),
                 "kind_free_text": "Coq 8.16.1 theorems about an executable Gallina model; literal tables regenerated from the Python AST on every run; model tied to the code by a differential correspondence run evaluated inside Coq (vm_compute); a Python property oracle searches for a concrete failing input when an obligation or the correspondence breaks"}],
    "checks": checks,
    "notes": "See DESIGN.md and FRAMEWORK.md. Genuine defects repaired by fix: commits in /repo are listed in known-findings.txt (reproducers: findings/repro.py).",
    "not_applicable": [{"property_id": p['id'], "reason": NA.get(p['id'], "check under construction in this round (model and theorems not yet committed); see DESIGN.md section 4")}
                       for p in props if p['id'] not in REG],
}
json.dump(m, open(os.path.join(ROOT, 'MANIFEST.json'), 'w'), indent=1)
print('MANIFEST.json: %d checks, %d not_applicable' % (len(checks), len(m['not_applicable'])))
