#!/bin/bash
# tools/try_seed.sh <seed name under seeded/> <property id> [tier]
# Runs a check against a scratch copy of /repo with the seeded change applied (DCMSTACK_REPO override),
# so that /repo itself stays untouched while other work is running.  Records the outcome next to the seed.
SEED=$1; PID=$2; TIER=${3:-quick}
S=/verif/work/seedrun_$SEED
rm -rf $S; mkdir -p $S
rsync -a --exclude .git /repo/ $S/
patch -s -p1 -d $S < /verif/seeded/$SEED/patch.diff || { echo "patch failed"; rm -rf $S; exit 2; }
cd /verif
VERIF_RUN_TAG=$SEED DCMSTACK_REPO=$S ./check $PID --tier $TIER > $S.log 2>&1
rc=$?
tail -4 $S.log
RP=$(grep -o 'replay=[^ ]*' $S.log | head -1 | cut -d= -f2)
{ echo "check=$PID tier=$TIER exit=$rc"; grep -E '^(VIOLATION|KNOWN-FINDING)' $S.log; [ -n "$RP" ] && [ -f "$RP" ] && { echo "--- replay ---"; head -c 1500 "$RP"; }; } > /verif/seeded/$SEED/result_$PID.txt
rm -rf $S $S.log /verif/replays/${PID}_$SEED /verif/replays/${PID}_${PID}_$SEED /verif/work/${PID}_$SEED /verif/work/coq_$SEED /verif/work/.build.lock.$SEED
exit $rc
