#!/usr/bin/env python3
"""Builds seeded/MATRIX.md from seeded/*/meta.json and seeded/*/result_*.txt (written by tools/try_seed.sh)."""
import os, json, glob, re
ROOT = os.path.join(os.path.dirname(os.path.abspath(__file__)), '..', 'seeded')
rows = []
for d in sorted(glob.glob(os.path.join(ROOT, '*seed*'))):
    name = os.path.basename(d)
    meta = json.load(open(os.path.join(d, 'meta.json')))
    notes = ''
    np_ = os.path.join(d, 'NOTES.md')
    first = ''
    if os.path.exists(np_):
        txt = open(np_).read()
        m = re.search(r'^(?!#)(\S.{20,})$', txt, re.M)
        first = (m.group(1) if m else '')[:140]
    res = []
    for r in sorted(glob.glob(os.path.join(d, 'result_*.txt'))):
        t = open(r).read()
        m = re.search(r'check=(\S+) tier=(\S+) exit=(\d+)', t)
        kind = re.search(r'"kind": "([^"]+)"', t)
        nf = 'no-failing-input-found' in t
        if m:
            verdict = 'MISSED' if m.group(3) == '0' else ('caught (%s%s)' % (kind.group(1) if kind else 'violation', ', no failing input' if nf else ''))
            tag = 'first run (blind): ' if 'blind_first_run' in r else ('after strengthening: ' if os.path.exists(r.replace('.txt', '_blind_first_run.txt')) else '')
            res.append('%s%s %s' % (tag, m.group(1), verdict))
    rows.append((name, meta['property'], meta.get('mode', 'blind'), '; '.join(res) or 'not yet run', first))
with open(os.path.join(ROOT, 'MATRIX.md'), 'w') as f:
    f.write('# Seeded changes and which checks catch them\n\nEach seed was written by an independent sub-agent that saw only the property text and a scratch worktree; '
            'confirmed by tools/confirm_seed.sh (88 baseline tests pass with and without it, demo passes without / fails with it); run with tools/try_seed.sh.\n'
            '"mode" = whether the check had been strengthened with knowledge of this seed before the recorded run (informed) or not (blind).\n\n')
    f.write('| seed | property | mode | result | what it changes |\n|---|---|---|---|---|\n')
    for r in rows:
        f.write('| %s | %s | %s | %s | %s |\n' % r)
print('%d seeds' % len(rows))
