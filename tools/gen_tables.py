#!/venv/bin/python
"""Translator: regenerates coq/Generated/T_*.v from the Python sources of the repository.

Each module tools/tables/t_<name>.py defines  WHAT (str)  and  emit(src: Source) -> str (Coq text
after the common header).  Files are rewritten only when their content changes so that `make`
rebuilds exactly the dependents.  Fail-closed: any TableError aborts with exit status 3 and names
the table; the driver treats that as a broken tie (translator-abort).

usage: gen_tables.py [--repo /repo] [--check]      (--check: report what would change, write nothing)
"""
import sys, os, importlib, glob, argparse
HERE = os.path.dirname(os.path.abspath(__file__))
sys.path.insert(0, os.path.join(HERE, '..'))
sys.path.insert(0, os.path.join(HERE, 'tables'))
import astlib


def main(argv=None):
    ap = argparse.ArgumentParser()
    ap.add_argument('--repo', default=os.environ.get('DCMSTACK_REPO', '/repo'))
    ap.add_argument('--out', default=os.path.join(HERE, '..', 'coq', 'Generated'))
    ap.add_argument('--check', action='store_true')
    ap.add_argument('--only', nargs='*')
    a = ap.parse_args(argv)
    src = astlib.Source(a.repo)
    os.makedirs(a.out, exist_ok=True)
    changed, failed = [], []
    mods = sorted(os.path.basename(p)[:-3] for p in glob.glob(os.path.join(HERE, 'tables', 't_*.py')))
    for m in mods:
        if a.only and m not in a.only:
            continue
        target = os.path.join(a.out, 'T_' + m[2:] + '.v')
        try:
            mod = importlib.import_module(m)
            body = mod.emit(src)
        except astlib.TableError as e:
            failed.append((m, str(e)))
            continue
        except Exception as e:      # a translator that crashes is as fail-closed as one that aborts
            failed.append((m, 'translator crashed: %s: %s' % (type(e).__name__, e)))
            continue
        text = astlib.HEADER % {'repo': 'the repository sources', 'what': mod.WHAT} + body
        old = open(target).read() if os.path.exists(target) else None
        if old != text:
            changed.append(os.path.basename(target))
            if not a.check:
                tmp = target + '.tmp.%d' % os.getpid()      # atomic: a concurrent coqc never sees a half-written table
                with open(tmp, 'w') as f:
                    f.write(text)
                os.replace(tmp, target)
    for c in changed:
        print('table changed: %s' % c)
    for m, e in failed:
        print('TABLE-ERROR %s: %s' % (m, e))
    return 3 if failed else 0


if __name__ == '__main__':
    sys.exit(main())
