"""Fail-closed helpers for the table translators: they only PARSE the sources (never import
them) and abort with TableError when an expected object is missing, duplicated or not a literal."""
import ast, os, sys
sys.path.insert(0, os.path.join(os.path.dirname(__file__), '..', '..'))
from vlib.coqlit import *  # noqa: F401,F403  (re-exported for the t_*.py modules)


class TableError(Exception):
    pass


class Source:
    def __init__(self, repo):
        self.repo = repo
        self._cache = {}

    def path(self, rel):
        return os.path.join(self.repo, rel)

    def tree(self, rel):
        if rel not in self._cache:
            p = self.path(rel)
            try:
                self._cache[rel] = ast.parse(open(p).read(), p)
            except (OSError, SyntaxError) as e:
                raise TableError('cannot parse %s: %s' % (p, e))
        return self._cache[rel]

    def text(self, rel):
        return open(self.path(rel)).read()


def _assigns(body, name):
    out = []
    for st in body:
        if isinstance(st, ast.Assign):
            for t in st.targets:
                if isinstance(t, ast.Name) and t.id == name:
                    out.append(st.value)
        elif isinstance(st, ast.AnnAssign) and isinstance(st.target, ast.Name) and st.target.id == name and st.value is not None:
            out.append(st.value)
    return out


def module_assign(tree, name):
    """The unique module-level `name = <expr>`; returns the expression node."""
    found = _assigns(tree.body, name)
    if len(found) != 1:
        raise TableError('expected exactly one module-level assignment to %s, found %d' % (name, len(found)))
    return found[0]


def find_class(tree, cls):
    found = [st for st in tree.body if isinstance(st, ast.ClassDef) and st.name == cls]
    if len(found) != 1:
        raise TableError('expected exactly one class %s, found %d' % (cls, len(found)))
    return found[0]


def class_assign(tree, cls, name):
    found = _assigns(find_class(tree, cls).body, name)
    if len(found) != 1:
        raise TableError('expected exactly one assignment to %s.%s, found %d' % (cls, name, len(found)))
    return found[0]


def find_func(tree, name, cls=None):
    body = find_class(tree, cls).body if cls else tree.body
    found = [st for st in body if isinstance(st, ast.FunctionDef) and st.name == name]
    if len(found) != 1:
        raise TableError('expected exactly one function %s%s, found %d' % ((cls + '.') if cls else '', name, len(found)))
    return found[0]


def lit(node):
    """Literal value of an expression node (numbers, strings, tuples, lists, dicts, sets, None, and
    the call forms set((..)) / tuple() that the sources use); anything else aborts."""
    if isinstance(node, ast.Call) and isinstance(node.func, ast.Name) and node.func.id in ('set', 'tuple', 'list', 'frozenset') and not node.keywords:
        if len(node.args) == 0:
            return {'set': set, 'tuple': tuple, 'list': list, 'frozenset': frozenset}[node.func.id]()
        if len(node.args) == 1:
            return {'set': set, 'tuple': tuple, 'list': list, 'frozenset': frozenset}[node.func.id](lit(node.args[0]))
    if isinstance(node, ast.Dict):
        return {lit(k): lit(v) for k, v in zip(node.keys, node.values)}
    if isinstance(node, (ast.Tuple, ast.List)):
        vals = [lit(e) for e in node.elts]
        return tuple(vals) if isinstance(node, ast.Tuple) else vals
    try:
        return ast.literal_eval(node)
    except Exception as e:
        raise TableError('not a literal at line %s: %s' % (getattr(node, 'lineno', '?'), ast.dump(node)[:200]))


def dict_items_in_order(node):
    """(key, value) literal pairs of a dict display, in source order."""
    if not isinstance(node, ast.Dict):
        raise TableError('expected a dict display at line %s' % getattr(node, 'lineno', '?'))
    return [(lit(k), lit(v)) for k, v in zip(node.keys, node.values)]


def calls_in(node, callee):
    """All Call nodes under `node` whose function is named `callee` (Name or attribute tail)."""
    out = []
    for n in ast.walk(node):
        if isinstance(n, ast.Call):
            f = n.func
            nm = f.id if isinstance(f, ast.Name) else f.attr if isinstance(f, ast.Attribute) else None
            if nm == callee:
                out.append(n)
    return out


def call_kw(call, kw):
    found = [k.value for k in call.keywords if k.arg == kw]
    if len(found) != 1:
        raise TableError('call at line %d: expected keyword %s once, found %d' % (call.lineno, kw, len(found)))
    return found[0]


def float_lit_exact(node):
    """A float literal in the source, as an exact Fraction of its *decimal text* (4e-2 -> 1/25)."""
    from fractions import Fraction
    seg = None
    if isinstance(node, ast.Constant) and isinstance(node.value, (int, float)) and not isinstance(node.value, bool):
        return Fraction(repr(node.value)) if isinstance(node.value, int) else Fraction(repr(node.value))
    if isinstance(node, ast.UnaryOp) and isinstance(node.op, ast.USub):
        return -float_lit_exact(node.operand)
    raise TableError('not a numeric literal at line %s' % getattr(node, 'lineno', '?'))


HEADER = '''(* GENERATED by tools/gen_tables.py from %(repo)s -- do not edit.
   Source object(s): %(what)s *)
From Coq Require Import List ZArith NArith QArith Bool.
Import ListNotations.
'''
