"""Literals and binding forms the two command-line tools are driven by (property C19).

Everything is located in the AST of dcmstack_cli.main / nitool_cli.* (never imported):
  * argparse defaults of every option of `dcmstack` and of the nitool sub-commands,
  * HOW the include / exclude regex lists are derived from the module defaults
    (copy  `list(dcmstack.default_key_incl_res)`  vs.  alias  `dcmstack.default_key_incl_res`,
     followed by an in-place `+=`): emitted as booleans the model consumes, so that an aliasing
     edit (finding F10) makes `C19_no_state` unprovable,
  * the output naming: pieces of the default format, the characters sanitize_path_comp keeps, the
    replacement character, the uniqueness suffix format '-%03d',
  * the ignore rules used by --extract-private,
  * nitool split's default name format '%03d-%s'.
Fail closed: any unexpected shape raises TableError."""
import ast, re
from astlib import *  # noqa: F401,F403

WHAT = ("dcmstack_cli.main: argparse defaults, derivation of the regex lists from the module defaults (copy/alias), "
        "default output name format, sanitize_path_comp character set, '-%03d' suffix, --extract-private rules; "
        "nitool_cli: argparse defaults, split's default name format")

CLI = 'src/dcmstack/dcmstack_cli.py'
NIT = 'src/dcmstack/nitool_cli.py'


def _const(node, what):
    if not isinstance(node, ast.Constant):
        raise TableError('%s is not a literal constant (line %s)' % (what, getattr(node, 'lineno', '?')))
    return node.value


def _options(fn, receiver_ok):
    """dest -> {'default':..., 'action':..., 'nargs':..., 'type':..., 'flags': [...]} for every
    <parser>.add_argument(...) call under `fn` whose receiver name satisfies `receiver_ok`."""
    out = {}
    for c in calls_in(fn, 'add_argument'):
        if not (isinstance(c.func, ast.Attribute) and isinstance(c.func.value, ast.Name) and receiver_ok(c.func.value.id)):
            continue
        flags = []
        for a in c.args:
            v = _const(a, 'add_argument flag')
            if not isinstance(v, str):
                raise TableError('add_argument flag is not a string at line %d' % c.lineno)
            flags.append(v)
        if not flags:
            raise TableError('add_argument without flags at line %d' % c.lineno)
        longs = [f for f in flags if f.startswith('--')]
        dest = (longs[0][2:] if longs else flags[0].lstrip('-')).replace('-', '_')
        kw = {}
        for k in c.keywords:
            if k.arg is None:
                raise TableError('add_argument with ** at line %d' % c.lineno)
            if k.arg == 'help':
                continue
            if k.arg == 'type':
                kw['type'] = ast.unparse(k.value)
            elif k.arg == 'default' and not isinstance(k.value, ast.Constant):
                kw['default'] = ('expr', ast.unparse(k.value))
            else:
                kw[k.arg] = _const(k.value, 'add_argument %s=' % k.arg)
        kw['flags'] = flags
        key = (c.func.value.id, dest)
        if key in out:
            raise TableError('option %s defined twice' % dest)
        out[key] = kw
    return out


def _expect_opt(opts, parser, dest, flags, **want):
    o = opts.get((parser, dest))
    if o is None:
        raise TableError('option %s of %s not found' % (dest, parser))
    if sorted(o['flags']) != sorted(flags):
        raise TableError('option %s: flags are %r, expected %r' % (dest, o['flags'], flags))
    got = {k: v for k, v in o.items() if k != 'flags'}
    for k, v in want.items():
        if k not in got or got[k] != v or type(got[k]) is not type(v):
            raise TableError('option %s: %s is %r, expected %r' % (dest, k, got.get(k, '<absent>'), v))
    extra = set(got) - set(want)
    if extra:
        raise TableError('option %s: unexpected keywords %r' % (dest, sorted(extra)))
    return o


def _is_default_list(node, name):
    """`dcmstack.<name>` (the module attribute)."""
    return (isinstance(node, ast.Attribute) and node.attr == name and isinstance(node.value, ast.Name)
            and node.value.id == 'dcmstack')


def _binding(fn, local, default_name, opt_attr):
    """How `local` is derived from dcmstack.<default_name> and extended by args.<opt_attr>.
    Returns True when the module list cannot be changed through `local` (copied, or never extended
    in place), False when `local` aliases the module list and is extended in place."""
    assigns = [st for st in ast.walk(fn) if isinstance(st, ast.Assign) and len(st.targets) == 1
               and isinstance(st.targets[0], ast.Name) and st.targets[0].id == local]
    if len(assigns) != 1:
        raise TableError('expected exactly one assignment to %s in main, found %d' % (local, len(assigns)))
    v = assigns[0].value
    if _is_default_list(v, default_name):
        copied = False
    elif (isinstance(v, ast.Call) and isinstance(v.func, ast.Name) and v.func.id in ('list', 'copy', 'deepcopy')
          and len(v.args) == 1 and not v.keywords and _is_default_list(v.args[0], default_name)):
        copied = True
    elif (isinstance(v, ast.Subscript) and _is_default_list(v.value, default_name) and isinstance(v.slice, ast.Slice)
          and v.slice.lower is None and v.slice.upper is None and v.slice.step is None):
        copied = True
    elif (isinstance(v, ast.Call) and isinstance(v.func, ast.Attribute) and v.func.attr == 'copy' and not v.args
          and not v.keywords and _is_default_list(v.func.value, default_name)):
        copied = True
    else:
        raise TableError('%s is initialised by an unrecognised expression: %s' % (local, ast.unparse(v)))
    # the extension:  if args.<opt>: <local> += args.<opt>      (in place)
    exts = []
    for st in ast.walk(fn):
        if isinstance(st, ast.AugAssign) and isinstance(st.target, ast.Name) and st.target.id == local:
            exts.append(st)
        if (isinstance(st, ast.Call) and isinstance(st.func, ast.Attribute) and isinstance(st.func.value, ast.Name)
                and st.func.value.id == local and st.func.attr in ('extend', 'append', 'insert', 'remove', 'pop', 'clear', 'sort', 'reverse')):
            raise TableError('%s is mutated through .%s(): not modelled' % (local, st.func.attr))
    if len(exts) != 1:
        raise TableError('expected exactly one augmented assignment to %s, found %d' % (local, len(exts)))
    e = exts[0]
    if not (isinstance(e.op, ast.Add) and ast.unparse(e.value) == 'args.' + opt_attr):
        raise TableError('%s is not extended by `+= args.%s`: %s' % (local, opt_attr, ast.unparse(e)))
    guard = [st for st in ast.walk(fn) if isinstance(st, ast.If) and e in st.body]
    if len(guard) != 1 or ast.unparse(guard[0].test) != 'args.' + opt_attr or len(guard[0].body) != 1 or guard[0].orelse:
        raise TableError('the extension of %s is not guarded by `if args.%s:`' % (local, opt_attr))
    return copied


_FMT_D = re.compile(r'^([^%]*)%(0?)([0-9]*)d([^%]*)$')
_FMT_KEYED_D = re.compile(r'^%\(([A-Za-z_]\w*)\)(0?)([0-9]*)d$')
_FMT_KEYED_S = re.compile(r'^%\(([A-Za-z_]\w*)\)s$')


def _width(s):
    w = int(s) if s else 0
    if w > 20:
        raise TableError('unreasonable field width %d' % w)
    return w


def _naming(fn):
    out = {}
    # ---- default output format: the `if args.output_name is None:` block
    blocks = [st for st in ast.walk(fn) if isinstance(st, ast.If) and ast.unparse(st.test) == 'args.output_name is None']
    if len(blocks) != 1:
        raise TableError('expected exactly one `if args.output_name is None:` block, found %d' % len(blocks))
    b = blocks[0]
    want_else = 'out_fmt = args.output_name'
    if len(b.orelse) != 1 or ast.unparse(b.orelse[0]) != want_else:
        raise TableError('else-branch of the output_name test is not `%s`' % want_else)
    body = b.body
    if len(body) != 4:
        raise TableError('default output format block has %d statements, expected 4' % len(body))
    if ast.unparse(body[0]) != 'out_fmt = []':
        raise TableError('default output format block does not start with `out_fmt = []`')

    def appended(st):
        if not (isinstance(st, ast.Expr) and isinstance(st.value, ast.Call) and ast.unparse(st.value.func) == 'out_fmt.append'
                and len(st.value.args) == 1 and not st.value.keywords):
            raise TableError('expected out_fmt.append(<literal>) at line %d' % st.lineno)
        v = _const(st.value.args[0], 'out_fmt.append argument')
        if not isinstance(v, str):
            raise TableError('out_fmt.append argument is not a string at line %d' % st.lineno)
        return v

    def in_meta(test):
        if not (isinstance(test, ast.Compare) and len(test.ops) == 1 and isinstance(test.ops[0], ast.In)
                and ast.unparse(test.comparators[0]) == 'meta'):
            raise TableError('expected `<key> in meta` at line %d' % test.lineno)
        k = _const(test.left, 'key of the `in meta` test')
        if not isinstance(k, str):
            raise TableError('key of the `in meta` test is not a string')
        return k
    # if 'SeriesNumber' in meta: out_fmt.append('%(SeriesNumber)03d')
    s1 = body[1]
    if not (isinstance(s1, ast.If) and len(s1.body) == 1 and not s1.orelse):
        raise TableError('unexpected shape of the series-number format statement')
    k1 = in_meta(s1.test)
    m = _FMT_KEYED_D.match(appended(s1.body[0]))
    if not m or m.group(1) != k1:
        raise TableError('series-number format does not use the key it tests (%s)' % k1)
    out['num_key'], out['num_zero'], out['num_width'] = k1, m.group(2) == '0', _width(m.group(3))
    # if 'ProtocolName' in meta: ... elif 'SeriesDescription' in meta: ... else: append('series')
    s2 = body[2]
    if not (isinstance(s2, ast.If) and len(s2.body) == 1 and len(s2.orelse) == 1 and isinstance(s2.orelse[0], ast.If)):
        raise TableError('unexpected shape of the protocol-name format statement')
    k2 = in_meta(s2.test)
    m = _FMT_KEYED_S.match(appended(s2.body[0]))
    if not m or m.group(1) != k2:
        raise TableError('protocol-name format does not use the key it tests (%s)' % k2)
    s3 = s2.orelse[0]
    if not (len(s3.body) == 1 and len(s3.orelse) == 1):
        raise TableError('unexpected shape of the series-description format statement')
    k3 = in_meta(s3.test)
    m = _FMT_KEYED_S.match(appended(s3.body[0]))
    if not m or m.group(1) != k3:
        raise TableError('series-description format does not use the key it tests (%s)' % k3)
    fallback = appended(s3.orelse[0])
    if '%' in fallback:
        raise TableError('fallback name contains a format directive')
    out['name_key1'], out['name_key2'], out['name_fallback'] = k2, k3, fallback
    # out_fmt = '-'.join(out_fmt)
    j = body[3]
    if not (isinstance(j, ast.Assign) and ast.unparse(j.targets[0]) == 'out_fmt' and isinstance(j.value, ast.Call)
            and isinstance(j.value.func, ast.Attribute) and j.value.func.attr == 'join'
            and ast.unparse(j.value.args[0]) == 'out_fmt' and isinstance(j.value.func.value, ast.Constant)):
        raise TableError('default output format is not joined by a literal separator')
    sep = j.value.func.value.value
    if not isinstance(sep, str) or '%' in sep:
        raise TableError('bad separator of the default output format')
    out['name_sep'] = sep
    # ---- the uniqueness suffix: every `<base> + '<fmt>' % <idx>` must use the same literal; the search is
    #      either a single append (`out_fn += fmt % out_idx`) or a re-check loop (`while out_fn in generated_outs`)
    fmts = set()
    for n in ast.walk(fn):
        if (isinstance(n, ast.BinOp) and isinstance(n.op, ast.Mod) and isinstance(n.left, ast.Constant)
                and isinstance(n.left.value, str) and ast.unparse(n.right) in ('sfx_idx', 'out_idx')):
            fmts.add(n.left.value)
    if len(fmts) != 1:
        raise TableError('expected one suffix format applied to sfx_idx / out_idx, found %r' % sorted(fmts))
    m = _FMT_D.match(fmts.pop())
    if not m:
        raise TableError('suffix format is not <text>%[0][width]d<text>')
    out['sfx_prefix'], out['sfx_zero'], out['sfx_width'], out['sfx_tail'] = m.group(1), m.group(2) == '0', _width(m.group(3)), m.group(4)
    guards = [st for st in ast.walk(fn) if isinstance(st, ast.If) and ast.unparse(st.test) == 'out_fn in generated_outs']
    if len(guards) != 1 or guards[0].orelse:
        raise TableError('expected exactly one `if out_fn in generated_outs:` without else')
    loops = [st for st in ast.walk(guards[0]) if isinstance(st, (ast.While, ast.For))]
    body = [ast.unparse(st) for st in guards[0].body]
    if not loops:
        f = "'%s' %% out_idx" % (m.group(0))
        if body not in (["out_fn += " + f], ["out_fn = out_fn + " + f]):
            raise TableError('unrecognised single-append form of the uniqueness suffix: %r' % body)
        out['sfx_retry'] = False
    else:
        f = "'%s' %% sfx_idx" % (m.group(0))
        want = ['base_fn = out_fn', 'sfx_idx = out_idx', 'out_fn = base_fn + ' + f,
                'while out_fn in generated_outs:\n    sfx_idx += 1\n    out_fn = base_fn + ' + f]
        if body != want:
            raise TableError('unrecognised re-check loop of the uniqueness suffix: %r' % body)
        out['sfx_retry'] = True
    # the bookkeeping after the test: generated_outs.add(out_fn); out_idx += 1; out_fn = out_fn + args.output_ext
    loop = [st for st in ast.walk(fn) if isinstance(st, ast.For) and guards[0] in st.body]
    if len(loop) != 1:
        raise TableError('the uniqueness test is not directly inside the group loop')
    i = loop[0].body.index(guards[0])
    after = [ast.unparse(st) for st in loop[0].body[i + 1:i + 4]]
    if after != ['generated_outs.add(out_fn)', 'out_idx += 1', 'out_fn = out_fn + args.output_ext']:
        raise TableError('unexpected bookkeeping after the uniqueness test: %r' % after)
    before = ast.unparse(loop[0].body[i - 1])
    if before != 'out_fn = sanitize_path_comp(out_fmt % meta)':
        raise TableError('the natural name is not sanitize_path_comp(out_fmt %% meta): %r' % before)
    # where the set of generated names lives: reset for every source directory (names unique per source
    # directory only), or -- with --dest-dir -- one set shared by all source directories of the invocation
    dirloops = [st for st in ast.walk(fn) if isinstance(st, ast.For) and ast.unparse(st.target) == 'src_dir'
                and ast.unparse(st.iter) == 'args.src_dirs']
    if len(dirloops) != 1 or loop[0] not in dirloops[0].body:
        raise TableError('the group loop is not directly inside the one `for src_dir in args.src_dirs` loop')
    dl = dirloops[0]
    inits = [ast.unparse(st) for st in ast.walk(fn) if isinstance(st, ast.Assign)
             and ast.unparse(st.targets[0]) in ('out_idx', 'generated_outs', 'dest_dir_outs')]
    top = [ast.unparse(st) for st in dl.body]
    if sorted(inits) == ['generated_outs = set()', 'out_idx = 0']:
        if 'generated_outs = set()' not in top or 'out_idx = 0' not in top:
            raise TableError('out_idx / generated_outs are not initialised once per source directory')
        out['shared_dest'] = False
    elif sorted(inits) == ['dest_dir_outs = set()', 'generated_outs = dest_dir_outs', 'generated_outs = set()', 'out_idx = 0']:
        want_if = 'if args.dest_dir:\n    generated_outs = dest_dir_outs\nelse:\n    generated_outs = set()'
        if want_if not in top or 'out_idx = 0' not in top:
            raise TableError('unrecognised per-directory initialisation of generated_outs / out_idx: %r' % [t for t in top if 'generated_outs' in t or 'out_idx' in t])
        main_top = [ast.unparse(st) for st in fn.body]
        if 'dest_dir_outs = set()' not in main_top or main_top.index('dest_dir_outs = set()') > fn.body.index(dl):
            raise TableError('dest_dir_outs is not initialised once before the source directory loop')
        if any(isinstance(n, ast.Name) and n.id == 'dest_dir_outs' and isinstance(n.ctx, ast.Store) for n in ast.walk(dl)):
            raise TableError('dest_dir_outs is re-bound inside the source directory loop')
        out['shared_dest'] = True
    else:
        raise TableError('out_idx / generated_outs are initialised in an unrecognised way: %r' % inits)
    return out


def _sanitize(tree):
    fn = find_func(tree, 'sanitize_path_comp')
    tests = [n for n in ast.walk(fn) if isinstance(n, ast.Compare)]
    if len(tests) != 1 or len(tests[0].ops) != 1 or not isinstance(tests[0].ops[0], ast.In):
        raise TableError('sanitize_path_comp: expected exactly one `in` test')
    ifs = [n for n in ast.walk(fn) if isinstance(n, ast.If)]
    if len(ifs) != 1 or not (isinstance(ifs[0].test, ast.UnaryOp) and isinstance(ifs[0].test.op, ast.Not) and ifs[0].test.operand is tests[0]):
        raise TableError('sanitize_path_comp: the membership test is not of the form `if not char in ...`')
    if ast.unparse(tests[0].left) != 'char':
        raise TableError('sanitize_path_comp: the membership test is not on `char`')
    alpha = tests[0].comparators[0]
    # ascii_letters + string.digits + '<extra>'
    if not (isinstance(alpha, ast.BinOp) and isinstance(alpha.op, ast.Add) and isinstance(alpha.left, ast.BinOp)
            and isinstance(alpha.left.op, ast.Add) and ast.unparse(alpha.left.left) == 'ascii_letters'
            and ast.unparse(alpha.left.right) == 'string.digits' and isinstance(alpha.right, ast.Constant)
            and isinstance(alpha.right.value, str)):
        raise TableError('sanitize_path_comp: allowed characters are not ascii_letters + string.digits + <literal>: %s' % ast.unparse(alpha))
    extra = alpha.right.value
    apps = [c for c in calls_in(fn, 'append')]
    if len(apps) != 2:
        raise TableError('sanitize_path_comp: expected two result.append calls')
    if ast.unparse(ifs[0].body[0]) != "result.append(%r)" % _const(ifs[0].body[0].value.args[0], 'replacement') or len(ifs[0].body) != 1:
        raise TableError('sanitize_path_comp: replacement branch has an unexpected shape')
    repl = ifs[0].body[0].value.args[0].value
    if not (isinstance(repl, str) and len(repl) == 1):
        raise TableError('sanitize_path_comp: replacement is not a single character')
    if len(ifs[0].orelse) != 1 or ast.unparse(ifs[0].orelse[0]) != 'result.append(char)':
        raise TableError('sanitize_path_comp: keep branch is not result.append(char)')
    rets = [n for n in ast.walk(fn) if isinstance(n, ast.Return)]
    if len(rets) != 1 or ast.unparse(rets[0].value) != "''.join(result)":
        raise TableError("sanitize_path_comp: does not return ''.join(result)")
    return extra, repl


def _private_rules(fn):
    blocks = [st for st in ast.walk(fn) if isinstance(st, ast.If) and ast.unparse(st.test) == 'args.extract_private']
    if len(blocks) != 1 or len(blocks[0].body) != 1 or blocks[0].orelse:
        raise TableError('unexpected shape of the `if args.extract_private:` block')
    st = blocks[0].body[0]
    if not (isinstance(st, ast.Assign) and ast.unparse(st.targets[0]) == 'ignore_rules' and isinstance(st.value, ast.Tuple)):
        raise TableError('--extract-private does not assign a tuple display to ignore_rules')
    names = []
    for e in st.value.elts:
        if not (isinstance(e, ast.Attribute) and isinstance(e.value, ast.Name) and e.value.id == 'extract'):
            raise TableError('--extract-private rule is not extract.<name>: %s' % ast.unparse(e))
        names.append(e.attr)
    return names


def _bool(b):
    return cbool(bool(b))


def emit(src):
    t = src.tree(CLI)
    main = find_func(t, 'main')
    opts = _options(main, lambda r: r == 'arg_parser' or r.endswith('_opt'))
    P = {k[1]: k[0] for k in opts}

    def opt(dest, flags, **want):
        if dest not in P:
            raise TableError('option %s not found in dcmstack_cli.main' % dest)
        return _expect_opt(opts, P[dest], dest, flags, **want)
    opt('src_dirs', ['src_dirs'], nargs='*')
    opt('force_read', ['--force-read'], action='store_true', default=False)
    file_ext = opt('file_ext', ['--file-ext'], default='.dcm')['default']
    opt('dest_dir', ['--dest-dir'], default=None)
    opt('output_name', ['-o', '--output-name'], default=None)
    output_ext = opt('output_ext', ['--output-ext'], default='.nii.gz')['default']
    opt('dump_meta', ['-d', '--dump-meta'], action='store_true', default=False)
    opt('embed_meta', ['--embed-meta'], action='store_true', default=False)
    opt('group_by', ['-g', '--group-by'], default=None)
    voxel_order = opt('voxel_order', ['--voxel-order'], default='LAS')['default']
    opt('time_var', ['-t', '--time-var'], default=None)
    opt('vector_var', ['--vector-var'], default=None)
    opt('time_order', ['--time-order'], default=None)
    opt('vector_order', ['--vector-order'], default=None)
    opt('list_translators', ['-l', '--list-translators'], action='store_true', default=False)
    opt('disable_translator', ['--disable-translator'], default=None)
    opt('extract_private', ['--extract-private'], action='store_true', default=False)
    opt('include_regex', ['-i', '--include-regex'], action='append')
    opt('exclude_regex', ['-e', '--exclude-regex'], action='append')
    opt('default_regexes', ['--default-regexes'], action='store_true', default=False)
    opt('verbose', ['-v', '--verbose'], action='store_true', default=False)
    opt('strict', ['--strict'], action='store_true', default=False)
    opt('version', ['--version'], action='store_true', default=False)
    if len(opts) != 23:
        raise TableError('dcmstack_cli.main defines %d options, the model knows 23: %r' % (len(opts), sorted(k[1] for k in opts)))

    incl_copied = _binding(main, 'include_regexes', 'default_key_incl_res', 'include_regex')
    excl_copied = _binding(main, 'exclude_regexes', 'default_key_excl_res', 'exclude_regex')
    # the filter is built from exactly these two locals
    fcalls = calls_in(main, 'make_key_regex_filter')
    if len(fcalls) != 1 or [ast.unparse(a) for a in fcalls[0].args] != ['exclude_regexes', 'include_regexes'] or fcalls[0].keywords:
        raise TableError('meta_filter is not make_key_regex_filter(exclude_regexes, include_regexes)')
    # group_by falls back to the imported module default (a tuple: immutable)
    gb = [st for st in ast.walk(main) if isinstance(st, ast.Assign) and ast.unparse(st.targets[0]) == 'group_by']
    if sorted(ast.unparse(st.value) for st in gb) != ["args.group_by.split(',')", 'default_group_keys']:
        raise TableError('group_by is not args.group_by.split(\',\') / default_group_keys')

    nm = _naming(main)
    extra, repl = _sanitize(t)
    priv = _private_rules(main)

    # ---- nitool
    nt = src.tree(NIT)
    nmain = find_func(nt, 'main')
    nopts = _options(nmain, lambda r: r.endswith('_parser'))

    def nopt(parser, dest, flags, **want):
        return _expect_opt(nopts, parser, dest, flags, **want)
    nopt('split_parser', 'src_nii', ['src_nii'], nargs=1)
    nopt('split_parser', 'dimension', ['-d', '--dimension'], default=None, type='int')
    nopt('split_parser', 'output_format', ['-o', '--output-format'], default=None)
    nopt('merge_parser', 'output', ['output'], nargs=1)
    nopt('merge_parser', 'src_niis', ['src_niis'], nargs='+')
    nopt('merge_parser', 'dimension', ['-d', '--dimension'], default=None, type='int')
    nopt('merge_parser', 'sort', ['-s', '--sort'], default=None)
    nopt('merge_parser', 'clear_slices', ['-c', '--clear-slices'], action='store_true')
    nopt('dump_parser', 'src_nii', ['src_nii'], nargs=1)
    nopt('dump_parser', 'dest_json', ['dest_json'], nargs='?', type="argparse.FileType('w')", default=('expr', 'sys.stdout'))
    nopt('dump_parser', 'make_empty', ['-m', '--make-empty'], action='store_true', default=False)
    nopt('dump_parser', 'remove', ['-r', '--remove'], action='store_true', default=False)
    nopt('embed_parser', 'src_json', ['src_json'], nargs='?', type="argparse.FileType('r')", default=('expr', 'sys.stdin'))
    nopt('embed_parser', 'dest_nii', ['dest_nii'], nargs=1)
    nopt('embed_parser', 'force_overwrite', ['-f', '--force-overwrite'], action='store_true')
    nopt('lookup_parser', 'key', ['key'], nargs=1)
    nopt('lookup_parser', 'src_nii', ['src_nii'], nargs=1)
    nopt('lookup_parser', 'index', ['-i', '--index'])
    nopt('inject_parser', 'dest_nii', ['dest_nii'], nargs=1)
    nopt('inject_parser', 'classification', ['classification'], nargs=2)
    nopt('inject_parser', 'key', ['key'], nargs=1)
    nopt('inject_parser', 'values', ['values'], nargs='+')
    nopt('inject_parser', 'force_overwrite', ['-f', '--force-overwrite'], action='store_true')
    nopt('inject_parser', 'type', ['-t', '--type'], default=None)
    if len(nopts) != 24:
        raise TableError('nitool_cli.main defines %d arguments, the model knows 24' % len(nopts))
    sp = find_func(nt, 'split')
    sfm = [n.left.value for n in ast.walk(sp) if isinstance(n, ast.BinOp) and isinstance(n.op, ast.Mod)
           and isinstance(n.left, ast.Constant) and isinstance(n.left.value, str)]
    if len(sfm) != 1:
        raise TableError('nitool split: expected one literal name format, found %r' % sfm)
    m = re.match(r'^%(0?)([0-9]*)d([^%]*)%s$', sfm[0])
    if not m:
        raise TableError('nitool split: default name format is not %%[0][w]d<sep>%%s: %r' % sfm[0])
    # accepted literal type names of `inject --type`
    cv = find_func(nt, 'convert_values')
    tn = [lit(n.comparators[0]) for n in ast.walk(cv) if isinstance(n, ast.Compare) and len(n.ops) == 1
          and isinstance(n.ops[0], ast.NotIn) and ast.unparse(n.left) == 'type_str']
    if len(tn) != 1 or sorted(tn[0]) != ['float', 'int', 'str']:
        raise TableError('convert_values: accepted type names changed: %r' % (tn,))
    auto = [ast.unparse(n.iter) for n in ast.walk(cv) if isinstance(n, ast.For)]
    if auto != ['(int, float)']:
        raise TableError('convert_values: automatic conversion order is not (int, float): %r' % (auto,))

    o = []
    o.append('(* argparse defaults of dcmstack (every other option defaults to None / False / [] -- checked) *)')
    o.append('Definition dflt_file_ext : list N := %s.' % cstr(file_ext))
    o.append('Definition dflt_output_ext : list N := %s.' % cstr(output_ext))
    o.append('Definition dflt_voxel_order : list N := %s.' % cstr(voxel_order))
    o.append('(* include_regexes / exclude_regexes: true = a copy of the module default list is extended,')
    o.append('   false = the module list itself (an alias) is extended in place *)')
    o.append('Definition incl_copied : bool := %s.' % _bool(incl_copied))
    o.append('Definition excl_copied : bool := %s.' % _bool(excl_copied))
    o.append('(* default output name: [%(num_key)0<w>d] sep (%(name_key1)s | %(name_key2)s | fallback) *)')
    o.append('Definition name_num_key : list N := %s.' % cstr(nm['num_key']))
    o.append('Definition name_num_zero : bool := %s.' % _bool(nm['num_zero']))
    o.append('Definition name_num_width : nat := %s.' % cnat(nm['num_width']))
    o.append('Definition name_key1 : list N := %s.' % cstr(nm['name_key1']))
    o.append('Definition name_key2 : list N := %s.' % cstr(nm['name_key2']))
    o.append('Definition name_fallback : list N := %s.' % cstr(nm['name_fallback']))
    o.append('Definition name_sep : list N := %s.' % cstr(nm['name_sep']))
    o.append('(* sanitize_path_comp keeps ASCII letters, digits and these characters; others become sanitize_repl *)')
    o.append('Definition sanitize_extra : list N := %s.' % cstr(extra))
    o.append('Definition sanitize_repl : N := %s.' % cN(ord(repl)))
    o.append('(* uniqueness suffix: base ++ sfx_prefix ++ pad(sfx_width, sfx_idx) ++ sfx_tail *)')
    o.append('Definition sfx_prefix : list N := %s.' % cstr(nm['sfx_prefix']))
    o.append('Definition sfx_zero : bool := %s.' % _bool(nm['sfx_zero']))
    o.append('Definition sfx_width : nat := %s.' % cnat(nm['sfx_width']))
    o.append('Definition sfx_tail : list N := %s.' % cstr(nm['sfx_tail']))
    o.append('(* true = the suffix index is increased until the name is unused; false = a single append of out_idx *)')
    o.append('Definition sfx_retry : bool := %s.' % _bool(nm['sfx_retry']))
    o.append('(* true = with --dest-dir the set of generated names is shared by all source directories of the invocation;')
    o.append('   false = it is reset for every source directory *)')
    o.append('Definition names_shared_dest : bool := %s.' % _bool(nm['shared_dest']))
    o.append('(* ignore rules of --extract-private, by function name *)')
    o.append('Definition private_ignore_rule_names : list (list N) := %s.' % clist(cstr(s) for s in priv))
    o.append('(* nitool split: default name  pad(split_width, idx) ++ split_sep ++ basename *)')
    o.append('Definition split_zero : bool := %s.' % _bool(m.group(1) == '0'))
    o.append('Definition split_width : nat := %s.' % cnat(_width(m.group(2))))
    o.append('Definition split_sep : list N := %s.' % cstr(m.group(3)))
    return '\n'.join(o) + '\n'
