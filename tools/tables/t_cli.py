"""Literals and binding forms the two command-line tools are driven by (property C19).

Everything is located in the AST of dcmstack_cli.main / nitool_cli.* (never imported):
  * argparse defaults of every option of `dcmstack` and of the nitool sub-commands,
  * HOW the include / exclude regex lists are derived from the module defaults
    (copy  `list(dcmstack.default_key_incl_res)`  vs.  alias  `dcmstack.default_key_incl_res`,
     followed by an in-place `+=`): emitted as booleans the model consumes, so that an aliasing
     edit (finding F10) makes `C19_no_state` unprovable,
  * the output naming: pieces of the default format, the characters sanitize_path_comp keeps, the
    replacement character, the uniqueness suffix format '-%03d', whether the suffix search re-checks
    (F13) and whether the set of names is shared by all source directories under --dest-dir (F18),
  * the ignore rules used by --extract-private,
  * nitool split's default name format '%03d-%s', the type names / conversion order of inject.
Code shapes are compared with expected snippets up to renaming of local variables (`_match`), so a
renamed local does not abort the translation; any other unexpected shape raises TableError (fail closed)."""
import ast, re, textwrap
from astlib import *  # noqa: F401,F403

WHAT = ("dcmstack_cli.main: argparse defaults, derivation of the regex lists from the module defaults (copy/alias), "
        "default output name format, sanitize_path_comp character set, '-%03d' suffix and its search, where the set of generated "
        "names lives, --extract-private rules; nitool_cli: argparse defaults, split's default name format, inject's type names")

CLI = 'src/dcmstack/dcmstack_cli.py'
NIT = 'src/dcmstack/nitool_cli.py'


def _const(node, what):
    if not isinstance(node, ast.Constant):
        raise TableError('%s is not a literal constant (line %s)' % (what, getattr(node, 'lineno', '?')))
    return node.value


# ------------------------------------------------------------------------------------------------ pattern matching

def _locals_of(fn):
    """names bound inside the function (assignment / for / with targets, parameters)"""
    out = set(a.arg for a in fn.args.args)
    for n in ast.walk(fn):
        if isinstance(n, ast.Name) and isinstance(n.ctx, (ast.Store, ast.Del)):
            out.add(n.id)
    return out


def _match(nodes, expected_src, local_names, what):
    """Compare a list of statements with an expected snippet.  In the snippet, names starting with
    `V_` stand for local variables (consistently and injectively renamed), the string constant '_S'
    stands for any string literal.  Returns (env: placeholder -> actual name, list of matched strings)."""
    exp = ast.parse(textwrap.dedent(expected_src)).body
    env, rev, consts = {}, {}, []

    def fail(msg, node=None):
        raise TableError('%s: unexpected code shape (%s) at line %s' % (what, msg, getattr(node, 'lineno', '?')))

    def cmp(a, e):
        if isinstance(e, ast.Name) and e.id.startswith('V_'):
            if not isinstance(a, ast.Name):
                fail('expected a local variable, found %s' % type(a).__name__, a)
            if a.id not in local_names:
                fail('%s is not a local variable' % a.id, a)
            if env.setdefault(e.id, a.id) != a.id or rev.setdefault(a.id, e.id) != e.id:
                fail('variables are used inconsistently (%s)' % a.id, a)
            if type(a.ctx) is not type(e.ctx):
                fail('variable %s is read/written differently' % a.id, a)
            return
        if isinstance(e, ast.Constant) and e.value == '_S':
            if not (isinstance(a, ast.Constant) and isinstance(a.value, str)):
                fail('expected a string literal', a)
            consts.append(a.value)
            return
        if type(a) is not type(e):
            fail('expected %s, found %s' % (type(e).__name__, type(a).__name__), a if isinstance(a, ast.AST) else None)
        if isinstance(e, ast.AST):
            for f in e._fields:
                if f in ('type_comment', 'kind'):
                    continue
                cmp(getattr(a, f, None), getattr(e, f, None))
        elif isinstance(e, list):
            if len(a) != len(e):
                fail('expected %d items, found %d' % (len(e), len(a)), a[0] if a and isinstance(a[0], ast.AST) else None)
            for x, y in zip(a, e):
                cmp(x, y)
        elif a != e:
            fail('expected %r, found %r' % (e, a))
    cmp(list(nodes), exp)
    return env, consts


# ------------------------------------------------------------------------------------------------ argparse

def _options(fn, group_of):
    """(group, dest) -> {'default':..., 'action':..., 'nargs':..., 'type':..., 'flags': [...]} for every
    <parser>.add_argument(...) call under `fn`; `group_of(receiver variable name)` names the (sub-)parser."""
    out = {}
    for c in calls_in(fn, 'add_argument'):
        if not (isinstance(c.func, ast.Attribute) and isinstance(c.func.value, ast.Name)):
            raise TableError('add_argument on something that is not a plain variable at line %d' % c.lineno)
        grp = group_of(c.func.value.id)
        flags = []
        for a in c.args:
            v = _const(a, 'add_argument flag')
            if not isinstance(v, str):
                raise TableError('add_argument flag is not a string at line %d' % c.lineno)
            flags.append(v)
        if not flags:
            raise TableError('add_argument without flags at line %d' % c.lineno)
        longs = [f for f in flags if f.startswith('--')]
        dest = (longs[0][2:] if longs else flags[0].lstrip('-')).replace('-', '_')
        kw = {}
        for k in c.keywords:
            if k.arg is None:
                raise TableError('add_argument with ** at line %d' % c.lineno)
            if k.arg == 'help':
                continue
            if k.arg == 'dest':
                raise TableError('add_argument with an explicit dest at line %d: not modelled' % c.lineno)
            if k.arg == 'type':
                kw['type'] = ast.unparse(k.value)
            elif k.arg == 'default' and not isinstance(k.value, ast.Constant):
                kw['default'] = ('expr', ast.unparse(k.value))
            else:
                kw[k.arg] = _const(k.value, 'add_argument %s=' % k.arg)
        kw['flags'] = flags
        key = (grp, dest)
        if key in out:
            raise TableError('option %s defined twice' % dest)
        out[key] = kw
    return out


def _expect_opt(opts, parser, dest, flags, **want):
    o = opts.get((parser, dest))
    if o is None:
        raise TableError('option %s of %s not found' % (dest, parser))
    if sorted(o['flags']) != sorted(flags):
        raise TableError('option %s: flags are %r, expected %r' % (dest, o['flags'], flags))
    got = {k: v for k, v in o.items() if k != 'flags'}
    for k, v in want.items():
        if k not in got or got[k] != v or type(got[k]) is not type(v):
            raise TableError('option %s: %s is %r, expected %r' % (dest, k, got.get(k, '<absent>'), v))
    extra = set(got) - set(want)
    if extra:
        raise TableError('option %s: unexpected keywords %r' % (dest, sorted(extra)))
    return o


# ------------------------------------------------------------------------------------------------ regex lists

def _is_default_list(node, name):
    """`dcmstack.<name>` (the module attribute)."""
    return (isinstance(node, ast.Attribute) and node.attr == name and isinstance(node.value, ast.Name)
            and node.value.id == 'dcmstack')


def _mentions_default(node, name):
    return any(_is_default_list(n, name) for n in ast.walk(node))


def _binding(fn, default_name, opt_attr):
    """How the local list is derived from dcmstack.<default_name> and extended by args.<opt_attr>.
    Returns (local name, copied?) -- copied = the module list cannot be changed through the local."""
    assigns = [st for st in ast.walk(fn) if isinstance(st, ast.Assign) and _mentions_default(st.value, default_name)]
    if len(assigns) != 1 or len(assigns[0].targets) != 1 or not isinstance(assigns[0].targets[0], ast.Name):
        raise TableError('expected exactly one `<local> = ...dcmstack.%s...` in main, found %d' % (default_name, len(assigns)))
    local = assigns[0].targets[0].id
    other = [st for st in ast.walk(fn) if isinstance(st, ast.Assign) and st is not assigns[0]
             and any(isinstance(t, ast.Name) and t.id == local for t in st.targets)]
    if other:
        raise TableError('%s is assigned more than once' % local)
    # no other use of the module list inside main except printing it (--default-regexes)
    v = assigns[0].value
    if _is_default_list(v, default_name):
        copied = False
    elif (isinstance(v, ast.Call) and isinstance(v.func, ast.Name) and v.func.id in ('list', 'copy', 'deepcopy')
          and len(v.args) == 1 and not v.keywords and _is_default_list(v.args[0], default_name)):
        copied = True
    elif (isinstance(v, ast.Subscript) and _is_default_list(v.value, default_name) and isinstance(v.slice, ast.Slice)
          and v.slice.lower is None and v.slice.upper is None and v.slice.step is None):
        copied = True
    elif (isinstance(v, ast.Call) and isinstance(v.func, ast.Attribute) and v.func.attr == 'copy' and not v.args
          and not v.keywords and _is_default_list(v.func.value, default_name)):
        copied = True
    else:
        raise TableError('%s is initialised by an unrecognised expression: %s' % (local, ast.unparse(v)))
    # the extension:  if args.<opt>: <local> += args.<opt>      (in place)
    exts = []
    for st in ast.walk(fn):
        if isinstance(st, ast.AugAssign) and isinstance(st.target, ast.Name) and st.target.id == local:
            exts.append(st)
        if (isinstance(st, ast.Call) and isinstance(st.func, ast.Attribute) and isinstance(st.func.value, ast.Name)
                and st.func.value.id == local and st.func.attr in ('extend', 'append', 'insert', 'remove', 'pop', 'clear', 'sort', 'reverse')):
            raise TableError('%s is mutated through .%s(): not modelled' % (local, st.func.attr))
    if len(exts) != 1:
        raise TableError('expected exactly one augmented assignment to %s, found %d' % (local, len(exts)))
    e = exts[0]
    if not (isinstance(e.op, ast.Add) and ast.unparse(e.value) == 'args.' + opt_attr):
        raise TableError('%s is not extended by `+= args.%s`: %s' % (local, opt_attr, ast.unparse(e)))
    guard = [st for st in ast.walk(fn) if isinstance(st, ast.If) and e in st.body]
    if len(guard) != 1 or ast.unparse(guard[0].test) != 'args.' + opt_attr or len(guard[0].body) != 1 or guard[0].orelse:
        raise TableError('the extension of %s is not guarded by `if args.%s:`' % (local, opt_attr))
    # the module attribute must not be written anywhere in main
    for n in ast.walk(fn):
        if isinstance(n, ast.Attribute) and n.attr == default_name and isinstance(n.ctx, (ast.Store, ast.Del)):
            raise TableError('dcmstack.%s is assigned inside main' % default_name)
    return local, copied


# ------------------------------------------------------------------------------------------------ naming

_FMT_D = re.compile(r'^([^%]*)%(0?)([0-9]*)d([^%]*)$')
_FMT_KEYED_D = re.compile(r'^%\(([A-Za-z_]\w*)\)(0?)([0-9]*)d$')
_FMT_KEYED_S = re.compile(r'^%\(([A-Za-z_]\w*)\)s$')


def _width(s):
    w = int(s) if s else 0
    if w > 20:
        raise TableError('unreasonable field width %d' % w)
    return w


DEFAULT_FMT_BLOCK = '''
if args.output_name is None:
    V_fmt = []
    if '_S' in V_meta:
        V_fmt.append('_S')
    if '_S' in V_meta:
        V_fmt.append('_S')
    elif '_S' in V_meta:
        V_fmt.append('_S')
    else:
        V_fmt.append('_S')
    V_fmt = '_S'.join(V_fmt)
else:
    V_fmt = args.output_name
'''

NAME_RETRY = '''
V_fn = sanitize_path_comp(V_fmt % V_meta)
if V_fn in V_set:
    V_base = V_fn
    V_sfx = V_idx
    V_fn = V_base + '_S' % V_sfx
    while V_fn in V_set:
        V_sfx += 1
        V_fn = V_base + '_S' % V_sfx
V_set.add(V_fn)
V_idx += 1
V_fn = V_fn + args.output_ext
'''

NAME_SINGLE_AUG = '''
V_fn = sanitize_path_comp(V_fmt % V_meta)
if V_fn in V_set:
    V_fn += '_S' % V_idx
V_set.add(V_fn)
V_idx += 1
V_fn = V_fn + args.output_ext
'''

NAME_SINGLE = '''
V_fn = sanitize_path_comp(V_fmt % V_meta)
if V_fn in V_set:
    V_fn = V_fn + '_S' % V_idx
V_set.add(V_fn)
V_idx += 1
V_fn = V_fn + args.output_ext
'''


def _naming(fn):
    out = {}
    loc = _locals_of(fn)
    # ---- default output format: the `if args.output_name is None:` block
    blocks = [st for st in ast.walk(fn) if isinstance(st, ast.If) and ast.unparse(st.test) == 'args.output_name is None']
    if len(blocks) != 1:
        raise TableError('expected exactly one `if args.output_name is None:` block, found %d' % len(blocks))
    env0, cs = _match([blocks[0]], DEFAULT_FMT_BLOCK, loc, 'default output name format')
    k1, f1, k2, f2, k3, f3, fallback, sep = cs
    m = _FMT_KEYED_D.match(f1)
    if not m or m.group(1) != k1:
        raise TableError('series-number format %r does not use the key it tests (%s)' % (f1, k1))
    out['num_key'], out['num_zero'], out['num_width'] = k1, m.group(2) == '0', _width(m.group(3))
    m = _FMT_KEYED_S.match(f2)
    if not m or m.group(1) != k2:
        raise TableError('protocol-name format %r does not use the key it tests (%s)' % (f2, k2))
    m = _FMT_KEYED_S.match(f3)
    if not m or m.group(1) != k3:
        raise TableError('series-description format %r does not use the key it tests (%s)' % (f3, k3))
    if '%' in fallback or '%' in sep:
        raise TableError('fallback name / separator contains a format directive')
    out['name_key1'], out['name_key2'], out['name_fallback'], out['name_sep'] = k2, k3, fallback, sep

    # ---- the group loop:  for key, group in iteritems(groups): ... the five naming statements
    loops = [st for st in ast.walk(fn) if isinstance(st, ast.For) and blocks[0] in st.body]
    if len(loops) != 1:
        raise TableError('the default-format block is not directly inside one loop')
    gl = loops[0]
    i0 = gl.body.index(blocks[0])
    stmts = gl.body[i0 + 1:i0 + 6]
    env, fm, retry = None, None, None
    errs = []
    for snippet, r in ((NAME_RETRY, True), (NAME_SINGLE_AUG, False), (NAME_SINGLE, False)):
        try:
            env, fm = _match(stmts, snippet, loc, 'output naming')
            retry = r
            break
        except TableError as e:
            errs.append(str(e))
    if env is None:
        raise TableError('the statements after the default-format block are neither the re-check loop nor the single append: ' + errs[0])
    if len(set(fm)) != 1:
        raise TableError('the suffix is formatted with different literals: %r' % fm)
    if env['V_fmt'] != env0['V_fmt'] or env['V_meta'] != env0['V_meta']:
        raise TableError('the natural name is not built from the format chosen just before')
    m = _FMT_D.match(fm[0])
    if not m:
        raise TableError('suffix format is not <text>%[0][width]d<text>')
    out['sfx_prefix'], out['sfx_zero'], out['sfx_width'], out['sfx_tail'] = m.group(1), m.group(2) == '0', _width(m.group(3)), m.group(4)
    out['sfx_retry'] = retry
    v_set, v_idx, v_fn = env['V_set'], env['V_idx'], env['V_fn']
    # the name and the counter are not touched elsewhere in the group loop before the file is written
    for st in gl.body[:i0]:
        for n in ast.walk(st):
            if isinstance(n, ast.Name) and n.id in (v_set, v_idx) and isinstance(n.ctx, ast.Store):
                raise TableError('%s is re-bound inside the group loop' % n.id)
    for st in gl.body[i0 + 6:]:
        for n in ast.walk(st):
            if isinstance(n, ast.Name) and n.id in (v_set, v_idx, v_fn) and isinstance(n.ctx, ast.Store):
                raise TableError('%s is re-bound after the uniqueness code' % n.id)

    # ---- where the set of generated names lives
    dirloops = [st for st in ast.walk(fn) if isinstance(st, ast.For) and gl in st.body]
    if len(dirloops) != 1 or ast.unparse(dirloops[0].iter) != 'args.src_dirs' or dirloops[0] not in fn.body:
        raise TableError('the group loop is not directly inside the one top-level `for ... in args.src_dirs` loop')
    dl = dirloops[0]
    def binds(st):
        return any(isinstance(n, ast.Name) and n.id in (v_set, v_idx) and isinstance(n.ctx, (ast.Store, ast.Del)) for n in ast.walk(st))
    gi = dl.body.index(gl)
    per_dir = [st for st in dl.body[:gi] if binds(st)]
    if any(binds(st) for st in fn.body if st is not dl) or any(binds(st) for st in dl.body[gi + 1:]):
        raise TableError('%s / %s are bound outside the source directory loop body' % (v_set, v_idx))
    if not per_dir:
        raise TableError('the name set / counter are not initialised per source directory before the group loop')
    try:
        e1, _ = _match(per_dir, 'V_idx = 0\nV_set = set()', loc, 'per-directory initialisation')
        shared = False
    except TableError:
        try:
            e1, _ = _match(per_dir, 'V_set = set()\nV_idx = 0', loc, 'per-directory initialisation')
            shared = False
        except TableError:
            e1, _ = _match(per_dir, 'V_idx = 0\nif args.dest_dir:\n    V_set = V_all\nelse:\n    V_set = set()', loc,
                           'per-directory initialisation')
            shared = True
    if e1['V_idx'] != v_idx or e1['V_set'] != v_set:
        raise TableError('the per-directory initialisation does not initialise %s and %s' % (v_idx, v_set))
    if shared:
        v_all = e1['V_all']
        tops = [st for st in fn.body if isinstance(st, ast.Assign)]
        init = [st for st in tops if len(st.targets) == 1 and isinstance(st.targets[0], ast.Name) and st.targets[0].id == v_all]
        if len(init) != 1 or ast.unparse(init[0].value) != 'set()' or fn.body.index(init[0]) > fn.body.index(dl):
            raise TableError('%s is not initialised once by set() before the source directory loop' % v_all)
        for n in ast.walk(fn):
            if isinstance(n, ast.Name) and n.id == v_all and isinstance(n.ctx, (ast.Store, ast.Del)) and n is not init[0].targets[0]:
                raise TableError('%s is re-bound' % v_all)
        for n in ast.walk(fn):
            if (isinstance(n, ast.Call) and isinstance(n.func, ast.Attribute) and isinstance(n.func.value, ast.Name)
                    and n.func.value.id == v_all):
                raise TableError('%s is modified directly (.%s)' % (v_all, n.func.attr))
    out['shared_dest'] = shared
    return out


SANITIZE = '''
V_res = []
for V_c in V_arg:
    if not V_c in ascii_letters + string.digits + '_S':
        V_res.append('_S')
    else:
        V_res.append(V_c)
return ''.join(V_res)
'''


def _sanitize(tree):
    fn = find_func(tree, 'sanitize_path_comp')
    if len(fn.args.args) != 1 or fn.args.vararg or fn.args.kwarg or fn.args.kwonlyargs or fn.args.defaults:
        raise TableError('sanitize_path_comp does not take exactly one plain argument')
    body = [st for st in fn.body if not (isinstance(st, ast.Expr) and isinstance(st.value, ast.Constant))]
    env, cs = _match(body, SANITIZE, _locals_of(fn), 'sanitize_path_comp')
    if env['V_arg'] != fn.args.args[0].arg:
        raise TableError('sanitize_path_comp does not iterate over its argument')
    extra, repl = cs
    if len(repl) != 1:
        raise TableError('sanitize_path_comp: replacement is not a single character')
    return extra, repl


EXTRACTOR_FRESH = 'V_x = extract.MetaExtractor(V_rules, V_trans)'
EXTRACTOR_SHARED = 'V_x = extract.default_extractor\nV_x.ignore_rules = V_rules\nV_x.translators = V_trans'


def _private_rules(fn):
    """(names of the --extract-private rules, fresh?) -- fresh = the extractor handed to parse_and_group is a NEW
    MetaExtractor(ignore_rules, translators); not fresh = the shared extract.default_extractor re-configured in place."""
    loc = _locals_of(fn)
    blocks = [st for st in ast.walk(fn) if isinstance(st, ast.If) and ast.unparse(st.test) == 'args.extract_private']
    if len(blocks) != 1 or len(blocks[0].body) != 1 or blocks[0].orelse:
        raise TableError('unexpected shape of the `if args.extract_private:` block')
    st = blocks[0].body[0]
    if not (isinstance(st, ast.Assign) and len(st.targets) == 1 and isinstance(st.targets[0], ast.Name) and isinstance(st.value, ast.Tuple)):
        raise TableError('--extract-private does not assign a tuple display to a variable')
    var = st.targets[0].id
    # the gen_meta branch ends with the construction of the extractor
    outer = [b for b in ast.walk(fn) if isinstance(b, ast.If) and blocks[0] in b.body]
    if len(outer) != 1 or len(outer[0].orelse) != 1:
        raise TableError('the --extract-private block is not inside the `if gen_meta: ... else: ...` statement')
    gm = outer[0]
    i = gm.body.index(blocks[0])
    tail = gm.body[i + 1:]
    try:
        env, _ = _match(tail, EXTRACTOR_FRESH, loc, 'extractor construction')
        fresh = True
    except TableError as e1:
        try:
            env, _ = _match(tail, EXTRACTOR_SHARED, loc, 'extractor construction')
            fresh = False
        except TableError:
            raise e1
    if env['V_rules'] != var:
        raise TableError('the tuple assigned under --extract-private is not the ignore_rules of the extractor')
    _match(gm.orelse, '%s = extract.minimal_extractor' % 'V_x', loc, 'extractor without meta data')
    x = env['V_x']
    # no other write to module-level objects of extract / dcmstack inside main
    for n in ast.walk(fn):
        if isinstance(n, ast.Attribute) and isinstance(n.ctx, (ast.Store, ast.Del)):
            base = n.value
            ok = (not fresh) and isinstance(base, ast.Name) and base.id == x and n.attr in ('ignore_rules', 'translators')
            if not ok:
                raise TableError('main assigns the attribute %s: module / object state written in a way the model does not know' % ast.unparse(n))
    pg = calls_in(fn, 'parse_and_group')
    if len(pg) != 1:
        raise TableError('expected exactly one parse_and_group call in main, found %d' % len(pg))
    xarg = pg[0].args[2] if len(pg[0].args) >= 3 else ([k.value for k in pg[0].keywords if k.arg == 'extractor'] or [None])[0]
    if xarg is None or ast.unparse(xarg) != x:
        raise TableError('the extractor built above is not handed to the one parse_and_group call (third argument or extractor=)')
    names = []
    for e in st.value.elts:
        if not (isinstance(e, ast.Attribute) and isinstance(e.value, ast.Name) and e.value.id == 'extract'):
            raise TableError('--extract-private rule is not extract.<name>: %s' % ast.unparse(e))
        names.append(e.attr)
    return names, fresh


def _bool(b):
    return cbool(bool(b))


def emit(src):
    t = src.tree(CLI)
    main = find_func(t, 'main')
    opts = _options(main, lambda r: 'dcmstack')

    def opt(dest, flags, **want):
        return _expect_opt(opts, 'dcmstack', dest, flags, **want)
    opt('src_dirs', ['src_dirs'], nargs='*')
    opt('force_read', ['--force-read'], action='store_true', default=False)
    file_ext = opt('file_ext', ['--file-ext'], default='.dcm')['default']
    opt('dest_dir', ['--dest-dir'], default=None)
    opt('output_name', ['-o', '--output-name'], default=None)
    output_ext = opt('output_ext', ['--output-ext'], default='.nii.gz')['default']
    opt('dump_meta', ['-d', '--dump-meta'], action='store_true', default=False)
    opt('embed_meta', ['--embed-meta'], action='store_true', default=False)
    opt('group_by', ['-g', '--group-by'], default=None)
    voxel_order = opt('voxel_order', ['--voxel-order'], default='LAS')['default']
    opt('time_var', ['-t', '--time-var'], default=None)
    opt('vector_var', ['--vector-var'], default=None)
    opt('time_order', ['--time-order'], default=None)
    opt('vector_order', ['--vector-order'], default=None)
    opt('list_translators', ['-l', '--list-translators'], action='store_true', default=False)
    opt('disable_translator', ['--disable-translator'], default=None)
    opt('extract_private', ['--extract-private'], action='store_true', default=False)
    opt('include_regex', ['-i', '--include-regex'], action='append')
    opt('exclude_regex', ['-e', '--exclude-regex'], action='append')
    opt('default_regexes', ['--default-regexes'], action='store_true', default=False)
    opt('verbose', ['-v', '--verbose'], action='store_true', default=False)
    opt('strict', ['--strict'], action='store_true', default=False)
    opt('version', ['--version'], action='store_true', default=False)
    if len(opts) != 23:
        raise TableError('dcmstack_cli.main defines %d options, the model knows 23: %r' % (len(opts), sorted(k[1] for k in opts)))

    incl_local, incl_copied = _binding(main, 'default_key_incl_res', 'include_regex')
    excl_local, excl_copied = _binding(main, 'default_key_excl_res', 'exclude_regex')
    # the filter is built from exactly these two locals
    fcalls = calls_in(main, 'make_key_regex_filter')
    if len(fcalls) != 1 or [ast.unparse(a) for a in fcalls[0].args] != [excl_local, incl_local] or fcalls[0].keywords:
        raise TableError('meta_filter is not make_key_regex_filter(<exclude list>, <include list>)')
    # group_by falls back to the imported module default (a tuple: immutable)
    gb = [st for st in ast.walk(main) if isinstance(st, ast.Assign) and ast.unparse(st.value) in ("args.group_by.split(',')", 'default_group_keys')]
    if sorted(ast.unparse(st.value) for st in gb) != ["args.group_by.split(',')", 'default_group_keys'] or \
            len(set(ast.unparse(st.targets[0]) for st in gb)) != 1:
        raise TableError('group_by is not args.group_by.split(\',\') / default_group_keys')

    nm = _naming(main)
    extra, repl = _sanitize(t)
    priv, extractor_fresh = _private_rules(main)

    # ---- nitool
    nt = src.tree(NIT)
    nmain = find_func(nt, 'main')
    sub = {}
    for st in ast.walk(nmain):
        if (isinstance(st, ast.Assign) and len(st.targets) == 1 and isinstance(st.targets[0], ast.Name) and isinstance(st.value, ast.Call)
                and isinstance(st.value.func, ast.Attribute) and st.value.func.attr == 'add_parser' and st.value.args):
            sub[st.targets[0].id] = _const(st.value.args[0], 'sub-command name')

    def grp(r):
        if r not in sub:
            raise TableError('nitool: add_argument on %s, which is not a sub-command parser' % r)
        return sub[r]
    nopts = _options(nmain, grp)

    def nopt(parser, dest, flags, **want):
        return _expect_opt(nopts, parser, dest, flags, **want)
    nopt('split', 'src_nii', ['src_nii'], nargs=1)
    nopt('split', 'dimension', ['-d', '--dimension'], default=None, type='int')
    nopt('split', 'output_format', ['-o', '--output-format'], default=None)
    nopt('merge', 'output', ['output'], nargs=1)
    nopt('merge', 'src_niis', ['src_niis'], nargs='+')
    nopt('merge', 'dimension', ['-d', '--dimension'], default=None, type='int')
    nopt('merge', 'sort', ['-s', '--sort'], default=None)
    nopt('merge', 'clear_slices', ['-c', '--clear-slices'], action='store_true')
    nopt('dump', 'src_nii', ['src_nii'], nargs=1)
    nopt('dump', 'dest_json', ['dest_json'], nargs='?', type="argparse.FileType('w')", default=('expr', 'sys.stdout'))
    nopt('dump', 'make_empty', ['-m', '--make-empty'], action='store_true', default=False)
    nopt('dump', 'remove', ['-r', '--remove'], action='store_true', default=False)
    nopt('embed', 'src_json', ['src_json'], nargs='?', type="argparse.FileType('r')", default=('expr', 'sys.stdin'))
    nopt('embed', 'dest_nii', ['dest_nii'], nargs=1)
    nopt('embed', 'force_overwrite', ['-f', '--force-overwrite'], action='store_true')
    nopt('lookup', 'key', ['key'], nargs=1)
    nopt('lookup', 'src_nii', ['src_nii'], nargs=1)
    nopt('lookup', 'index', ['-i', '--index'])
    nopt('inject', 'dest_nii', ['dest_nii'], nargs=1)
    nopt('inject', 'classification', ['classification'], nargs=2)
    nopt('inject', 'key', ['key'], nargs=1)
    nopt('inject', 'values', ['values'], nargs='+')
    nopt('inject', 'force_overwrite', ['-f', '--force-overwrite'], action='store_true')
    nopt('inject', 'type', ['-t', '--type'], default=None)
    if len(nopts) != 24:
        raise TableError('nitool_cli.main defines %d arguments, the model knows 24' % len(nopts))
    sp = find_func(nt, 'split')
    sfm = [n.left.value for n in ast.walk(sp) if isinstance(n, ast.BinOp) and isinstance(n.op, ast.Mod)
           and isinstance(n.left, ast.Constant) and isinstance(n.left.value, str)]
    if len(sfm) != 1:
        raise TableError('nitool split: expected one literal name format, found %r' % sfm)
    m = re.match(r'^%(0?)([0-9]*)d([^%]*)%s$', sfm[0])
    if not m:
        raise TableError('nitool split: default name format is not %%[0][w]d<sep>%%s: %r' % sfm[0])
    # accepted literal type names of `inject --type`, and the automatic conversion order
    cv = find_func(nt, 'convert_values')
    tn = [lit(n.comparators[0]) for n in ast.walk(cv) if isinstance(n, ast.Compare) and len(n.ops) == 1
          and isinstance(n.ops[0], ast.NotIn)]
    if len(tn) != 1 or sorted(tn[0]) != ['float', 'int', 'str']:
        raise TableError('convert_values: accepted type names changed: %r' % (tn,))
    auto = [ast.unparse(n.iter) for n in ast.walk(cv) if isinstance(n, ast.For)]
    if auto != ['(int, float)']:
        raise TableError('convert_values: automatic conversion order is not (int, float): %r' % (auto,))

    o = []
    o.append('(* argparse defaults of dcmstack (every other option defaults to None / False / [] -- checked) *)')
    o.append('Definition dflt_file_ext : list N := %s.' % cstr(file_ext))
    o.append('Definition dflt_output_ext : list N := %s.' % cstr(output_ext))
    o.append('Definition dflt_voxel_order : list N := %s.' % cstr(voxel_order))
    o.append('(* include_regexes / exclude_regexes: true = a copy of the module default list is extended,')
    o.append('   false = the module list itself (an alias) is extended in place *)')
    o.append('Definition incl_copied : bool := %s.' % _bool(incl_copied))
    o.append('Definition excl_copied : bool := %s.' % _bool(excl_copied))
    o.append('(* default output name: [%(num_key)0<w>d] sep (%(name_key1)s | %(name_key2)s | fallback) *)')
    o.append('Definition name_num_key : list N := %s.' % cstr(nm['num_key']))
    o.append('Definition name_num_zero : bool := %s.' % _bool(nm['num_zero']))
    o.append('Definition name_num_width : nat := %s.' % cnat(nm['num_width']))
    o.append('Definition name_key1 : list N := %s.' % cstr(nm['name_key1']))
    o.append('Definition name_key2 : list N := %s.' % cstr(nm['name_key2']))
    o.append('Definition name_fallback : list N := %s.' % cstr(nm['name_fallback']))
    o.append('Definition name_sep : list N := %s.' % cstr(nm['name_sep']))
    o.append('(* sanitize_path_comp keeps ASCII letters, digits and these characters; others become sanitize_repl *)')
    o.append('Definition sanitize_extra : list N := %s.' % cstr(extra))
    o.append('Definition sanitize_repl : N := %s.' % cN(ord(repl)))
    o.append('(* uniqueness suffix: base ++ sfx_prefix ++ pad(sfx_width, sfx_idx) ++ sfx_tail *)')
    o.append('Definition sfx_prefix : list N := %s.' % cstr(nm['sfx_prefix']))
    o.append('Definition sfx_zero : bool := %s.' % _bool(nm['sfx_zero']))
    o.append('Definition sfx_width : nat := %s.' % cnat(nm['sfx_width']))
    o.append('Definition sfx_tail : list N := %s.' % cstr(nm['sfx_tail']))
    o.append('(* true = the suffix index is increased until the name is unused; false = a single append of out_idx *)')
    o.append('Definition sfx_retry : bool := %s.' % _bool(nm['sfx_retry']))
    o.append('(* true = with --dest-dir the set of generated names is shared by all source directories of the invocation;')
    o.append('   false = it is reset for every source directory *)')
    o.append('Definition names_shared_dest : bool := %s.' % _bool(nm['shared_dest']))
    o.append('(* true = main builds a new extract.MetaExtractor(ignore_rules, translators); false = it re-configures the shared')
    o.append('   extract.default_extractor object in place (hidden state) *)')
    o.append('Definition extractor_fresh : bool := %s.' % _bool(extractor_fresh))
    o.append('(* ignore rules of --extract-private, by function name *)')
    o.append('Definition private_ignore_rule_names : list (list N) := %s.' % clist(cstr(s) for s in priv))
    o.append('(* nitool split: default name  pad(split_width, idx) ++ split_sep ++ basename *)')
    o.append('Definition split_zero : bool := %s.' % _bool(m.group(1) == '0'))
    o.append('Definition split_width : nat := %s.' % cnat(_width(m.group(2))))
    o.append('Definition split_sep : list N := %s.' % cstr(m.group(3)))
    return '\n'.join(o) + '\n'
