"""DcmMetaExtension.check_valid and everything it calls, TRANSLATED into Gallina over DYNAMIC values (translator and
vocabulary: tools/tables/py2coq.py; dynamic primitives and their conventions: coq/Common/PyOps2Dyn.v).

The only input is the raw content dictionary  self._content : dyn  (a JSON value, `jv`).  Translated, in this order:
  the property getters  version, affine, slice_dim, shape, n_slices;  get_valid_classes, get_class_dict, get_multiplicity,
  check_valid  (definitions  <name>_dyn).
External code (parameters):  np.array(x) -> np_shape x : res (list nat)   (an ndarray is represented by its shape; ragged
  nesting is numpy's ValueError);   _req_base_keys_map[v] -> req_base_keys v : res (list str)   (dict lookup with a float / int key).
self.classifications is the parameter self_classifications (instantiated with the generated table T_content.classifications).
coq/Content/SrcEqValid.v proves Content.Model.check_valid equal to check_valid_dyn."""
from astlib import *      # noqa: F401,F403
from py2coq import Fn, translate_all, NAT, INT, STR, DYN, UNIT, NDARRAY, LIST, OPT, SET, CNAME

WHAT = ("dcmmeta.DcmMetaExtension.check_valid, get_multiplicity, get_valid_classes, get_class_dict and the property getters "
        "version, affine, slice_dim, shape, n_slices (function bodies over dynamic values, translated by tools/tables/py2coq.py)")

SRC = 'src/dcmstack/dcmmeta.py'
CLS = 'DcmMetaExtension'
ATTRS = [('_content', DYN), ('classifications', LIST(CNAME))]


def templates():
    return [
        dict(src='np.array(_0)', holes=[DYN], ret=NDARRAY, param='np_shape', monadic=True),
        dict(src='_req_base_keys_map[_0]', holes=[DYN], ret=SET(STR), param='req_base_keys', monadic=True),
    ]


def specs():
    def fn(coq, name, ret, params=(), **kw):
        return Fn(coq, SRC, name, ret, list(params), cls=CLS, self_attrs=ATTRS, templates=templates(), **kw)
    return [
        fn('version_dyn', 'version', DYN, prop=True),
        fn('affine_dyn', 'affine', NDARRAY, prop=True),
        fn('slice_dim_dyn', 'slice_dim', DYN, prop=True),
        fn('shape_dyn', 'shape', LIST(DYN), prop=True),
        fn('n_slices_dyn', 'n_slices', OPT(DYN), prop=True),
        fn('get_valid_classes_dyn', 'get_valid_classes', LIST(CNAME)),
        fn('get_class_dict_dyn', 'get_class_dict', DYN, [('classification', CNAME)]),
        fn('get_multiplicity_dyn', 'get_multiplicity', INT, [('classification', CNAME)]),
        fn('check_valid_dyn', 'check_valid', UNIT),
    ]


def emit(src):
    return translate_all(src, specs(), extra_prelude='From DV Require Import Common.Jv Common.PyOps2Dyn.\n')
