"""Tolerances written as call keywords in the extension / lookup code (parse only).

* NiftiWrapper.meta_valid: np.allclose(slice_dir, slice_normal, atol=<literal>)  -> meta_valid_atol (exact decimal)
* DcmMetaExtension._insert / from_sequence: the slice-normal comparisons must use numpy's defaults
  (no rtol / atol keyword); anything else aborts, because the model hard-wires the defaults there."""
import ast
from astlib import *   # noqa: F401,F403

WHAT = "tolerance keywords of np.allclose in NiftiWrapper.meta_valid, DcmMetaExtension._insert, DcmMetaExtension.from_sequence"
SRC = 'src/dcmstack/dcmmeta.py'


def _first_arg_name(call):
    a = call.args[0] if call.args else None
    return a.id if isinstance(a, ast.Name) else None


def emit(src):
    t = src.tree(SRC)
    mv = calls_in(find_func(t, 'meta_valid', 'NiftiWrapper'), 'allclose')
    if len(mv) != 1:
        raise TableError('meta_valid: expected exactly one allclose call, found %d' % len(mv))
    kws = sorted(k.arg for k in mv[0].keywords)
    if kws != ['atol']:
        raise TableError('meta_valid: expected only the atol keyword, found %r' % (kws,))
    atol = float_lit_exact(call_kw(mv[0], 'atol'))

    ins = calls_in(find_func(t, '_insert', 'DcmMetaExtension'), 'allclose')
    if len(ins) != 1 or ins[0].keywords or len(ins[0].args) != 2:
        raise TableError('_insert: expected one allclose(self_slc_norm, other_slc_norm) call with default tolerances')
    fs = [c for c in calls_in(find_func(t, 'from_sequence', 'DcmMetaExtension'), 'allclose')
          if _first_arg_name(c) == 'result_slc_norm']
    if len(fs) != 1 or fs[0].keywords or len(fs[0].args) != 2:
        raise TableError('from_sequence: expected one allclose(result_slc_norm, first_slc_norm) call with default tolerances')
    return 'Definition meta_valid_atol : Q := %s.\n' % cq(atol)
