"""Tables of the DicomStack sorter: guess keys, grouping keys, pixel attributes and the two
tolerances that are written as call keywords in dcmstack.py (exact rationals of the decimal text)."""
import ast
from astlib import *

WHAT = ("dcmstack.DicomStack.sort_guesses, default_group_keys, default_close_keys, _pix_attrs, "
        "rtol of np.allclose in DicomStack.get_shape, atol of np.allclose in DicomStack._chk_close")

SRC = 'src/dcmstack/dcmstack.py'


def _strs(v, what):
    if not isinstance(v, (list, tuple)) or not v or not all(isinstance(s, str) and s for s in v):
        raise TableError('%s is not a non-empty sequence of strings: %r' % (what, v))
    if len(set(v)) != len(v):
        raise TableError('%s has duplicates: %r' % (what, v))
    return list(v)


def _the_allclose(tree, func, kw, argnames):
    """The unique allclose(...) call inside DicomStack.<func>: positional args are the plain names
    `argnames`, and `kw` is the ONLY keyword.  Anything else -> TableError (fail closed)."""
    fn = find_func(tree, func, 'DicomStack')
    calls = calls_in(fn, 'allclose')
    if len(calls) != 1:
        raise TableError('DicomStack.%s: expected exactly one allclose call, found %d' % (func, len(calls)))
    c = calls[0]
    kws = [k.arg for k in c.keywords]
    if kws != [kw]:
        raise TableError('DicomStack.%s: allclose keywords are %r, expected [%r]' % (func, kws, kw))
    if len(c.args) != len(argnames):
        raise TableError('DicomStack.%s: allclose has %d positional args, expected %d' % (func, len(c.args), len(argnames)))
    for a, want in zip(c.args, argnames):
        got = ast.unparse(a)
        if got != want:
            raise TableError('DicomStack.%s: allclose argument %r, expected %r' % (func, got, want))
    q = float_lit_exact(call_kw(c, kw))
    if not (0 < q < 1):
        raise TableError('DicomStack.%s: %s=%s outside (0,1)' % (func, kw, q))
    return q


def emit(src):
    t = src.tree(SRC)
    guesses = _strs(lit(class_assign(t, 'DicomStack', 'sort_guesses')), 'sort_guesses')
    if not isinstance(class_assign(t, 'DicomStack', 'sort_guesses'), ast.List):
        raise TableError('sort_guesses is not a list display')
    group = _strs(lit(module_assign(t, 'default_group_keys')), 'default_group_keys')
    close = _strs(lit(module_assign(t, 'default_close_keys')), 'default_close_keys')
    pix = _strs(lit(module_assign(t, '_pix_attrs')), '_pix_attrs')
    rtol = _the_allclose(t, 'get_shape', 'rtol', ['avg_spacing', 'spacings'])
    atol = _the_allclose(t, '_chk_close', 'atol', ['meta1[key]', 'meta2[key]'])
    out = []
    out.append('(* DicomStack.sort_guesses, in priority order *)')
    out.append('Definition sort_guesses : list (list N) :=\n  %s.' % clist(cstr(s) for s in guesses))
    out.append('Definition default_group_keys : list (list N) :=\n  %s.' % clist(cstr(s) for s in group))
    out.append('Definition default_close_keys : list (list N) :=\n  %s.' % clist(cstr(s) for s in close))
    out.append('Definition pix_attrs : list (list N) :=\n  %s.' % clist(cstr(s) for s in pix))
    out.append('(* np.allclose(avg_spacing, spacings, rtol=...) in DicomStack.get_shape *)')
    out.append('Definition spacing_rtol : Q := %s.' % cq(rtol))
    out.append('(* np.allclose(meta1[key], meta2[key], atol=...) in DicomStack._chk_close *)')
    out.append('Definition congruent_atol : Q := %s.' % cq(atol))
    return '\n'.join(out) + '\n'
