"""Function bodies of the small pure functions the extension algebra rests on, TRANSLATED statement by statement
into typed Gallina (translator and vocabulary: tools/tables/py2coq.py; meaning of the primitives:
coq/Common/PyOps2.v).  coq/Ext/SrcEq.v PROVES the hand-written models (Ext/Seq.v, Ext/Model.v) equal to these
definitions for all inputs, so an edit of any of these functions inside the vocabulary re-checks (or breaks) the
equality proofs, and an edit outside it aborts the translation.

Declared signatures (Python ints that are sizes / periods are `nat`: domain non-negative):
  is_constant(sequence : list V, period : option nat = None) -> bool          (V with an equality parameter veqb)
  is_repeating(sequence : list V, period : nat) -> bool
  DcmMetaExtension.n_slices            (property)  reads self.slice_dim : option nat, self.shape : list nat
  DcmMetaExtension.get_valid_classes() reads self.shape, self.classifications : list (str * str)
  DcmMetaExtension.get_multiplicity(classification : str * str) -> nat      reads self.shape, self.n_slices : option nat
  DcmMetaExtension._get_const_period(src_cls, dest_cls : str * str) -> option nat
`self.n_slices` is read as a parameter by get_multiplicity / _get_const_period (its own translation n_slices_src
is related to Model.n_slices separately)."""
from astlib import *      # noqa: F401,F403
from py2coq import Fn, translate_all, NAT, BOOL, STR, DYN, LIST, OPT, PAIR, DICT, CNAME

WHAT = ("dcmmeta.is_constant, is_repeating, DcmMetaExtension.n_slices, get_valid_classes, get_multiplicity, "
        "_get_const_period (function bodies, translated statement by statement by tools/tables/py2coq.py)")

SRC = 'src/dcmstack/dcmmeta.py'
CLS = 'DcmMetaExtension'
ATTRS = [('classifications', LIST(CNAME)), ('shape', LIST(NAT)), ('slice_dim', OPT(NAT)), ('n_slices', OPT(NAT)),
         ('_preserving_changes', DICT(OPT(CNAME), LIST(CNAME)))]


def templates():
    # the per-key readers see the stored values through these two methods (parameters; values are dynamic JSON values)
    return [
        dict(src='self.get_values_and_class(_0)', holes=[STR], ret=PAIR(DYN, OPT(CNAME)), param='values_and_class'),
        dict(src='self.get_class_dict(_0)', holes=[CNAME], ret=DICT(STR, DYN), param='class_dict'),
    ]

def specs():
    return [
        Fn('is_constant_src', SRC, 'is_constant', BOOL, [('sequence', LIST('V')), ('period', OPT(NAT))],
           tparams=('V',), eqs={'V': 'veqb'}),
        Fn('is_repeating_src', SRC, 'is_repeating', BOOL, [('sequence', LIST('V')), ('period', NAT)],
           tparams=('V',), eqs={'V': 'veqb'}),
        Fn('n_slices_src', SRC, 'n_slices', OPT(NAT), [], cls=CLS, self_attrs=ATTRS),
        Fn('get_valid_classes_src', SRC, 'get_valid_classes', LIST(CNAME), [], cls=CLS, self_attrs=ATTRS),
        Fn('get_multiplicity_src', SRC, 'get_multiplicity', NAT, [('classification', CNAME)], cls=CLS, self_attrs=ATTRS),
        Fn('get_const_period_src', SRC, '_get_const_period', OPT(NAT), [('src_cls', CNAME), ('dest_cls', CNAME)],
           cls=CLS, self_attrs=ATTRS),
        Fn('global_slice_subset_src', SRC, '_global_slice_subset', DYN, [('key', STR), ('sample_base', STR), ('idx', NAT)],
           cls=CLS, self_attrs=ATTRS, templates=templates()),
        Fn('get_changed_class_src', SRC, '_get_changed_class', DYN, [('key', STR), ('new_class', CNAME), ('slice_dim', OPT(NAT))],
           cls=CLS, self_attrs=ATTRS, templates=templates()),
    ]


def emit(src):
    return translate_all(src, specs(), extra_prelude='From DV Require Import Common.Jv Common.PyOps2Dyn.\n')
