"""Tables consumed by coq/Group/Model.v (property C18)."""
import ast
from astlib import *  # noqa: F401,F403

WHAT = ("dcmstack.default_group_keys, default_close_keys, _pix_attrs; the `atol=` keyword of the np.allclose call in "
        "parse_and_group; the defaults of parse_and_group's group_by / close_tests / warn_on_except parameters")

REL = 'src/dcmstack/dcmstack.py'


def _str_tuple(tree, name):
    v = lit(module_assign(tree, name))
    if not isinstance(v, tuple) or not all(isinstance(x, str) for x in v):
        raise TableError('%s is not a tuple of strings: %r' % (name, v))
    if len(set(v)) != len(v):
        raise TableError('%s has duplicates: %r' % (name, v))
    return v


def _defaults(fn):
    """name -> default expression node, for the positional parameters of a FunctionDef."""
    a = fn.args
    if a.vararg is not None or a.kwonlyargs or a.posonlyargs:
        raise TableError('%s: unexpected parameter kinds' % fn.name)
    names = [x.arg for x in a.args]
    out = {}
    for n, d in zip(names[len(names) - len(a.defaults):], a.defaults):
        out[n] = d
    return names, out


def _expect_name(node, want, what):
    if not (isinstance(node, ast.Name) and node.id == want):
        raise TableError('%s is not `%s` any more (line %s)' % (what, want, getattr(node, 'lineno', '?')))


def _expect_const(node, want, what):
    if not (isinstance(node, ast.Constant) and node.value is want):
        raise TableError('%s is not %r any more (line %s)' % (what, want, getattr(node, 'lineno', '?')))


def emit(src):
    t = src.tree(REL)
    gk = _str_tuple(t, 'default_group_keys')
    ck = _str_tuple(t, 'default_close_keys')
    px = _str_tuple(t, '_pix_attrs')
    if not set(ck) <= set(gk):
        raise TableError('default_close_keys %r is not a subset of default_group_keys %r' % (ck, gk))

    # parse_and_group: parameter list and defaults
    pg = find_func(t, 'parse_and_group')
    names, dfl = _defaults(pg)
    if names != ['src_paths', 'group_by', 'extractor', 'force', 'warn_on_except', 'close_tests']:
        raise TableError('parse_and_group parameters changed: %r' % (names,))
    _expect_name(dfl.get('group_by'), 'default_group_keys', 'default of parse_and_group(group_by)')
    _expect_name(dfl.get('close_tests'), 'default_close_keys', 'default of parse_and_group(close_tests)')
    _expect_const(dfl.get('warn_on_except'), False, 'default of parse_and_group(warn_on_except)')
    _expect_const(dfl.get('force'), False, 'default of parse_and_group(force)')
    _expect_const(dfl.get('extractor'), None, 'default of parse_and_group(extractor)')

    # the closeness test: exactly one np.allclose call, two positional arguments, keyword atol only
    calls = calls_in(pg, 'allclose')
    if len(calls) != 1:
        raise TableError('parse_and_group: expected exactly one allclose call, found %d' % len(calls))
    c = calls[0]
    f = c.func
    if not (isinstance(f, ast.Attribute) and isinstance(f.value, ast.Name) and f.value.id == 'np'):
        raise TableError('parse_and_group: the allclose call at line %d is not np.allclose' % c.lineno)
    if len(c.args) != 2:
        raise TableError('parse_and_group: np.allclose at line %d does not take two positional arguments' % c.lineno)
    kws = sorted(k.arg or '**' for k in c.keywords)
    if kws != ['atol']:
        raise TableError('parse_and_group: np.allclose at line %d: expected exactly the keyword atol, found %r (rtol is numpy\'s default 1e-5 in the model)' % (c.lineno, kws))
    atol = float_lit_exact(call_kw(c, 'atol'))
    if atol < 0:
        raise TableError('negative atol')

    # stack_group / parse_and_stack keep their parameter lists (the model takes warn_on_except from them)
    sg = find_func(t, 'stack_group')
    sn, sd = _defaults(sg)
    if sn != ['group', 'warn_on_except'] or sg.args.kwarg is None:
        raise TableError('stack_group parameters changed: %r' % (sn,))
    _expect_const(sd.get('warn_on_except'), False, 'default of stack_group(warn_on_except)')
    ps = find_func(t, 'parse_and_stack')
    pn, pd = _defaults(ps)
    if pn != ['src_paths', 'group_by', 'extractor', 'force', 'warn_on_except'] or ps.args.kwarg is None:
        raise TableError('parse_and_stack parameters changed: %r' % (pn,))
    _expect_name(pd.get('group_by'), 'default_group_keys', 'default of parse_and_stack(group_by)')
    _expect_const(pd.get('warn_on_except'), False, 'default of parse_and_stack(warn_on_except)')

    out = []
    out.append('Definition default_group_keys : list (list N) := %s.' % clist(cstr(s) for s in gk))
    out.append('Definition default_close_keys : list (list N) := %s.' % clist(cstr(s) for s in ck))
    out.append('Definition pix_attrs : list (list N) := %s.' % clist(cstr(s) for s in px))
    out.append('(* atol of the np.allclose call in parse_and_group, exact value of the decimal literal *)')
    out.append('Definition group_atol : Q := %s.' % cq(atol))
    return '\n'.join(out) + '\n'
