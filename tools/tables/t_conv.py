"""Constants of the conversion path (get_data / to_nifti / from_dicom_wrapper) that are written as literals in
the sources: default voxel order, xyzt units, the unsigned->signed dtype hack, the LPS->RAS diagonal, the
phase-direction string, and the fact that the slice-time comparisons use np.allclose's default tolerances."""
import ast, re
from fractions import Fraction
from astlib import *

WHAT = ("dcmstack.DicomStack.to_nifti (default voxel_order, set_xyzt_units arguments, 'ROW', allclose without tolerance keywords), "
        "DicomStack.get_data (result_type over all files, max BitsStored over all files, dtype hack: uint16 and BitsStored < n -> int16, default of BitsStored), "
        "dcmmeta.NiftiWrapper.from_dicom_wrapper (np.diag([-1., -1., 1., 1.]))")

STACK = 'src/dcmstack/dcmstack.py'
META = 'src/dcmstack/dcmmeta.py'


def _one(calls, what):
    if len(calls) != 1:
        raise TableError('%s: expected exactly one call, found %d' % (what, len(calls)))
    return calls[0]


def _str_const(node, what):
    if not (isinstance(node, ast.Constant) and isinstance(node.value, str)):
        raise TableError('%s is not a string literal' % what)
    return node.value


def emit(src):
    t = src.tree(STACK)
    fn = find_func(t, 'to_nifti', 'DicomStack')
    # default voxel order
    names = [a.arg for a in fn.args.args]
    if names != ['self', 'voxel_order', 'embed_meta'] or len(fn.args.defaults) != 2:
        raise TableError('to_nifti signature changed: %r' % names)
    default_vo = _str_const(fn.args.defaults[0], 'default voxel_order')
    if lit(fn.args.defaults[1]) is not False:
        raise TableError('default embed_meta is not False')
    # units
    c = _one(calls_in(fn, 'set_xyzt_units'), 'to_nifti set_xyzt_units')
    if len(c.args) != 2 or c.keywords:
        raise TableError('set_xyzt_units is not called with two positional arguments')
    units = (_str_const(c.args[0], 'space unit'), _str_const(c.args[1], 'time unit'))
    # 'ROW'
    rows = [n for n in ast.walk(fn) if isinstance(n, ast.Compare) and ast.unparse(n.left) == 'phase_dir']
    if len(rows) != 1 or len(rows[0].ops) != 1 or not isinstance(rows[0].ops[0], ast.Eq):
        raise TableError('to_nifti: expected exactly one comparison phase_dir == <str>')
    phase_row = _str_const(rows[0].comparators[0], 'phase direction literal')
    # allclose calls use numpy's defaults
    ac = calls_in(fn, 'allclose')
    if any(x.keywords for x in ac):
        raise TableError('to_nifti: an allclose call has tolerance keywords')
    got = sorted(', '.join(ast.unparse(a) for a in x.args) for x in ac)
    if got != ['slice_times, 0.0', 'slice_times, vol_slc_times']:
        raise TableError('to_nifti: allclose calls changed: %r' % got)
    # dtype hack
    gd = find_func(t, 'get_data', 'DicomStack')
    ifs = [n for n in ast.walk(gd) if isinstance(n, ast.If) and 'bits_stored' in ast.unparse(n.test)]
    if len(ifs) != 1:
        raise TableError('get_data: expected exactly one test on bits_stored')
    test = ifs[0].test
    if not (isinstance(test, ast.BoolOp) and isinstance(test.op, ast.And) and len(test.values) == 2):
        raise TableError('get_data: dtype test is not a two-operand conjunction')
    a, b = test.values
    if not (isinstance(a, ast.Compare) and ast.unparse(a.left) == 'stack_dtype' and len(a.ops) == 1 and isinstance(a.ops[0], ast.Eq)
            and ast.unparse(a.comparators[0]).startswith('np.')):
        raise TableError('get_data: first operand is not stack_dtype == np.<type>')
    hack_from = ast.unparse(a.comparators[0])[3:]
    if not (isinstance(b, ast.Compare) and ast.unparse(b.left) == 'bits_stored' and len(b.ops) == 1 and isinstance(b.ops[0], ast.Lt)):
        raise TableError('get_data: second operand is not bits_stored < <n>')
    thr = lit(b.comparators[0])
    if not isinstance(thr, int) or isinstance(thr, bool) or not (0 < thr <= 64):
        raise TableError('get_data: threshold %r' % (thr,))
    if len(ifs[0].body) != 1 or ifs[0].orelse or not ast.unparse(ifs[0].body[0]).startswith('stack_dtype = np.'):
        raise TableError('get_data: body of the dtype test is not stack_dtype = np.<type>')
    hack_to = ast.unparse(ifs[0].body[0])[len('stack_dtype = np.'):]
    # fix 63f686b: the dtype is numpy's result_type over the set of the dtypes of all files, BitsStored the maximum over all files
    rt = _one(calls_in(gd, 'result_type'), 'get_data np.result_type')
    if len(rt.args) != 1 or not isinstance(rt.args[0], ast.Starred) or rt.keywords or ast.unparse(rt.args[0].value) != 'file_dtypes':
        raise TableError('get_data: result_type is not called as result_type(*file_dtypes)')
    fd = [n for n in ast.walk(gd) if isinstance(n, ast.Assign) and ast.unparse(n.targets[0]) == 'file_dtypes']
    if len(fd) != 1 or not (isinstance(fd[0].value, ast.Call) and ast.unparse(fd[0].value.func) == 'set' and len(fd[0].value.args) == 1
                             and isinstance(fd[0].value.args[0], ast.GeneratorExp)
                             and re.fullmatch(r'self\.\w+', ast.unparse(fd[0].value.args[0].generators[0].iter))):
        raise TableError('get_data: file_dtypes is not a set over the stack\'s file list')
    files_attr = ast.unparse(fd[0].value.args[0].generators[0].iter)      # the (private) name of the file list does not matter
    bs = [n for n in ast.walk(gd) if isinstance(n, ast.Assign) and ast.unparse(n.targets[0]) == 'bits_stored']
    if len(bs) != 1 or not (isinstance(bs[0].value, ast.Call) and ast.unparse(bs[0].value.func) == 'max' and len(bs[0].value.args) == 1
                             and isinstance(bs[0].value.args[0], ast.GeneratorExp)
                             and ast.unparse(bs[0].value.args[0].generators[0].iter) == files_attr):
        raise TableError('get_data: bits_stored is not a max over the same file list')
    gm = [c for c in calls_in(gd, 'get_meta') if c.args and isinstance(c.args[0], ast.Constant) and c.args[0].value == 'BitsStored']
    c = _one(gm, "get_data get_meta('BitsStored')")
    dflt = lit(call_kw(c, 'default'))
    if not isinstance(dflt, int) or isinstance(dflt, bool) or not (0 < dflt <= 64):
        raise TableError('get_data: BitsStored default %r' % (dflt,))
    # LPS -> RAS
    m = src.tree(META)
    fw = find_func(m, 'from_dicom_wrapper', 'NiftiWrapper')
    d = _one(calls_in(fw, 'diag'), 'from_dicom_wrapper np.diag')
    if len(d.args) != 1 or d.keywords:
        raise TableError('np.diag call shape changed')
    diag = lit(d.args[0])
    if not isinstance(diag, list) or len(diag) != 4 or not all(isinstance(x, (int, float)) and not isinstance(x, bool) for x in diag):
        raise TableError('np.diag argument is not a list of four numbers: %r' % (diag,))
    out = []
    out.append('(* def to_nifti(self, voxel_order=..., embed_meta=False) *)')
    out.append('Definition default_voxel_order : list N := %s.' % cstr(default_vo))
    out.append('(* nifti_header.set_xyzt_units(., .) *)')
    out.append('Definition xyzt_units : list N * list N := %s.' % cpair(cstr(units[0]), cstr(units[1])))
    out.append("(* if phase_dir == '...' *)")
    out.append('Definition phase_row : list N := %s.' % cstr(phase_row))
    out.append('(* if stack_dtype == np.<from> and bits_stored < <n>: stack_dtype = np.<to> ;  get_meta(\'BitsStored\', default=<d>) *)')
    out.append('Definition hack_from : list N := %s.' % cstr(hack_from))
    out.append('Definition hack_to : list N := %s.' % cstr(hack_to))
    out.append('Definition hack_bits : nat := %s.' % cnat(thr))
    out.append('Definition bits_stored_default : nat := %s.' % cnat(dflt))
    out.append('(* np.diag([...]) in from_dicom_wrapper *)')
    out.append('Definition lps2ras_diag : list Q := %s.' % clist(cq(Fraction(x)) for x in diag))
    return '\n'.join(out) + '\n'
