"""The inner function of dcmstack.make_key_regex_filter, TRANSLATED into typed Gallina (translator and vocabulary:
tools/tables/py2coq.py; primitives: coq/Common/PyOps2.v).  The two variables it closes over become parameters:
  exclude_re : regex          (a compiled pattern = its search predicate  str -> bool)
  include_re : option regex   (None when force_include_res is falsy)
  key_regex_filter(key : str, value : V) -> truth       (callers only test the result: `if self._meta_filter(key, value)`)
coq/Filter/SrcEq.v proves Filter.Model.key_regex_filter equal to this definition.  The outer function (re.compile of
the '|'-join of the patterns, `if force_include_res:`) is outside the vocabulary and stays in the hand model; this
module only checks that its shape is still `exclude_re = <expr>; include_re = None; if force_include_res:
include_re = <expr>; def key_regex_filter..; return key_regex_filter`."""
import ast
from astlib import *      # noqa: F401,F403
from py2coq import Fn, translate_all, STR, OPT, REGEX, TRUTH

WHAT = "dcmstack.make_key_regex_filter.key_regex_filter (inner function body, translated by tools/tables/py2coq.py)"

SRC = 'src/dcmstack/dcmstack.py'


def _check_outer(fn):
    body = [s for s in fn.body if not (isinstance(s, ast.Expr) and isinstance(s.value, ast.Constant))]
    ok = (len(body) == 5
          and isinstance(body[0], ast.Assign) and [getattr(t, 'id', None) for t in body[0].targets] == ['exclude_re']
          and isinstance(body[1], ast.Assign) and [getattr(t, 'id', None) for t in body[1].targets] == ['include_re']
          and isinstance(body[1].value, ast.Constant) and body[1].value.value is None
          and isinstance(body[2], ast.If) and isinstance(body[2].test, ast.Name) and body[2].test.id == 'force_include_res'
          and not body[2].orelse and len(body[2].body) == 1 and isinstance(body[2].body[0], ast.Assign)
          and [getattr(t, 'id', None) for t in body[2].body[0].targets] == ['include_re']
          and isinstance(body[3], ast.FunctionDef) and body[3].name == 'key_regex_filter'
          and isinstance(body[4], ast.Return) and isinstance(body[4].value, ast.Name) and body[4].value.id == 'key_regex_filter')
    if not ok:
        raise TableError('make_key_regex_filter: the outer function no longer has the expected shape')
    for v, arg in ((body[0].value, 'exclude_res'), (body[2].body[0].value, 'force_include_res')):
        # re.compile('|'.join(['(?:' + regex + ')' for regex in <arg>]))
        want = "re.compile('|'.join(['(?:' + regex + ')' for regex in %s]))" % arg
        if ast.dump(v) != ast.dump(ast.parse(want, mode='eval').body):
            raise TableError('make_key_regex_filter: the pattern for %s is no longer %s' % (arg, want))


def emit(src):
    t = src.tree(SRC)
    _check_outer(find_func(t, 'make_key_regex_filter'))
    spec = Fn('key_regex_filter_src', SRC, 'make_key_regex_filter', TRUTH, [('key', STR), ('value', 'V')],
              inner='key_regex_filter', closure=[('exclude_re', REGEX), ('include_re', OPT(REGEX))], tparams=('V',))
    return translate_all(src, [spec])
