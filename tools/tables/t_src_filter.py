"""dcmstack.make_key_regex_filter and its inner function, TRANSLATED into typed Gallina (translator and vocabulary:
tools/tables/py2coq.py; primitives: coq/Common/PyOps2.v).

  key_regex_filter_src        the inner function; the two variables it closes over become parameters:
        exclude_re : regex   (a compiled pattern = its search predicate  str -> bool)     include_re : option regex
        key_regex_filter(key : str, value : V) -> truth   (callers only test the result: `if self._meta_filter(key, value)`)
  make_key_regex_filter_src   the outer function applied to the arguments of the closure it returns:
        make_key_regex_filter(exclude_res : list str, force_include_res : option (list str) = None)(key, value)
        `re.compile` is external code: the parameter  re_compile : str -> regex.
coq/Filter/SrcEq.v proves Filter.Model.key_regex_filter equal to both (for the outer one under the hypothesis the hand
model documents: the compiled '(?:p1)|(?:p2)|...' alternation matches iff one of the parts does, '' matches everything)."""
from astlib import *      # noqa: F401,F403
from py2coq import Fn, translate_all, STR, LIST, OPT, REGEX, TRUTH

WHAT = ("dcmstack.make_key_regex_filter and its inner function key_regex_filter (function bodies, translated by "
        "tools/tables/py2coq.py)")

SRC = 'src/dcmstack/dcmstack.py'


def emit(src):
    inner = Fn('key_regex_filter_src', SRC, 'make_key_regex_filter', TRUTH, [('key', STR), ('value', 'V')],
               inner='key_regex_filter', closure=[('exclude_re', REGEX), ('include_re', OPT(REGEX))], tparams=('V',))
    outer = Fn('make_key_regex_filter_src', SRC, 'make_key_regex_filter', TRUTH,
               [('exclude_res', LIST(STR)), ('force_include_res', OPT(LIST(STR)))], tparams=('V',),
               externals={'re.compile': ('re_compile', [STR], REGEX)}, returns_inner='key_regex_filter')
    return translate_all(src, [inner, outer])
