from astlib import *
WHAT = "dcmstack.default_key_excl_res, dcmstack.default_key_incl_res (module level lists of regex strings)"


def emit(src):
    t = src.tree('src/dcmstack/dcmstack.py')
    excl = lit(module_assign(t, 'default_key_excl_res'))
    incl = lit(module_assign(t, 'default_key_incl_res'))
    for name, l in (('default_key_excl_res', excl), ('default_key_incl_res', incl)):
        if not isinstance(l, list) or not all(isinstance(x, str) for x in l):
            raise TableError('%s is not a list of string literals' % name)
    # the default filter must be built from exactly these two lists
    dmf = module_assign(t, 'default_meta_filter')
    import ast
    ok = (isinstance(dmf, ast.Call) and getattr(dmf.func, 'id', None) == 'make_key_regex_filter'
          and [getattr(a, 'id', None) for a in dmf.args] == ['default_key_excl_res', 'default_key_incl_res'] and not dmf.keywords)
    if not ok:
        raise TableError('default_meta_filter is not make_key_regex_filter(default_key_excl_res, default_key_incl_res)')
    out = 'Definition default_key_excl_res : list (list N) := %s.\n' % clist(cstr(x) for x in excl)
    out += 'Definition default_key_incl_res : list (list N) := %s.\n' % clist(cstr(x) for x in incl)
    return out
