"""Fail-closed statement translator  Python function body -> typed Gallina  (shared by tools/tables/t_src_*.py).

The translation is TYPED: every Python variable gets one of the types below from the function's declared signature (class Fn)
and from the expressions assigned to it; an expression whose type the translator cannot determine, or any construct outside
the vocabulary, aborts with TableError (the check then reports a translator abort).  The meaning of every emitted primitive is
defined in coq/Common/PyOps2.v (typed values) and coq/Common/PyOps2Dyn.v (values of type `dyn`).

TYPES     nat     a Python int that is a size / period / list position: DOMAIN non-negative (a difference that would be negative is
                  `Err ECrash`)                      int   a Python int of either sign (Z), e.g. a voxel index
          bool    True / False      str  a str (code points)      Q  a number taken exactly      V  (any name in Fn.tparams) a value
          list T  a list OR tuple   set T   option T (may be None)   A * B  a 2-tuple   dict K T  (association list)
          regex   a compiled pattern = its search predicate  str -> bool          opaque / unit / msg   values never inspected
          ndarray an array = its shape (list nat)
          dyn     a runtime value of unknown type read from JSON content (Coq `jv`); operations on it are DYNAMIC (dyn_* primitives,
                  conventions in PyOps2Dyn.v: numbers are ints and bools, a float in a numeric position is outside the domain)
          truth   only the truthiness of a value is known (result of and/or over non-bools, of <regex>.search(s));
                  it can be tested, negated or returned from a function declared to return `truth`, never stored.

FUNCTIONS positional parameters only (names and order must match the declaration in Fn; a default must be None on an option- or
          value-typed parameter).  `self`: attribute reads `self.<a>` (Fn.self_attrs) become explicit parameters `self_<a>`;
          `self.<m>(args)` / `self.<property>` call the translation of that method / property getter (translated before) with the
          parameters it needs.  EXTERNAL READS (Fn.templates): an expression that matches a declared source pattern with holes
          (`self.nii_img.affine[_0, :3]`, `_0.get_dim_info()[2]`, `np.allclose(_0, _1, atol=<literal>)`, `np.array(_0)`, ...) becomes a
          parameter applied to its holes (monadic when it can raise) or a fixed Coq term.  External functions called by dotted name
          (Fn.externals, e.g. re.compile).  An inner function is translated with the variables it closes over as parameters
          (Fn.closure); a function ending with `def inner..; return inner` (Fn.returns_inner) is translated APPLIED to the parameters of
          the closure.  `values[i]` on a value of type V is the parameter Fn.vops[V]['index'].  The result type is `res <declared type>`
          (a function may fall off its end only if that is None-able: truth / option / unit).

STATEMENTS  x = e | x = None (x IS None until assigned again) | a, b = e (e a 2-tuple)
          x += e, x -= e, x *= e, x //= e, x %= e   (x an int or dyn)
          if/elif/else    tests `x is None` / `x is not None` / `not x is None` / `x` on an option-typed variable become a `match` and
                          the variable has the inner type where it is not None (also as first operand of `.. is None or ..` /
                          `.. is not None and ..`).  What follows the `if` is translated once per branch that falls through, with the
                          variable types of that branch — except when both branches fall through into a long continuation (a loop or
                          more than 3 statements): then the `if` becomes a region with an explicit outcome and the continuation
                          is emitted once.
          for x in <list expr | range(..) | enumerate(..) | iteritems(..)>: <block>   (x a name or a pair of names) -> py_for; the
                          loop-carried state is the tuple of variables assigned in the body that exist before the loop; variables
                          first assigned in the body are local to one iteration; `return` inside the body leaves the function;
                          `continue` ends the iteration; no break, no for/else
          return e | return      raise <ValueError|IndexError|KeyError|TypeError|InvalidExtensionError>(<str or message expression>)
          assert False   -> Err ECrash         pass, docstrings -> nothing
EXPRESSIONS names | int >= 0, str, None, True, False literals | 2-tuples | self.<attr> | '<literal>' % e | '<literal>' % (e1, .., en)
                          (a message; a wrong number of arguments / `%d` of a non-number is the TypeError Python raises; a 2-tuple VALUE
                          counts as two arguments)
          ==  !=  (by type: Nat.eqb, Z.eqb, str_eqb, veqb, jv_eqb, py_list_eqb, py_pair_eqb, py_option_eqb; dyn == int -> dyn_eq_int;
                   a list compared with a tuple display element-wise)      <  <=  >  >=  and chains of two (nat, int, dyn -> dyn_int)
          in / not in (right operand a list or dyn)   is None / is not None (option or dyn)   set <= set   set & set
          and / or / not  (short-circuit: operands that can raise are evaluated only when Python evaluates them; on the right of
                           `x and ...` an option-typed variable x has its inner type)
          +  (nat, int, list, str)   *  (nat, int; with a dyn operand dyn_mul)   -  //  %  (nat: monadic, ECrash on a negative result / zero
          divisor; int: + - * only)
          len(e)   int(e) (e a nat)   min / max   range(b) | range(a, b)   enumerate(e)   tuple(e) / set(e) (e a list, set or dyn)   iteritems(e)
          e[i]  (list: i a literal int, possibly negative, a nat / int expression, an option nat (None -> TypeError) or dyn; pair: 0 / 1;
                 dict: key; dyn: str key; V: Fn.vops)         e[a:b]  (no step)
          all(<cond> for v in <list expr>)   [<expr that cannot raise> for v in <list expr>]   '<literal>'.join(<list of str>)
          <regex>.search(<str>)   <ndarray>.shape
STATE     (Fn(state='_content', mutates=True)) the attribute self._content is the Coq variable st__, threaded through every statement;
          a state-changing function returns `res (result * state)`.  Stores only through class dictionaries:
          `<inst>.get_class_dict(C)[k] = v` / `del ...[k]` / `x = <inst>.get_class_dict(C); x[k] = v` -> dyn_set2 / dyn_del2 on the state
          of that instance (get_class_dict is checked to be `base, sub = classification; return self._content[base][sub]`); calls of
          state-changing methods rebind the state (statement level only).  OTHER INSTANCES of the class: a parameter of type `object`
          (its header attributes <p>__<attr> and its state <p>__st are parameters, read-only) and a local instance created by the declared
          constructor call (Fn.new_object; its content comes from a parameter, its state may be changed, `return x` returns its content).
          Functions translated in another generated module are called through Fn.imports.
MORE      for .. else / break (py_for_b);  variables bound inside a loop and read after it are carried as options (UnboundLocalError =
          ECrash);  loop-carried variables may go from None to a value (option);  `while` with a declared bound (Fn.while_fuel);
          `assert <cond>`;  `l[i] = v`, `l += e`, `l.extend(e)`, `list(e)`, `[e1, ..]`, `[]` on lists built in the function;
          `deepcopy(e)` = e;  `l * n`;  v[i], v[a:b], v[a:b:s], len, iteration, `.keys()`, iteritems on dynamic values;  arithmetic with a
          None-able operand (TypeError);  `x == e` narrows an option-typed x in its branch;  tuple displays as loop sequences.
STAGE D   (the insertion / merge methods)
          token   numeric data outside the translation that is only ever compared with np.allclose (a slice normal): a nat, equal exactly
                  when allclose holds; `np.allclose(a, b)` on two tokens is Nat.eqb.  Numeric bookkeeping declared opaque
                  (Fn.opaque_vars + opaque attributes: affine / reorient_transform in from_sequence) is SKIPPED, after a syntactic check
                  that the statement stores only into such variables / attributes and calls nothing but np.allclose.
          lists of the state reached through a name (Fn.alias_vars): `x, c = self.get_values_and_class(k)`, `x = self.get_values(k)`
                  (both checked on the source to return the stored object: Fn.returns_stored), `x = self.get_class_dict(C)[k]`; then
                  `x.extend(e)` / `self.get_values(k).extend(e)` -> dyn_extend + the list is stored back under its key.  Fail-closed: the
                  name reaches the list only until the next change of the state on the path; other names that may reach the same list
                  cannot be read after the extension.
          `<inst>._content[a][b] = v` (a whole class dictionary: dyn_setc2);  a dictionary built in the function (Fn.local_dicts:
                  `x = {}`, `x[k] = v`, `x[k]`);  instance parameters whose content the function changes and restores
                  (Fn.mutable_objs);  `set(a) - set(b)` (py_diff; the iteration order of a set is NOT modelled: first-insertion order);
                  a LIST OF INSTANCES as parameter (`seq[0]`, `for x in seq[1:]`: an instance is the tuple of its header attributes
                  and its content);  class methods (Fn.classmethod: `klass` is read as `self`);  `<local instance>.<attr> = v` through
                  the property setter, whose check is declared (new_object['setters']) and VERIFIED on the source, with the derived
                  attributes recomputed;  `l.append(e)`, `l[i] op= e`, element stores carried by loops;  `x is not None and ..`
                  narrows x in the rest of the expression;  `x in L` narrows an option-typed x;  `None in <list>` is False;
                  `<option pair>[i]` (None[i]: TypeError);  `{}` as a value;  a dynamic value where the callee takes a str (dyn_as_str).
Everything that can raise becomes a monadic bind, emitted in Python's evaluation order."""
import ast, re
from astlib import TableError, find_func, cstr, cnat, cq, float_lit_exact

NAT, BOOL, TRUTH, STR, REGEX, NONE = 'nat', 'bool', 'truth', 'str', 'regex', 'none'
INT, QNUM, OPAQUE, FLOATLIT = 'int', 'Q', 'opaque', 'floatlit'
DYN, UNIT, MSG, NDARRAY = 'dyn', 'unit', 'msg', 'ndarray'
TOKEN = 'token'    # numeric data outside the translation, known only up to np.allclose: a nat, equal exactly when allclose holds
ANY = '?'          # element type of an empty list display, fixed by its first use
RAW = '__raw__'    # a complete return payload coming out of a loop / region (already coerced, state included)
ST = 'st__'        # the Coq variable holding the current state (the mutated content dictionary)
OBJ = 'object'     # a parameter / local variable that is another instance of the same class (its own header attributes + state)


def LIST(t):
    return ('list', t)


def OPT(t):
    return ('option', t)


def PAIR(a, b):
    return ('pair', a, b)


def DICT(k, t):
    return ('dict', k, t)


def SET(t):
    return ('set', t)


CNAME = PAIR(STR, STR)

RESERVED = set('''if then else let in match with end fun do forall exists as return at using where fix cofix for Type Prop Set
Ok Err Some None true false negb andb orb tt fst snd nat bool list option unit str res bind
EValue EIndex EKey EType ECrash Ret Next BPos BNeg pslice py_index py_floordiv py_mod py_sub py_range py_all py_for
py_list_eqb py_pair_eqb py_option_eqb py_in py_join py_enumerate py_dict_get py_bound_o bnd_of_Z allclose rtol_default
py_unbound py_while py_list_set dyn_keys py_the py_some st__ py_for_b RetB NextB BrkB dyn_set2 dyn_del2 dyn_seq dyn_slice_step py_every py_dict_has py_repeat py_nat_o dyn_times dyn_getidx dyn_slice dyn_int dyn_is_none dyn_eq_int dyn_getitem dyn_len dyn_iter dyn_contains dyn_index dyn_items dyn_mul py_set py_subset py_inter
jv jv_eqb JStr JInt JNull JArr JObj JBool JNum
str_eqb length app map Nat List Bool PyOps2 cname N Z Q'''.split())

EXC = {'ValueError': 'EValue', 'IndexError': 'EIndex', 'KeyError': 'EKey', 'TypeError': 'EType',
       'InvalidExtensionError': 'EInvalidExt'}


class Fn:
    """Declared signature of one translated function."""

    def __init__(self, coq_name, rel, name, ret, params, cls=None, inner=None, self_attrs=None, closure=None,
                 tparams=(), eqs=None, externals=None, returns_inner=None, templates=None, vops=None, prop=False,
                 state=None, mutates=False, alias_path=False, imports=None, new_object=None, while_fuel=None, returns_stored=None, alias_vars=(), mutable_objs=(), local_dicts=None, classmethod=False, opaque_vars=()):
        self.coq_name, self.rel, self.name, self.cls, self.inner = coq_name, rel, name, cls, inner
        self.classmethod = classmethod           # @classmethod: `klass` is read as `self` (class attributes, the constructor)
        self.opaque_vars = tuple(opaque_vars)    # variables holding numeric data outside the translation: statements about them only are skipped
        self.mutable_objs = tuple(mutable_objs)  # instance parameters whose content this function changes (and restores): their state is threaded too
        self.local_dicts = dict(local_dicts or {})   # local variable -> DICT(K, V): a dictionary built in this function (x = {}; x[k] = v; x[k])
        self.alias_vars = tuple(alias_vars)      # names that may be bound to a list stored in the state (hint for the flow analysis only)
        self.returns_stored = returns_stored     # 'value' / 'pair': the result (its first component) IS the object stored under the key
                                                 # argument in the class dictionary of the key's classification (checked on the source)
        self.externals = dict(externals or {})   # dotted Python name -> (Coq parameter name, [argument types], result type)
        self.returns_inner = returns_inner       # the function ends with `def <inner>..; return <inner>` (a closure)
        self.ret = ret
        self.params = list(params)               # [(python name, type)] in source order (without self)
        self.self_attrs = list(self_attrs or [])  # [(attribute, type)] -> parameters self_<attribute>, in this order
        self.closure = list(closure or [])       # [(name, type)] free variables of an inner function
        self.tparams = tuple(tparams)            # type variables
        self.eqs = dict(eqs or {})               # type variable -> name of its equality parameter
        # external READS: [dict(src=<python expression with holes _0, _1..>, holes=[types], ret=type, param=<Coq parameter
        # name or None>, fmt=<format of the Coq term, {i} = hole i> or None)]; an expression that matches `src` becomes the
        # parameter applied to its (non-opaque) holes.  A hole of type FLOATLIT matches a numeric literal (-> exact Q).
        self.templates = list(templates or [])
        self.state = state                       # name of the self attribute that is the threaded state (e.g. '_content'), or None
        self.mutates = mutates                   # the function changes the state: it returns `res (result * state)`
        self.alias_path = alias_path             # the method returns the nested dictionary self.<state>[a][b] of its pair argument
        self.new_object = new_object             # dict(src=<template of the constructor call>, attrs={attr: hole index | 'self'}, content=<param>):
                                                 # `x = <constructor>(..)` creates a local object x
        self.while_fuel = while_fuel             # Python expression (source) bounding the iterations of the `while` loops
        self.used_obj = {}                       # filled by the translation: object parameter -> (attributes used, state used?)
        self.imports = dict(imports or {})       # name -> dict(coq=, attrs=[self attributes passed first], params=[types], ret=type):
                                                 # functions / methods translated in ANOTHER generated module
        self.prop = prop                         # the function is the getter of a property (decorated with @property)
        self.vops = dict(vops or {})             # type variable -> {'index': <Coq parameter  V -> bnd -> res V>}
        self.used_attrs = None                   # filled by the translation: attributes actually needed (incl. callees)
        self.used_vops_ = []
        self.defaults_none = []                  # filled by the translation: which parameters default to None
        self.used_tparams = []                   # filled by the translation: [(parameter name, Coq type)] of the templates used
        self.lineno = None


class Tr:
    def __init__(self, spec, node, registry):
        self.spec, self.fn, self.registry = spec, node, registry
        self.tmp = 0
        self.binds = []
        self.used = set()
        self.used_ext = set()
        self.used_tpl = []           # [(parameter name, Coq type text)] in order of first use
        self.used_vops = []
        self.tpl_nodes = [ast.parse(t['src'], mode='eval').body for t in spec.templates]
        self.loop_depth = 0
        self.loop_ks = []
        self.in_region = 0
        self.lazy_depth = 0
        self.loop_brk = []
        self.cont_stmts = []         # the statements that follow the construct being translated, outermost first
        self.objs = {}               # object variable -> dict(local=bool); attributes are <name>__<attr>, the state <name>__st
        self.used_obj = {}           # object parameter -> [set of attributes, state used]
        self.fresh_lists = set()
        self.pending_va = None       # (variable, class node, key node): the statement being translated binds it to a list stored in the state
        self.size = 0

    # ------------------------------------------------------------------ helpers
    def fail(self, node, why):
        raise TableError('%s: line %s: %s' % (self.spec.name if not self.spec.inner else self.spec.inner,
                                              getattr(node, 'lineno', '?'), why))

    def fresh(self, stem='t'):
        self.tmp += 1
        return '%s__%d' % (stem, self.tmp)

    def var(self, name, node):
        if name in RESERVED or re.match(r'^(t|c|x|p|rv|st)__\d*$', name) or name.endswith('_src') or (name.startswith('self_') and name[5:] in [a_ for a_, _ in self.spec.self_attrs]) \
                or name in self.spec.eqs.values() or name in self.spec.tparams or not re.match(r'^[A-Za-z_][A-Za-z0-9_]*$', name) \
                or name == '_':
            self.fail(node, 'variable name %r collides with a name the translator emits' % name)
        return name

    def is_tvar(self, t):
        return isinstance(t, str) and t in self.spec.tparams

    def ctype(self, t):
        if t in (NAT, TOKEN):
            return 'nat'
        if t == OBJ:            # an instance as a value: its header attributes in declaration order, then its content
            return '(%s)%%type' % ' * '.join([self.ctype(t_) for _, t_ in self.spec.self_attrs] + ['jv'])
        if t == INT:
            return 'Z'
        if t == QNUM:
            return 'Q'
        if t in (OPAQUE, UNIT, MSG):
            return 'unit'
        if t == DYN:
            return 'jv'
        if t == NDARRAY:
            return '(list nat)'
        if isinstance(t, tuple) and t[0] == 'set':
            return '(list %s)' % self.ctype(t[1])
        if isinstance(t, tuple) and t[0] == 'dict':
            return '(list (%s * %s))' % (self.ctype(t[1]), self.ctype(t[2]))
        if t in (BOOL, TRUTH):
            return 'bool'
        if t == STR:
            return 'str'
        if t == REGEX:
            return '(str -> bool)'
        if self.is_tvar(t):
            return t
        if isinstance(t, tuple) and t[0] == 'list':
            return '(list %s)' % self.ctype(t[1])
        if isinstance(t, tuple) and t[0] == 'option':
            return '(option %s)' % self.ctype(t[1])
        if isinstance(t, tuple) and t[0] == 'pair':
            return '(%s * %s)%%type' % (self.ctype(t[1]), self.ctype(t[2]))
        raise TableError('%s: no Coq type for %r' % (self.spec.name, t))

    def lazy(self, f):
        """run f() with a fresh list of pending binds; returns (result of f, the binds it produced)"""
        saved, self.binds = self.binds, []
        self.lazy_depth += 1
        try:
            r = f()
            b = self.binds
        finally:
            self.binds = saved
            self.lazy_depth -= 1
        return r, b

    @staticmethod
    def wrap(binds, tail):
        return ''.join(('let %s := %s in ' % (b[0][4:], b[1])) if b[0].startswith('LET ') else ('do %s <- %s; ' % b) for b in binds) + tail

    def bind(self, rhs, stem='t'):
        t = self.fresh(stem)
        self.binds.append((t, rhs))
        return t

    def eqb(self, t, node):
        if t == NAT:
            return 'Nat.eqb'
        if t == INT:
            return 'Z.eqb'
        if t == BOOL:
            return 'Bool.eqb'
        if t == STR:
            return 'str_eqb'
        if t == DYN:
            return 'jv_eqb'
        if self.is_tvar(t):
            if t not in self.spec.eqs:
                self.fail(node, 'equality on values of type %s, which has no equality parameter' % t)
            return self.spec.eqs[t]
        if isinstance(t, tuple) and t[0] == 'list':
            return '(py_list_eqb %s)' % self.eqb(t[1], node)
        if isinstance(t, tuple) and t[0] == 'option':
            return '(py_option_eqb %s)' % self.eqb(t[1], node)
        if isinstance(t, tuple) and t[0] == 'pair':
            return '(py_pair_eqb %s %s)' % (self.eqb(t[1], node), self.eqb(t[2], node))
        self.fail(node, 'no equality for type %r' % (t,))

    def unify(self, a, ta, b, tb, node):
        """make two operands of == / in the same type: T vs option T -> Some; None vs option T -> None"""
        if ta == tb and ta != NONE:
            return a, b, ta
        if (ta, tb) == (NAT, INT):
            return '(Z.of_nat %s)' % a, b, INT
        if (ta, tb) == (INT, NAT):
            return a, '(Z.of_nat %s)' % b, INT
        if isinstance(tb, tuple) and tb[0] == 'option' and ta in (tb[1], NONE):
            return ('None' if ta == NONE else '(Some %s)' % a), b, tb
        if isinstance(ta, tuple) and ta[0] == 'option' and tb in (ta[1], NONE):
            return a, ('None' if tb == NONE else '(Some %s)' % b), ta
        self.fail(node, 'operands of different types %r and %r' % (ta, tb))

    def truth(self, t, ty, node):
        if ty in (BOOL, TRUTH):
            return t
        if ty == NAT:
            return '(negb (Nat.eqb %s 0))' % t
        if ty == INT:
            return '(negb (Z.eqb %s 0%%Z))' % t
        if ty == STR or (isinstance(ty, tuple) and ty[0] == 'list'):
            return '(negb (Nat.eqb (List.length %s) 0))' % t
        if ty == REGEX or (isinstance(ty, tuple) and ty[0] == 'pair'):
            return 'true'
        if ty == NONE:
            return 'false'
        if isinstance(ty, tuple) and ty[0] == 'option':
            return '(match %s with Some x__ => %s | None => false end)' % (t, self.truth('x__', ty[1], node))
        self.fail(node, 'truthiness of a value of type %r is not known' % (ty,))

    def coerce(self, term, ty, to, node):
        if ty == to and ty != NONE:
            return term
        if to == TRUTH:
            return self.truth(term, ty, node)
        if to == INT and ty == NAT:
            return '(Z.of_nat %s)' % term
        if to == DYN and ty == STR:
            return '(JStr %s)' % term
        if to == DYN and ty == INT:
            return '(JInt %s)' % term
        if to == DYN and ty == NAT:
            return '(JInt (Z.of_nat %s))' % term
        if to == UNIT and ty == NONE:
            return 'tt'
        if to == OPAQUE and ty in (OPAQUE, OPT(OPAQUE), NONE):
            return 'tt'
        if to == DYN and ty == BOOL:
            return '(JBool %s)' % term
        if to == DYN and ty == NONE:
            return 'JNull'
        if to == DYN and ty in (LIST(DYN), LIST(ANY)):
            return '(JArr %s)' % term
        if isinstance(to, tuple) and to[0] == 'list' and ty == LIST(ANY):
            return term
        if isinstance(to, tuple) and to[0] in ('list', 'set') and isinstance(ty, tuple) and ty[0] == to[0] and to[1] == DYN \
                and ty[1] in (STR, INT, NAT):
            return '(List.map (fun x__ => %s) %s)' % (self.coerce('x__', ty[1], DYN, node), term)
        if isinstance(to, tuple) and to[0] == 'option':
            if ty == NONE:
                return 'None'
            if ty == to[1]:
                return '(Some %s)' % term
        self.fail(node, 'a value of type %r where %r is expected' % (ty, to))

    @staticmethod
    def compat(a, b):
        """equal up to the element type of an empty list display"""
        if a == b:
            return True
        if isinstance(a, tuple) and isinstance(b, tuple) and a[0] == b[0] == 'list' and ANY in (a[1], b[1]):
            return True
        return False

    @staticmethod
    def join(a, b):
        return b if (isinstance(a, tuple) and a[0] == 'list' and a[1] == ANY) else a

    def coerce_m(self, term, ty, to, node):
        """coerce, possibly with a bind: a dynamic value where an int is expected is converted (TypeError otherwise)"""
        if ty == DYN and to == INT:
            return self.bind('dyn_int %s' % term)
        if ty == DYN and to == STR:                # a dynamic value (e.g. a key obtained by iterating a dictionary) where a str is expected
            return self.bind('dyn_as_str %s' % term)
        if ty == DYN and to == LIST(DYN):          # a value passed where a sequence is expected
            return self.bind('dyn_seq %s' % term)
        return self.coerce(term, ty, to, node)

    # ------------------------------------------------------------------ expressions
    @staticmethod
    def is_zero(b):
        """a literal 0 as lower bound of a slice: the same as the omitted bound"""
        return isinstance(b, ast.Constant) and isinstance(b.value, int) and not isinstance(b.value, bool) and b.value == 0

    def bound(self, b, env):
        """slice bound / index -> Coq term of type bnd"""
        if isinstance(b, ast.Constant) and isinstance(b.value, int) and not isinstance(b.value, bool) and b.value >= 0:
            return '(BPos %s)' % cnat(b.value)
        if isinstance(b, ast.UnaryOp) and isinstance(b.op, ast.USub) and isinstance(b.operand, ast.Constant) \
                and isinstance(b.operand.value, int) and not isinstance(b.operand.value, bool) and b.operand.value > 0:
            return '(BNeg %s)' % cnat(b.operand.value)
        t, ty = self.expr(b, env)
        if ty == INT:
            return '(bnd_of_Z %s)' % t
        if ty == OPT(NAT):           # an index that may be None: TypeError
            return self.bind('py_bound_o %s' % t)
        if ty != NAT:
            self.fail(b, 'index / slice bound of type %r' % (ty,))
        return '(BPos %s)' % t

    # ------------------------------------------------------------------ external reads (templates)
    def tmatch(self, t, n, holes):
        if isinstance(t, ast.Name) and re.match(r'^_\d+$', t.id):
            if int(t.id[1:]) in holes and ast.dump(holes[int(t.id[1:])]) != ast.dump(n):
                return False          # a hole used twice stands for one expression
            holes[int(t.id[1:])] = n
            return True
        if type(t) is not type(n):
            return False
        for f in t._fields:
            if f in ('ctx', 'kind', 'type_comment'):
                continue
            a, b = getattr(t, f, None), getattr(n, f, None)
            if isinstance(a, list):
                if not isinstance(b, list) or len(a) != len(b) or not all(self.tmatch(x, y, holes) for x, y in zip(a, b)):
                    return False
            elif isinstance(a, ast.AST):
                if not isinstance(b, ast.AST) or not self.tmatch(a, b, holes):
                    return False
            elif a != b or type(a) is not type(b):
                return False
        return True

    def template(self, e, env):
        """-> (term, type) when e is an instance of a declared external read, else None"""
        if isinstance(e, (ast.Name, ast.Constant)):
            return None
        for tpl, node in zip(self.spec.templates, self.tpl_nodes):
            holes = {}
            if not self.tmatch(node, e, holes):
                continue
            if sorted(holes) != list(range(len(tpl['holes']))):
                self.fail(e, 'template %s: holes do not match its declaration' % tpl['src'])
            args = []
            for i, ht in enumerate(tpl['holes']):
                if ht == FLOATLIT:
                    try:
                        args.append(cq(float_lit_exact(holes[i])))
                    except TableError:
                        self.fail(e, 'template %s: hole %d must be a numeric literal' % (tpl['src'], i))
                    continue
                a, ta = self.expr(holes[i], env)
                args.append(self.coerce(a, ta, ht, holes[i]))
            if tpl.get('param'):
                sig = ' -> '.join([self.ctype(t) for t in tpl['holes'] if t not in (OPAQUE, FLOATLIT)]
                                  + [('res ' if tpl.get('monadic') else '') + self.ctype(tpl['ret'])])
                if (tpl['param'], sig) not in self.used_tpl:
                    if any(n_ == tpl['param'] for n_, _ in self.used_tpl):
                        self.fail(e, 'two external reads share the parameter %s with different types' % tpl['param'])
                    self.used_tpl.append((tpl['param'], sig))
            if tpl.get('fmt'):
                term = tpl['fmt'].format(*args)
            else:
                real = [a for a, ht in zip(args, tpl['holes']) if ht != OPAQUE]
                term = tpl['param'] if not real else '(%s %s)' % (tpl['param'], ' '.join(real))
            if tpl.get('monadic'):        # the external read can raise: its parameter returns a `res`
                return self.bind(term), tpl['ret']
            return term, tpl['ret']
        return None

    def expr(self, e, env):
        """-> (Coq term, type); everything that can raise is appended to self.binds in evaluation order"""
        self.size += 1
        if self.size > 4000:
            self.fail(e, 'translation too large')
        if isinstance(e, ast.Name) and e.id in self.objs and e.id not in env:
            return self.obj_state(e.id), DYN          # an instance used as a value: its content
        if isinstance(e, ast.Name):
            if e.id not in env:
                self.fail(e, 'unknown variable %s' % e.id)
            if env[e.id] == NONE:
                return 'None', NONE
            if isinstance(env[e.id], tuple) and env[e.id][0] == 'alias':
                self.fail(e, 'a variable bound to a dictionary of an instance that changes can only be stored into')
            if env.get('%stale:' + e.id):
                self.fail(e, 'variable %s may name a list of the state that was extended through another name' % e.id)
            if isinstance(env[e.id], tuple) and env[e.id][0] == 'maybe':      # bound inside a loop that may not have run: UnboundLocalError
                return self.bind('py_unbound %s__o' % e.id), env[e.id][1]
            if isinstance(env[e.id], tuple) and env[e.id][0] == 'closure':
                self.fail(e, 'an inner function can only be returned')
            return e.id, env[e.id]
        if isinstance(e, ast.Constant):
            v = e.value
            if v is None:
                return 'None', NONE
            if isinstance(v, bool):
                return ('true' if v else 'false'), BOOL
            if isinstance(v, int) and v >= 0:
                return cnat(v), NAT
            if isinstance(v, str):
                return cstr(v), STR
            self.fail(e, 'unsupported literal %r' % (v,))
        r = self.template(e, env)
        if r is not None:
            return r
        if isinstance(e, ast.Tuple):
            if len(e.elts) != 2:
                self.fail(e, 'only 2-tuples are supported')
            a, ta = self.expr(e.elts[0], env)
            b, tb = self.expr(e.elts[1], env)
            if NONE in (ta, tb) or TRUTH in (ta, tb):
                self.fail(e, 'tuple component of unknown type')
            return '(%s, %s)' % (a, b), PAIR(ta, tb)
        if isinstance(e, ast.Dict) and not e.keys:
            return '(JObj [])', DYN               # an empty dict as a value
        if isinstance(e, ast.List):
            if not e.elts:
                return '(@nil _)', LIST(ANY)
            els = [self.expr(x, env) for x in e.elts]
            t0 = els[0][1]
            if t0 in (NONE, TRUTH) or any(t != t0 for _, t in els):
                self.fail(e, 'list display with elements of different / undetermined types')
            return '[%s]' % '; '.join(a for a, _ in els), LIST(t0)
        if isinstance(e, ast.Attribute):
            if isinstance(e.value, ast.Name) and e.value.id == 'self' and 'self' not in env:
                for a, t in self.spec.self_attrs:
                    if a == e.attr:
                        self.used.add(a)
                        return 'self_' + a, t
                if self.spec.state == e.attr:
                    return ST, DYN
                callee = self.registry.get((self.spec.cls, e.attr))
                if callee is not None and callee.prop:
                    return self.call_method(callee, [], env, e)
                self.fail(e, 'self.%s is not a declared attribute' % e.attr)
            if self.is_obj(e.value, env) and self.is_obj(e.value, env) != 'self':
                o2 = self.is_obj(e.value, env)
                for a, t in self.spec.self_attrs:
                    if a == e.attr:
                        return self.obj_attr(o2, a), t
                self.fail(e, '%s.%s is not a declared attribute' % (o2, e.attr))
            v, tv = self.expr(e.value, env)
            if tv == NDARRAY and e.attr == 'shape':
                return v, LIST(NAT)
            self.fail(e, 'unsupported attribute access .%s' % e.attr)
        if isinstance(e, ast.Compare):
            return self.compare(e, env)
        if isinstance(e, ast.BoolOp):
            return self.boolop(e, 0, env)
        if isinstance(e, ast.UnaryOp) and isinstance(e.op, ast.Not):
            a, ta = self.expr(e.operand, env)
            return '(negb %s)' % self.truth(a, ta, e), BOOL
        if isinstance(e, ast.BinOp):
            return self.binop(e.op, e.left, e.right, e, env)
        if isinstance(e, ast.Call):
            return self.call(e, env)
        if isinstance(e, ast.ListComp):
            if len(e.generators) != 1 or e.generators[0].ifs or e.generators[0].is_async \
                    or not isinstance(e.generators[0].target, ast.Name):
                self.fail(e, 'list comprehension: only `[expr for v in seq]`')
            seq, ts = self.expr(e.generators[0].iter, env)
            if not (isinstance(ts, tuple) and ts[0] == 'list'):
                self.fail(e, 'comprehension over a value of type %r' % (ts,))
            v = self.var(e.generators[0].target.id, e)
            env2 = dict(env)
            env2[v] = ts[1]
            (c, tc), binds = self.lazy(lambda: self.expr(e.elt, env2))
            if binds or tc in (NONE, TRUTH):
                self.fail(e, 'comprehension element that can raise / of undetermined type')
            return '(List.map (fun %s => %s) %s)' % (v, c, seq), LIST(tc)
        if isinstance(e, ast.Subscript):
            a, ta = self.expr(e.value, env)
            if isinstance(ta, tuple) and ta[0] == 'dict' and not isinstance(e.slice, ast.Slice):
                k, tk = self.expr(e.slice, env)
                return self.bind('py_dict_get %s %s %s' % (self.eqb(ta[1], e), a, self.coerce(k, tk, ta[1], e))), ta[2]
            if isinstance(ta, tuple) and ta[0] == 'option' and isinstance(ta[1], tuple) and ta[1][0] == 'pair' \
                    and isinstance(e.slice, ast.Constant) and e.slice.value in (0, 1) and not isinstance(e.slice.value, bool):
                a, ta = self.bind('py_some %s' % a), ta[1]        # None[i]: TypeError
            if isinstance(ta, tuple) and ta[0] == 'pair' and isinstance(e.slice, ast.Constant) and e.slice.value in (0, 1) \
                    and not isinstance(e.slice.value, bool):
                return '(%s %s)' % ('fst' if e.slice.value == 0 else 'snd', a), ta[1 + e.slice.value]
            if ta == DYN and isinstance(e.slice, ast.Slice) and e.slice.step is not None:
                lo = 'None' if (e.slice.lower is None or self.is_zero(e.slice.lower)) else '(Some %s)' % self.bound(e.slice.lower, env)
                hi = 'None' if e.slice.upper is None else '(Some %s)' % self.bound(e.slice.upper, env)
                stp, tstp = self.expr(e.slice.step, env)
                if tstp == OPT(NAT):       # a step of None is the default step 1
                    stp, tstp = '(match %s with Some n__ => n__ | None => 1%%nat end)' % stp, NAT
                if tstp != NAT:
                    self.fail(e, 'slice step of type %r' % (tstp,))
                return self.bind('dyn_slice_step %s %s %s %s' % (lo, hi, stp, a)), DYN
            if ta == DYN and isinstance(e.slice, ast.Slice):
                if e.slice.step is not None:
                    self.fail(e, 'slice with a step')
                lo = 'None' if (e.slice.lower is None or self.is_zero(e.slice.lower)) else '(Some %s)' % self.bound(e.slice.lower, env)
                hi = 'None' if e.slice.upper is None else '(Some %s)' % self.bound(e.slice.upper, env)
                return self.bind('dyn_slice %s %s %s' % (lo, hi, a)), DYN
            if ta == DYN:
                (k, tk), kb = self.lazy(lambda: self.expr(e.slice, env))
                if tk == STR:
                    self.binds += kb
                    return self.bind('dyn_getitem %s %s' % (a, k)), DYN
                return self.bind('dyn_getidx %s %s' % (a, self.bound(e.slice, env))), DYN
            if ta == LIST(DYN) and not isinstance(e.slice, ast.Slice) and not isinstance(e.slice, (ast.Constant, ast.UnaryOp)):
                k, tk = self.lazy(lambda: self.expr(e.slice, env))[0]
                if tk == DYN:
                    k, tk = self.expr(e.slice, env)
                    return self.bind('dyn_index %s %s' % (a, k)), DYN
            if self.is_tvar(ta) and 'index' in self.spec.vops.get(ta, {}) and not isinstance(e.slice, ast.Slice):
                op = self.spec.vops[ta]['index']
                if op not in self.used_vops:
                    self.used_vops.append(op)
                i = self.bound(e.slice, env)
                return self.bind('%s %s %s' % (op, a, i)), ta
            if not (ta == STR or (isinstance(ta, tuple) and ta[0] == 'list')):
                self.fail(e, 'subscript of a value of type %r' % (ta,))
            if isinstance(e.slice, ast.Slice):
                if e.slice.step is not None:
                    self.fail(e, 'slice with a step')
                lo = 'None' if (e.slice.lower is None or self.is_zero(e.slice.lower)) else '(Some %s)' % self.bound(e.slice.lower, env)
                hi = 'None' if e.slice.upper is None else '(Some %s)' % self.bound(e.slice.upper, env)
                return '(pslice %s %s %s)' % (lo, hi, a), ta
            if ta == STR:
                self.fail(e, 'indexing a string')
            i = self.bound(e.slice, env)
            return self.bind('py_index %s %s' % (a, i)), ta[1]
        self.fail(e, 'unsupported expression %s' % ast.dump(e)[:100])

    def compare(self, e, env):
        if len(e.ops) == 2 and all(isinstance(o, (ast.Lt, ast.LtE, ast.Gt, ast.GtE)) for o in e.ops):
            # a op1 b op2 c: b is evaluated once, c only when the first comparison holds
            a, ta = self.expr(e.left, env)
            b, tb = self.expr(e.comparators[0], env)
            if ta == DYN:
                a, ta = self.bind('dyn_int %s' % a), INT
            if tb == DYN:
                b, tb = self.bind('dyn_int %s' % b), INT
            r1 = self.order(e.ops[0], a, ta, b, tb, e)
            (r2, binds) = self.lazy(lambda: self.order(e.ops[1], b, tb, *self.expr(e.comparators[1], env), e))
            if binds:
                return self.bind('(if %s then %s else Ok false)' % (r1, self.wrap(binds, 'Ok %s' % r2))), BOOL
            return '(andb %s %s)' % (r1, r2), BOOL
        if len(e.ops) != 1:
            self.fail(e, 'chained comparison')
        op, rhs = e.ops[0], e.comparators[0]
        if isinstance(op, (ast.Is, ast.IsNot)):
            if not (isinstance(rhs, ast.Constant) and rhs.value is None):
                self.fail(e, '`is` with something else than None')
            a, ta = self.expr(e.left, env)
            if ta == DYN:
                return ('(dyn_is_none %s)' if isinstance(op, ast.Is) else '(negb (dyn_is_none %s))') % a, BOOL
            if not (isinstance(ta, tuple) and ta[0] == 'option'):
                self.fail(e, '`is None` on a value of type %r' % (ta,))
            yes, no = ('true', 'false') if isinstance(op, ast.Is) else ('false', 'true')
            return '(match %s with None => %s | Some _ => %s end)' % (a, yes, no), BOOL
        a, ta = self.expr(e.left, env)
        if isinstance(ta, tuple) and ta[0] == 'list' and isinstance(rhs, ast.Tuple) and isinstance(op, (ast.Eq, ast.NotEq)):
            # a list / tuple value compared with a tuple display: element-wise
            els = [self.coerce(*self.expr(x, env), ta[1], x) for x in rhs.elts]
            r = '(%s %s [%s])' % (self.eqb(ta, e), a, '; '.join(els))
            return (r if isinstance(op, ast.Eq) else '(negb %s)' % r), BOOL
        if isinstance(op, (ast.In, ast.NotIn)) and isinstance(rhs, ast.Tuple):
            rhs = ast.copy_location(ast.List(elts=rhs.elts, ctx=ast.Load()), rhs)
        b, tb = self.expr(rhs, env)
        if isinstance(op, (ast.Eq, ast.NotEq)) and DYN in (ta, tb) and (ta in (NAT, INT) or tb in (NAT, INT)):
            d, n, tn = (a, b, tb) if ta == DYN else (b, a, ta)
            r = '(dyn_eq_int %s %s)' % (d, self.coerce(n, tn, INT, e))
            return (r if isinstance(op, ast.Eq) else '(negb %s)' % r), BOOL
        if isinstance(op, (ast.In, ast.NotIn)) and isinstance(tb, tuple) and tb[0] == 'dict':
            r = '(py_dict_has %s %s %s)' % (self.eqb(tb[1], e), b, self.coerce(a, ta, tb[1], e))
            return (r if isinstance(op, ast.In) else '(negb %s)' % r), BOOL
        if isinstance(op, (ast.In, ast.NotIn)) and tb == DYN:
            r = self.bind('dyn_contains %s %s' % (b, self.coerce(a, ta, DYN, e)))
            return (r if isinstance(op, ast.In) else '(negb %s)' % r), BOOL
        if isinstance(op, ast.LtE) and isinstance(ta, tuple) and ta[0] == 'set' and isinstance(tb, tuple) and tb[0] == 'set':
            a, b, t = self.set_unify(a, ta, b, tb, e)
            return '(py_subset %s %s %s)' % (self.eqb(t[1], e), a, b), BOOL
        if isinstance(op, (ast.Eq, ast.NotEq)):
            a, b, t = self.unify(a, ta, b, tb, e)
            r = '(%s %s %s)' % (self.eqb(t, e), a, b)
            return (r if isinstance(op, ast.Eq) else '(negb %s)' % r), BOOL
        if isinstance(op, (ast.In, ast.NotIn)):
            if not (isinstance(tb, tuple) and tb[0] == 'list'):
                self.fail(e, '`in` with a right operand of type %r' % (tb,))
            if ta == OPT(tb[1]):      # None is not an element of a list of values that are not None
                r = '(match %s with Some x__ => py_in %s x__ %s | None => false end)' % (a, self.eqb(tb[1], e), b)
                return (r if isinstance(op, ast.In) else '(negb %s)' % r), BOOL
            if ta != tb[1]:
                self.fail(e, '`in`: element type %r, list of %r' % (ta, tb[1]))
            r = '(py_in %s %s %s)' % (self.eqb(ta, e), a, b)
            return (r if isinstance(op, ast.In) else '(negb %s)' % r), BOOL
        return self.order(op, a, ta, b, tb, e), BOOL

    def set_unify(self, a, ta, b, tb, e):
        if ta == tb:
            return a, b, ta
        if ta[1] == DYN:
            return a, self.coerce(b, tb, ta, e), ta
        if tb[1] == DYN:
            return self.coerce(a, ta, tb, e), b, tb
        self.fail(e, 'sets of different element types %r and %r' % (ta, tb))

    def order(self, op, a, ta, b, tb, e):
        if ta == DYN:
            a, ta = self.bind('dyn_int %s' % a), INT
        if tb == DYN:
            b, tb = self.bind('dyn_int %s' % b), INT
        if ta not in (NAT, INT) or tb not in (NAT, INT):
            self.fail(e, 'ordering comparison of %r and %r' % (ta, tb))
        m = 'Nat'
        if INT in (ta, tb):
            a, b, m = self.coerce(a, ta, INT, e), self.coerce(b, tb, INT, e), 'Z'
        if isinstance(op, ast.Lt):
            return '(%s.ltb %s %s)' % (m, a, b)
        if isinstance(op, ast.LtE):
            return '(%s.leb %s %s)' % (m, a, b)
        if isinstance(op, ast.Gt):
            return '(%s.ltb %s %s)' % (m, b, a)
        if isinstance(op, ast.GtE):
            return '(%s.leb %s %s)' % (m, b, a)
        self.fail(e, 'unsupported comparison')

    def boolop(self, e, i, env):
        """operands i.. of an and/or; operand i is evaluated here, the rest lazily"""
        is_and = isinstance(e.op, ast.And)
        v = e.values[i]
        if is_and and i < len(e.values) - 1 and self.none_test(v, env) == 'isnot':
            # `x is not None and REST`: REST is evaluated with x at its inner type
            x = self.norm_test(v).left.id
            env2 = dict(env)
            env2[x] = env[x][1]
            (r, rty), binds = self.lazy(lambda: self.boolop(e, i + 1, env2))
            outty = BOOL if rty == BOOL else TRUTH
            if binds:
                return self.bind('(match %s with Some %s => %s | None => Ok false end)' % (x, x, self.wrap(binds, 'Ok %s' % r))), outty
            return '(match %s with Some %s => %s | None => false end)' % (x, x, r), outty
        t, ty = self.expr(v, env)
        if i == len(e.values) - 1:
            return self.truth(t, ty, v), (BOOL if ty == BOOL else TRUTH)
        narrow = is_and and isinstance(v, ast.Name) and isinstance(ty, tuple) and ty[0] == 'option'
        env2 = env
        if narrow:
            env2 = dict(env)
            env2[v.id] = ty[1]
        (r, rty), binds = self.lazy(lambda: self.boolop(e, i + 1, env2))
        outty = BOOL if (ty == BOOL and rty == BOOL) else TRUTH
        if narrow:
            inner = self.truth(v.id, ty[1], v)
            if binds:
                body = self.wrap(binds, 'Ok %s' % r)
                if inner != 'true':
                    body = 'if %s then %s else Ok false' % (inner, body)
                return self.bind('(match %s with Some %s => %s | None => Ok false end)' % (v.id, v.id, body)), outty
            body = r if inner == 'true' else '(andb %s %s)' % (inner, r)
            return '(match %s with Some %s => %s | None => false end)' % (v.id, v.id, body), outty
        tr = self.truth(t, ty, v)
        if binds:
            if is_and:
                return self.bind('(if %s then %s else Ok false)' % (tr, self.wrap(binds, 'Ok %s' % r))), outty
            return self.bind('(if %s then Ok true else %s)' % (tr, self.wrap(binds, 'Ok %s' % r))), outty
        return '(%s %s %s)' % ('andb' if is_and else 'orb', tr, r), outty

    def binop(self, op, left, right, node, env):
        if isinstance(op, ast.Mod) and isinstance(left, ast.Constant) and isinstance(left.value, str):
            return self.format(left.value, right, node, env)
        a, ta = (left if isinstance(left, tuple) else self.expr(left, env))
        b, tb = self.expr(right, env)
        if isinstance(op, ast.BitAnd) and isinstance(ta, tuple) and ta[0] == 'set' and isinstance(tb, tuple) and tb[0] == 'set':
            a, b, t = self.set_unify(a, ta, b, tb, node)
            return '(py_inter %s %s %s)' % (self.eqb(t[1], node), a, b), t
        if isinstance(op, ast.Sub) and isinstance(ta, tuple) and ta[0] == 'set' and isinstance(tb, tuple) and tb[0] == 'set':
            a, b, t = self.set_unify(a, ta, b, tb, node)
            return '(py_diff %s %s %s)' % (self.eqb(t[1], node), a, b), t
        if isinstance(op, ast.Mult) and isinstance(ta, tuple) and ta[0] == 'list' and tb == NAT:
            return '(py_repeat %s %s)' % (a, b), ta
        if isinstance(op, ast.Mult) and isinstance(tb, tuple) and tb[0] == 'list' and ta == NAT:
            return '(py_repeat %s %s)' % (b, a), tb
        if isinstance(op, ast.Mult) and (ta, tb) == (DYN, NAT):
            return self.bind('dyn_times %s %s' % (a, b)), DYN
        if isinstance(op, ast.Mult) and (ta, tb) == (NAT, DYN):
            return self.bind('dyn_times %s %s' % (b, a)), DYN
        if OPT(NAT) in (ta, tb) and ta in (NAT, OPT(NAT)) and tb in (NAT, OPT(NAT)):
            # an operand that may be None: TypeError, raised by the operator after both operands were evaluated
            if ta == OPT(NAT):
                a, ta = self.bind('py_nat_o %s' % a), NAT
            if tb == OPT(NAT):
                b, tb = self.bind('py_nat_o %s' % b), NAT
        if isinstance(op, ast.Mult) and DYN in (ta, tb) and ta in (DYN, NAT, INT) and tb in (DYN, NAT, INT):
            return self.bind('dyn_mul %s %s' % (self.coerce(a, ta, DYN, node), self.coerce(b, tb, DYN, node))), DYN
        if isinstance(op, ast.Add) and INT not in (ta, tb):
            if ta == NAT and tb == NAT:
                return '(%s + %s)%%nat' % (a, b), NAT
            if ta == STR and tb == STR:
                return '(%s ++ %s)' % (a, b), ta
            if isinstance(ta, tuple) and ta[0] == 'list' and self.compat(ta, tb):
                return '(%s ++ %s)' % (a, b), self.join(ta, tb)
            self.fail(node, '+ on %r and %r' % (ta, tb))
        if INT in (ta, tb) and ta in (NAT, INT) and tb in (NAT, INT) and isinstance(op, (ast.Add, ast.Mult, ast.Sub)):
            a, b = self.coerce(a, ta, INT, node), self.coerce(b, tb, INT, node)
            return '(%s %s %s)%%Z' % (a, {ast.Add: '+', ast.Mult: '*', ast.Sub: '-'}[type(op)], b), INT
        if ta != NAT or tb != NAT:
            self.fail(node, 'arithmetic on %r and %r' % (ta, tb))
        if isinstance(op, ast.Mult):
            return '(%s * %s)%%nat' % (a, b), NAT
        if isinstance(op, ast.Sub):
            return self.bind('py_sub %s %s' % (a, b)), NAT
        if isinstance(op, ast.FloorDiv):
            return self.bind('py_floordiv %s %s' % (a, b)), NAT
        if isinstance(op, ast.Mod):
            return self.bind('py_mod %s %s' % (a, b)), NAT
        self.fail(node, 'unsupported arithmetic operator %s' % type(op).__name__)

    def format(self, fmt, right, node, env):
        """'<literal>' % args -> an opaque message; a wrong number of arguments is the TypeError Python raises"""
        convs = re.findall(r'%(.)', fmt)
        if any(c not in 'srd%' for c in convs):
            self.fail(node, 'message format with a conversion other than %s / %r / %d')
        convs = [c for c in convs if c != '%']
        if isinstance(right, ast.Tuple):        # an explicit argument tuple: one argument per element
            tys = []
            for el in right.elts:
                _, tel = self.expr(el, env)
                if tel in (NONE, TRUTH):
                    self.fail(node, 'message argument of undetermined type')
                tys.append(tel)
        else:
            _, ty = self.expr(right, env)
            if isinstance(ty, tuple) and ty[0] == 'pair':
                tys = [ty[1], ty[2]]          # a 2-tuple VALUE counts as two arguments
            elif ty in (NAT, INT, STR, BOOL) or (isinstance(ty, tuple) and ty[0] == 'option' and ty[1] in (NAT, INT, STR, BOOL)):
                tys = [ty]
            else:
                self.fail(node, 'message argument of type %r (tuple or not?)' % (ty,))
        if len(convs) != len(tys) or any(c == 'd' and t not in (NAT, INT) for c, t in zip(convs, tys)):
            return self.bind('(Err EType : res unit)'), MSG     # "not all arguments converted" / "%d format: a number is required"
        return 'tt', MSG

    def call(self, e, env):
        if e.keywords or any(isinstance(a, ast.Starred) for a in e.args):
            self.fail(e, 'keyword / starred arguments')
        f = e.func
        if isinstance(f, ast.Name) and f.id not in env and f.id in self.spec.imports:
            return self.call_import(self.spec.imports[f.id], e.args, env, e)
        if isinstance(f, ast.Name) and f.id not in env:
            if f.id == 'deepcopy' and len(e.args) == 1:
                # values are immutable JSON data and lists are never mutated through an alias: a copy is the value itself
                return self.expr(e.args[0], env)
            if f.id == 'len' and len(e.args) == 1:
                a, ta = self.expr(e.args[0], env)
                if ta == DYN:
                    return self.bind('dyn_len %s' % a), NAT
                if ta == STR or (isinstance(ta, tuple) and ta[0] in ('list', 'set')):
                    return '(List.length %s)' % a, NAT
                self.fail(e, 'len() of a value of type %r' % (ta,))
            if f.id == 'int' and len(e.args) == 1:
                a, ta = self.expr(e.args[0], env)
                if ta == NAT:
                    return a, NAT
                self.fail(e, 'int() of a value of type %r' % (ta,))
            if f.id in ('min', 'max') and len(e.args) == 2:
                a, ta = self.expr(e.args[0], env)
                b, tb = self.expr(e.args[1], env)
                if ta == NAT and tb == NAT:
                    return '(Nat.%s %s %s)' % (f.id, a, b), NAT
                self.fail(e, '%s() of %r and %r' % (f.id, ta, tb))
            if f.id == 'range' and len(e.args) in (1, 2):
                args = [self.expr(a, env) for a in e.args]
                if any(t != NAT for _, t in args):
                    self.fail(e, 'range() of non-integers')
                lo, hi = ('0', args[0][0]) if len(args) == 1 else (args[0][0], args[1][0])
                return '(py_range %s %s)' % (lo, hi), LIST(NAT)
            if f.id == 'list' and len(e.args) == 1:
                a, ta = self.expr(e.args[0], env)
                if ta == DYN:
                    return self.bind('dyn_iter %s' % a), LIST(DYN)
                if isinstance(ta, tuple) and ta[0] in ('list', 'set'):
                    return a, LIST(ta[1])
                self.fail(e, 'list() of a value of type %r' % (ta,))
            if f.id in ('tuple', 'set') and len(e.args) == 1:
                a, ta = self.expr(e.args[0], env)
                if ta == DYN:
                    a, ta = self.bind('dyn_iter %s' % a), LIST(DYN)
                if not (isinstance(ta, tuple) and ta[0] in ('list', 'set')):
                    self.fail(e, '%s() of a value of type %r' % (f.id, ta))
                if f.id == 'tuple':
                    return a, LIST(ta[1])
                return '(py_set %s %s)' % (self.eqb(ta[1], e), a), SET(ta[1])
            if f.id == 'iteritems' and len(e.args) == 1:
                a, ta = self.expr(e.args[0], env)
                if ta != DYN:
                    self.fail(e, 'iteritems() of a value of type %r' % (ta,))
                return self.bind('dyn_items %s' % a), LIST(PAIR(STR, DYN))
            if f.id == 'enumerate' and len(e.args) == 1:
                a, ta = self.expr(e.args[0], env)
                if not (isinstance(ta, tuple) and ta[0] == 'list'):
                    self.fail(e, 'enumerate() of a value of type %r' % (ta,))
                return '(py_enumerate %s)' % a, LIST(PAIR(NAT, ta[1]))
            if f.id == 'all' and len(e.args) == 1 and isinstance(e.args[0], ast.GeneratorExp):
                g = e.args[0]
                if len(g.generators) != 1 or g.generators[0].ifs or g.generators[0].is_async \
                        or not isinstance(g.generators[0].target, ast.Name):
                    self.fail(e, 'all(): only `cond for v in seq`')
                seq, ts = self.expr(g.generators[0].iter, env)
                if not (isinstance(ts, tuple) and ts[0] == 'list'):
                    self.fail(e, 'all() over a value of type %r' % (ts,))
                v = self.var(g.generators[0].target.id, g)
                env2 = dict(env)
                env2[v] = ts[1]
                (c, tc), binds = self.lazy(lambda: self.expr(g.elt, env2))
                body = self.wrap(binds, 'Ok %s' % self.truth(c, tc, g.elt))
                return self.bind('py_all (fun %s => %s) %s' % (v, body, seq)), BOOL
            self.fail(e, 'unsupported call %s(..)' % f.id)
        if isinstance(f, ast.Attribute) and self.is_obj(f.value, env):
            recv = self.is_obj(f.value, env)
            callee = self.registry.get((self.spec.cls, f.attr))
            if callee is None and ('self.' + f.attr) in self.spec.imports:
                return self.call_import(self.spec.imports['self.' + f.attr], e.args, env, e, recv)
            if callee is None or callee.used_attrs is None or callee.prop:
                self.fail(e, '%s.%s() is not a translated method' % (recv, f.attr))
            return self.call_method(callee, e.args, env, e, recv)

        return self.call_rest(e, env)

    # ------------------------------------------------------------------ objects (self and other instances of the class)
    def obj_attr(self, obj, a):
        if obj == 'self':
            self.used.add(a)
            return 'self_' + a
        self.used_obj.setdefault(obj, [set(), False])[0].add(a)
        return '%s__%s' % (obj, a)

    def obj_state(self, obj):
        if obj == 'self':
            if not self.spec.state:
                self.fail(self.fn, 'self has no threaded state in this function')
            return ST
        self.used_obj.setdefault(obj, [set(), False])[1] = True
        return '%s__st' % obj

    def obj_mutable(self, obj):
        return self.spec.mutates if obj == 'self' else (self.objs[obj]['local'] or obj in self.spec.mutable_objs)

    def is_obj(self, node, env):
        if isinstance(node, ast.Name) and node.id == 'self' and 'self' not in env:
            return 'self'
        if isinstance(node, ast.Name) and node.id in self.objs:
            return node.id
        return None

    def call_import(self, imp, arg_nodes, env, e, recv='self'):
        """call of a function translated in another generated module (typed; it never touches the state)"""
        if len(arg_nodes) != len(imp['params']):
            self.fail(e, 'imported %s: wrong number of arguments' % imp['coq'])
        args = []
        mine = dict(self.spec.self_attrs)
        for a in imp.get('attrs', []):
            if a not in mine:
                self.fail(e, 'imported %s needs self.%s, which this function does not declare' % (imp['coq'], a))
            args.append(self.obj_attr(recv, a))
        for x, t in zip(arg_nodes, imp['params']):
            a, ta = self.expr(x, env)
            args.append(self.coerce_m(a, ta, t, x))
        return self.bind(('%s %s' % (imp['coq'], ' '.join(args))).rstrip()), imp['ret']

    def call_method(self, callee, arg_nodes, env, e, recv='self'):
        if True:
            f = ast.Attribute(value=None, attr=callee.name)
            arg_nodes = list(arg_nodes)
            while len(arg_nodes) < len(callee.params) and callee.defaults_none[len(arg_nodes)]:
                arg_nodes.append(ast.copy_location(ast.Constant(value=None), e))      # a default None
            if len(arg_nodes) != len(callee.params):
                self.fail(e, 'self.%s(): wrong number of arguments' % f.attr)
            args = []
            for pn, sig in callee.used_tparams:
                mine_t = [t_ for t_ in self.spec.templates if t_.get('param') == pn]
                sigs = set(' -> '.join([self.ctype(t) for t in t_['holes'] if t not in (OPAQUE, FLOATLIT)]
                                       + [('res ' if t_.get('monadic') else '') + self.ctype(t_['ret'])]) for t_ in mine_t)
                if sigs != {sig}:
                    self.fail(e, 'self.%s() needs the external read %s, which this function does not declare' % (f.attr, pn))
                if (pn, sig) not in self.used_tpl:
                    self.used_tpl.append((pn, sig))
                args.append(pn)
            mine = dict(self.spec.self_attrs)
            for a, t in callee.self_attrs:
                if a in callee.used_attrs:
                    if mine.get(a) != t:
                        self.fail(e, 'self.%s() needs self.%s, which this function does not declare' % (f.attr, a))
                    args.append(self.obj_attr(recv, a))
            n_fixed = len(args)
            for x, (pname, t) in zip(arg_nodes, callee.params):
                if t == OBJ:      # another instance: the header attributes and the state the callee uses of it
                    o2 = self.is_obj(x, env)
                    if o2 is None:
                        self.fail(e, 'argument %s of %s must be an instance' % (pname, f.attr))
                    ua, us = callee.used_obj.get(pname, [set(), False])
                    for a, _ in callee.self_attrs:
                        if a in ua:
                            args.append(self.obj_attr(o2, a))
                    if us:
                        args.append(self.obj_state(o2))
                    continue
                a, ta = self.expr(x, env)
                if callee.alias_path and ta == OPT(t):      # `base, sub = None`: TypeError
                    a, ta = self.bind('py_some %s' % a), t
                args.append(self.coerce_m(a, ta, t, x))
            if callee.tparams or callee.closure or callee.used_vops_:
                self.fail(e, 'call of a polymorphic / inner function')
            if callee.state:
                args.insert(n_fixed, self.obj_state(recv))
            if callee.mutates:
                if not self.obj_mutable(recv) or self.lazy_depth != 1:
                    self.fail(e, 'a state-changing call is only allowed at statement level, on an instance this function may change')
                p = self.bind(('%s %s' % (callee.coq_name, ' '.join(args))).rstrip(), 'p')
                self.binds.append(('LET ' + self.obj_state(recv), '(snd %s)' % p))
                return '(fst %s)' % p, callee.ret
            return self.bind(('%s %s' % (callee.coq_name, ' '.join(args))).rstrip()), callee.ret

    def call_rest(self, e, env):
        f = e.func
        if isinstance(f, ast.Attribute) and isinstance(f.value, ast.Name) and f.value.id == 'np' and 'np' not in env \
                and f.attr == 'allclose' and len(e.args) == 2 and not e.keywords:
            (a, ta), ab = self.lazy(lambda: self.expr(e.args[0], env))
            (b, tb), bb = self.lazy(lambda: self.expr(e.args[1], env))
            if ta == TOKEN and tb == TOKEN:
                self.binds += ab + bb
                return '(Nat.eqb %s %s)' % (a, b), BOOL
        if isinstance(f, ast.Attribute) and f.attr == 'join' and len(e.args) == 1 and isinstance(f.value, ast.Constant) \
                and isinstance(f.value.value, str):
            a, ta = self.expr(e.args[0], env)
            if ta != LIST(STR):
                self.fail(e, 'join() of a value of type %r' % (ta,))
            return '(py_join %s %s)' % (cstr(f.value.value), a), STR
        if isinstance(f, ast.Attribute) and isinstance(f.value, ast.Name) and f.value.id not in env \
                and (f.value.id + '.' + f.attr) in self.spec.externals:
            name, targs, tret = self.spec.externals[f.value.id + '.' + f.attr]
            if len(e.args) != len(targs):
                self.fail(e, '%s.%s(): wrong number of arguments' % (f.value.id, f.attr))
            args = []
            for x, t in zip(e.args, targs):
                a, ta = self.expr(x, env)
                args.append(self.coerce(a, ta, t, x))
            self.used_ext.add(f.value.id + '.' + f.attr)
            return '(%s %s)' % (name, ' '.join(args)), tret
        if isinstance(f, ast.Attribute) and f.attr in ('items', 'iteritems', 'values', 'itervalues') and not e.args:
            a, ta = self.expr(f.value, env)
            if ta != DYN:
                self.fail(e, '.%s() of a value of type %r' % (f.attr, ta))
            t = self.bind('dyn_items %s' % a)        # AttributeError when it is not a dict, like iteritems(d)
            if f.attr in ('items', 'iteritems'):
                return t, LIST(PAIR(STR, DYN))
            return '(List.map snd %s)' % t, LIST(DYN)
        if isinstance(f, ast.Attribute) and f.attr == 'keys' and not e.args:
            a, ta = self.expr(f.value, env)
            if ta != DYN:
                self.fail(e, '.keys() of a value of type %r' % (ta,))
            return self.bind('dyn_keys %s' % a), LIST(STR)
        if isinstance(f, ast.Attribute) and f.attr == 'search' and len(e.args) == 1:
            r, tr = self.expr(f.value, env)
            k, tk = self.expr(e.args[0], env)
            if tr != REGEX or tk != STR:
                self.fail(e, '.search() on %r with an argument of type %r' % (tr, tk))
            return '(%s %s)' % (r, k), TRUTH
        self.fail(e, 'unsupported call')

    # ------------------------------------------------------------------ statements
    @staticmethod
    def assigned(stmts):
        out = []
        for st in stmts:
            for n in ast.walk(st):
                if isinstance(n, ast.Name) and isinstance(n.ctx, ast.Store) and n.id not in out:
                    out.append(n.id)
                if isinstance(n, ast.Expr) and isinstance(n.value, ast.Call) and isinstance(n.value.func, ast.Attribute) \
                        and n.value.func.attr in ('extend', 'append') and isinstance(n.value.func.value, ast.Name) \
                        and n.value.func.value.id not in out:
                    out.append(n.value.func.value.id)
        return out

    def stmt_expr(self, e, env):
        """translate an expression at statement level -> (binds, term, type)"""
        (t, ty), binds = self.lazy(lambda: self.expr(e, env))
        return binds, t, ty

    def lines(self, binds, pad):
        return ''.join(('%slet %s := %s in\n' % (pad, t[4:], r)) if t.startswith('LET ') else ('%sdo %s <- %s;\n' % (pad, t, r))
                       for t, r in binds)

    def raise_stmt(self, st, env):
        exc = st.exc
        if st.cause is not None or exc is None:
            self.fail(st, 'unsupported raise')
        if isinstance(exc, ast.Name):
            name, args = exc.id, []
        elif isinstance(exc, ast.Call) and isinstance(exc.func, ast.Name) and not exc.keywords:
            name, args = exc.func.id, exc.args
        else:
            self.fail(st, 'unsupported raise')
        if name not in EXC:
            self.fail(st, 'raise of %s' % name)
        if len(args) > 1:
            self.fail(st, 'exception with several arguments')
        binds = []
        if args:
            binds, _, ty = self.stmt_expr(args[0], env)
            if ty not in (STR, MSG):
                self.fail(st, 'exception message of type %r' % (ty,))
        return binds, 'Err %s' % EXC[name]

    @staticmethod
    def norm_test(c):
        """`not (x is None)` -> `x is not None` (and conversely)"""
        if isinstance(c, ast.UnaryOp) and isinstance(c.op, ast.Not) and isinstance(c.operand, ast.Compare) \
                and len(c.operand.ops) == 1 and isinstance(c.operand.ops[0], (ast.Is, ast.IsNot)):
            o = c.operand
            return ast.copy_location(ast.Compare(left=o.left, ops=[ast.IsNot() if isinstance(o.ops[0], ast.Is) else ast.Is()],
                                                 comparators=o.comparators), c)
        return c

    def none_test(self, c, env):
        """'is' / 'isnot' when c is `<option-typed variable> is [not] None`, else None"""
        c = self.norm_test(c)
        if isinstance(c, ast.Compare) and len(c.ops) == 1 and isinstance(c.ops[0], (ast.Is, ast.IsNot)) \
                and isinstance(c.left, ast.Name) and isinstance(c.comparators[0], ast.Constant) \
                and c.comparators[0].value is None and isinstance(env.get(c.left.id), tuple) and env[c.left.id][0] == 'option':
            return 'is' if isinstance(c.ops[0], ast.Is) else 'isnot'
        return None

    @staticmethod
    def can_fall(stmts):
        """can control reach the end of this block? (syntactic)"""
        stmts = [s_ for s_ in stmts if not isinstance(s_, ast.Pass)]
        if not stmts:
            return True
        last = stmts[-1]
        if isinstance(last, (ast.Return, ast.Raise, ast.Continue)):
            return False
        if isinstance(last, ast.Assert) and isinstance(last.test, ast.Constant) and last.test.value is False:
            return False
        if isinstance(last, ast.If):
            return Tr.can_fall(last.body) or Tr.can_fall(last.orelse)
        return True

    @staticmethod
    def big(stmts):
        return len(stmts) > 3 or any(isinstance(n, ast.For) for s_ in stmts for n in ast.walk(s_))

    def region(self, st, rest, env, k, ret, ind):
        pad = '  ' * ind
        env = dict(env)
        env.setdefault(ST, DYN)
        assigned = self.assigned_st([st], env)

        def tup(vs):
            return 'tt' if not vs else vs[0] if len(vs) == 1 else '(%s)' % ', '.join(vs)

        def ret_reg(t, ty, node):
            return 'Ok (Ret %s)' % self.retval(t, ty, node)
        inner = ast.copy_location(ast.If(test=st.test, body=st.body, orelse=st.orelse), st)
        # pass 1: the variable types at every exit of the region; a variable is carried out when every exit defines it
        # with the same type, otherwise it is unknown afterwards (its use makes this translation fail -> copied continuation)
        exits = []
        saved = (self.tmp, self.size, set(self.fresh_lists))
        self.block([inner], env, lambda env2, ind2: (exits.append(dict(env2)), '')[1], ret_reg, ind + 1)
        self.tmp, self.size, self.fresh_lists = saved; self.pending_va = None
        if not exits:
            raise TableError('region: no exit')
        carried, types = [], {}
        for v in assigned:
            ts = [e_.get(v) for e_ in exits]
            if all(t is not None for t in ts) and all(self.compat(t, ts[0]) for t in ts) and not any(
                    isinstance(t, tuple) and t[0] == 'closure' for t in ts):
                t0 = ts[0]
                for t in ts:
                    t0 = self.join(t0, t)
                carried.append(v)
                types[v] = t0

        def k_reg(env2, ind2):
            return '%sOk (Next %s)\n' % ('  ' * ind2, tup(carried))
        self.in_region += 1
        try:
            body = self.block([inner], env, k_reg, ret_reg, ind + 1)
        finally:
            self.in_region -= 1
        env_after = dict(env)
        for v in assigned:
            env_after.pop(v, None)
        env_after.update(types)
        c, rv = self.fresh('c'), self.fresh('rv')
        after = self.block(rest, env_after, k, ret, ind + 1)
        pat = '_' if not carried else carried[0] if len(carried) == 1 else '(%s)' % ', '.join(carried)
        return ('%sdo %s <- (\n%s%s  );\n%smatch %s with\n%s| Ret %s => %s\n%s| Next %s =>\n%s%send\n'
                % (pad, c, body, pad, pad, c, pad, rv, ret(rv, RAW, st), pad, pat, after, pad))

    def retval(self, t, ty, node):
        """the complete payload of a return: the coerced value, paired with the current state in a state-changing function"""
        if ty == RAW:
            return t
        v = self.coerce(t, ty, self.spec.ret, node)
        return '(%s, %s)' % (v, ST) if self.spec.mutates else v

    def alias_call(self, e, env):
        """e = self.<m>(C) with <m> a method that returns the nested dictionary self.<state>[C[0]][C[1]] -> the term of C"""
        if isinstance(e, ast.Call) and isinstance(e.func, ast.Attribute) and self.is_obj(e.func.value, env) \
                and len(e.args) == 1 and not e.keywords:
            callee = self.registry.get((self.spec.cls, e.func.attr))
            if callee is not None and callee.alias_path:
                c, tc = self.expr(e.args[0], env)
                if tc == OPT(CNAME):       # `base, sub = None`: TypeError
                    c, tc = self.bind('py_some %s' % c), CNAME
                if tc != CNAME:
                    self.fail(e, 'classification of type %r' % (tc,))
                return c, self.is_obj(e.func.value, env)
        return None

    def mutated_state(self, n, env):
        """the state variable changed by this node (a store / del through a class dictionary, a state-changing call), or None"""
        if isinstance(n, (ast.Assign, ast.Delete)):
            tg = n.targets[0]
            if isinstance(tg, ast.Subscript) and isinstance(tg.value, ast.Call) and isinstance(tg.value.func, ast.Attribute):
                cal = self.registry.get((self.spec.cls, tg.value.func.attr))
                ob = self.is_obj(tg.value.func.value, env)
                if cal is not None and cal.alias_path and ob:
                    return ST if ob == 'self' else '%s__st' % ob
        if isinstance(n, ast.Assign) and self.class_store(n, env) is not None:
            ob = self.class_store(n, env)[0]
            return ST if ob == 'self' else '%s__st' % ob
        if isinstance(n, ast.Call) and isinstance(n.func, ast.Attribute):
            ob = self.is_obj(n.func.value, env)
            cal = self.registry.get((self.spec.cls, n.func.attr))
            if ob and cal is not None and cal.mutates:
                return ST if ob == 'self' else '%s__st' % ob
            if n.func.attr == 'extend' and self.spec.mutates:
                r = n.func.value
                if isinstance(r, ast.Name) and (('%va:' + r.id) in env or r.id in self.spec.alias_vars):
                    return ST
                if isinstance(r, ast.Call) and isinstance(r.func, ast.Attribute) and self.is_obj(r.func.value, env) == 'self' \
                        and getattr(self.registry.get((self.spec.cls, r.func.attr)), 'returns_stored', None) == 'value':
                    return ST
        return None

    # ---- lists of the state reached through a name: x = self.get_values(k) / x, c = self.get_values_and_class(k) /
    #      x = self.get_class_dict(C)[k];  x.extend(e) then changes the state.  The name is usable for that only until the next
    #      change of the state on the path; other names that may reach the same list cannot be read after the extension.
    @staticmethod
    def kill_va(env, keep=None):
        return dict((k_, v_) for k_, v_ in env.items()
                    if not (isinstance(k_, str) and k_.startswith('%va:') and k_ != ('%va:' + keep if keep else None)))

    @staticmethod
    def has_va(env):
        return any(isinstance(k_, str) and k_.startswith('%va:') for k_ in env)

    def obj_valued(self, e, env):
        """is e an expression whose value is an instance: an element / a loop variable of a list of instances"""
        if isinstance(e, ast.Name):
            return env.get(e.id) == OBJ
        if isinstance(e, ast.Subscript) and isinstance(e.value, ast.Name) and env.get(e.value.id) == LIST(OBJ) \
                and not isinstance(e.slice, ast.Slice):
            return True
        return False

    def opaque_only(self, st, env):
        """a statement that only computes / stores numeric data outside the translation (declared opaque variables, opaque
        attributes): no other store, no call except np.allclose; such a statement is skipped"""
        if not self.spec.opaque_vars or not isinstance(st, (ast.Assign, ast.If)):
            return False
        opq_attrs = set(a_ for a_, t_ in self.spec.self_attrs if t_ == OPAQUE)
        stores = False
        for n in ast.walk(st):
            if isinstance(n, ast.Name) and isinstance(n.ctx, ast.Store):
                if n.id not in self.spec.opaque_vars:
                    return False
                stores = True
            elif isinstance(n, ast.Attribute) and isinstance(n.ctx, ast.Store):
                if n.attr not in opq_attrs or not self.is_obj(n.value, env):
                    return False
                stores = True
            elif isinstance(n, ast.Subscript) and isinstance(n.ctx, ast.Store):
                return False
            elif isinstance(n, ast.Call):
                f = n.func
                if not (isinstance(f, ast.Attribute) and isinstance(f.value, ast.Name) and f.value.id == 'np' and f.attr == 'allclose'):
                    return False
            elif isinstance(n, (ast.For, ast.While, ast.Return, ast.Raise, ast.Delete, ast.AugAssign, ast.Break, ast.Continue)):
                return False
        return stores

    def class_store(self, st, env):
        """<instance>.<state>[A][B] = V  ->  (instance, A node, B node), else None"""
        if isinstance(st, ast.Assign) and len(st.targets) == 1:
            tg = st.targets[0]
            if isinstance(tg, ast.Subscript) and isinstance(tg.value, ast.Subscript) and isinstance(tg.value.value, ast.Attribute) \
                    and self.spec.state and tg.value.value.attr == self.spec.state and self.is_obj(tg.value.value.value, env) \
                    and not isinstance(tg.slice, ast.Slice) and not isinstance(tg.value.slice, ast.Slice):
                return self.is_obj(tg.value.value.value, env), tg.value.slice, tg.slice
        return None

    def va_binding(self, st, env):
        if not (self.spec.state and self.spec.mutates and self.spec.alias_vars and isinstance(st, ast.Assign) and len(st.targets) == 1):
            return None
        tg, v = st.targets[0], st.value
        first = tg.elts[0] if isinstance(tg, ast.Tuple) and tg.elts else tg
        if not (isinstance(first, ast.Name) and first.id in self.spec.alias_vars):
            return None          # only the names the specification declares are followed
        if isinstance(v, ast.Call) and isinstance(v.func, ast.Attribute) and self.is_obj(v.func.value, env) == 'self' \
                and len(v.args) == 1 and not v.keywords and isinstance(v.args[0], ast.Name):
            rs = getattr(self.registry.get((self.spec.cls, v.func.attr)), 'returns_stored', None)
            if rs == 'pair' and isinstance(tg, ast.Tuple) and len(tg.elts) == 2 and all(isinstance(x_, ast.Name) for x_ in tg.elts):
                return tg.elts[0].id, ast.copy_location(ast.Name(id=tg.elts[1].id, ctx=ast.Load()), st), v.args[0]
            if rs == 'value' and isinstance(tg, ast.Name):
                c = ast.Call(func=ast.Attribute(value=v.func.value, attr='get_classification', ctx=ast.Load()), args=[v.args[0]], keywords=[])
                return tg.id, ast.fix_missing_locations(ast.copy_location(c, st)), v.args[0]
        if isinstance(tg, ast.Name) and isinstance(v, ast.Subscript) and isinstance(v.slice, ast.Name) and isinstance(v.value, ast.Call) \
                and isinstance(v.value.func, ast.Attribute) and self.is_obj(v.value.func.value, env) == 'self' \
                and getattr(self.registry.get((self.spec.cls, v.value.func.attr)), 'alias_path', False) and len(v.value.args) == 1:
            return tg.id, v.value.args[0], v.slice
        return None

    def va_extend(self, st, rest, env, k, ret, ind):
        """x.extend(E) / self.get_values(K).extend(E) on a list stored in the state; None when st is not of that form"""
        pad = '  ' * ind
        if not (isinstance(st, ast.Expr) and isinstance(st.value, ast.Call) and isinstance(st.value.func, ast.Attribute)
                and st.value.func.attr == 'extend' and len(st.value.args) == 1 and not st.value.keywords):
            return None
        r, arg = st.value.func.value, st.value.args[0]
        sv = self.obj_state('self')
        if isinstance(r, ast.Name) and ('%va:' + r.id) in env:
            x = r.id
            cv, tc_, kv = env['%va:' + x]
            if not isinstance(arg, ast.Name):
                self.fail(st, '.extend() of a stored list with something else than a variable')

            def eve():
                t_, ty_ = self.expr(arg, env)
                nx = self.bind('dyn_extend %s %s' % (x, self.coerce_m(t_, ty_, DYN, st)))
                return nx, (self.bind('py_some %s' % cv) if tc_ == OPT(CNAME) else cv)
            (nx, c2), binds = self.lazy(eve)
            env2 = self.kill_va(env, keep=x)
            keepx = x
            text = self.lines(binds, pad) + '%slet %s := %s in\n%sdo %s <- dyn_set2 %s (fst %s) (snd %s) %s %s;\n' % (pad, x, nx, pad, sv, sv, c2, c2, kv, x)
        elif isinstance(r, ast.Call) and isinstance(r.func, ast.Attribute) and self.is_obj(r.func.value, env) == 'self' \
                and getattr(self.registry.get((self.spec.cls, r.func.attr)), 'returns_stored', None) == 'value' \
                and len(r.args) == 1 and isinstance(r.args[0], ast.Name) and isinstance(arg, ast.Name):
            cnode = ast.fix_missing_locations(ast.copy_location(
                ast.Call(func=ast.Attribute(value=r.func.value, attr='get_classification', ctx=ast.Load()), args=[r.args[0]], keywords=[]), st))

            def eve2():
                v_, tv_ = self.expr(r, env)
                t_, ty_ = self.expr(arg, env)
                nx = self.bind('dyn_extend %s %s' % (self.coerce_m(v_, tv_, DYN, st), self.coerce_m(t_, ty_, DYN, st)))
                c_, tc_ = self.expr(cnode, env)
                if tc_ != OPT(CNAME):
                    self.fail(st, 'classification of type %r' % (tc_,))
                k_, tk_ = self.expr(r.args[0], env)
                return nx, self.bind('py_some %s' % c_), k_
            (nx, c2, k_), binds = self.lazy(eve2)
            env2 = self.kill_va(env)
            keepx = None
            text = self.lines(binds, pad) + '%sdo %s <- dyn_set2 %s (fst %s) (snd %s) %s %s;\n' % (pad, sv, sv, c2, c2, k_, nx)
        else:
            return None
        env2 = dict(env2)
        for k_ in list(env2):
            if isinstance(k_, str) and k_.startswith('%vo:') and k_[4:] != keepx:
                env2['%stale:' + k_[4:]] = True
        return text + self.block(rest, env2, k, ret, ind)

    def assigned_st(self, stmts, env=None):
        out = [v_ for v_ in self.assigned(stmts) if v_ not in self.spec.opaque_vars]
        for s_ in stmts:
            for n in ast.walk(s_):
                if isinstance(n, ast.Assign) and len(n.targets) == 1 and isinstance(n.targets[0], ast.Subscript) \
                        and isinstance(n.targets[0].value, ast.Name) and n.targets[0].value.id in self.spec.local_dicts \
                        and n.targets[0].value.id not in out:
                    out.append(n.targets[0].value.id)       # x[k] = v on a dictionary built in this function rebinds x
                if isinstance(n, ast.Subscript) and isinstance(n.ctx, ast.Store) and isinstance(n.value, ast.Name) \
                        and n.value.id in self.fresh_lists and n.value.id not in out:
                    out.append(n.value.id)                  # l[i] = v on a list built in this function rebinds l
                if isinstance(n, ast.Assign) and len(n.targets) == 1 and isinstance(n.targets[0], ast.Attribute) \
                        and isinstance(n.targets[0].value, ast.Name) and self.objs.get(n.targets[0].value.id, {}).get('local') \
                        and self.spec.new_object and dict(self.spec.self_attrs).get(n.targets[0].attr, OPAQUE) != OPAQUE:
                    ob, at = n.targets[0].value.id, n.targets[0].attr
                    for v_ in ['%s__%s' % (ob, at)] + ['%s__%s' % (ob, a_) for a_, (_, fargs) in self.spec.new_object.get('derived', {}).items()
                                                       if at in fargs]:
                        if v_ not in out:
                            out.append(v_)
                v = self.mutated_state(n, env or {})
                if v and v not in out:
                    out.append(v)
        return out

    @staticmethod
    def used_before_rebound(v, stmts):
        """is the variable read by these statements before they bind it again? (syntactic, conservative)"""
        def loads(n):
            return any(isinstance(m, ast.Name) and m.id == v and isinstance(m.ctx, ast.Load) for m in ast.walk(n))

        def seq(ss):
            for s_ in ss:
                r = one(s_)
                if r != 'none':
                    return r
            return 'none'

        def one(s_):
            if isinstance(s_, ast.For):
                if loads(s_.iter):
                    return 'use'
                if any(isinstance(m, ast.Name) and m.id == v for m in ast.walk(s_.target)):
                    return 'rebound'
                return 'use' if 'use' in (seq(s_.body), seq(s_.orelse)) else 'none'
            if isinstance(s_, ast.Assign) and len(s_.targets) == 1 and isinstance(s_.targets[0], ast.Name) and s_.targets[0].id == v:
                return 'use' if loads(s_.value) else 'rebound'
            if isinstance(s_, ast.If):
                if loads(s_.test):
                    return 'use'
                r1, r2 = seq(s_.body), seq(s_.orelse)
                if 'use' in (r1, r2):
                    return 'use'
                return 'rebound' if r1 == r2 == 'rebound' else 'none'
            return 'use' if loads(s_) else 'none'
        return seq(stmts) == 'use'

    @staticmethod
    def own_breaks(st):
        """does this for statement contain a break of its own (not of a nested loop)?"""
        def walk(nodes):
            for n in nodes:
                if isinstance(n, ast.Break):
                    return True
                if isinstance(n, (ast.For, ast.While, ast.FunctionDef)):
                    continue
                if walk(list(ast.iter_child_nodes(n))):
                    return True
            return False
        return walk(st.body)

    def block(self, stmts, env, k, ret, ind):
        """stmts: remaining statements; k(env, ind) -> text for falling off the end; ret(term, type, node) -> text"""
        pad = '  ' * ind
        if self.pending_va is not None:
            x_, cnode, knode = self.pending_va
            self.pending_va = None

            def evp():
                c_, tc_ = self.expr(cnode, env)
                k_, tk_ = self.expr(knode, env)
                if tc_ not in (CNAME, OPT(CNAME)) or tk_ != STR:
                    self.fail(cnode, 'stored list with a class of type %r under a key of type %r' % (tc_, tk_))
                return c_, tc_, k_
            (c_, tc_, k_), bindsp = self.lazy(evp)
            env = dict(env)
            env['%va:' + x_] = ('%s__vc' % x_, tc_, '%s__vk' % x_)
            env['%vo:' + x_] = True
            env.pop('%stale:' + x_, None)
            return (self.lines(bindsp, pad) + '%slet %s__vc := %s in\n%slet %s__vk := %s in\n' % (pad, x_, c_, pad, x_, k_)
                    + self.block(stmts, env, k, ret, ind))
        if not stmts:
            return k(env, ind)
        st, rest = stmts[0], stmts[1:]
        if isinstance(st, ast.Pass) or (isinstance(st, ast.Expr) and isinstance(st.value, ast.Constant)
                                        and isinstance(st.value.value, str)):
            return self.block(rest, env, k, ret, ind)
        if self.spec.state and self.spec.mutates:
            r_ = self.va_extend(st, rest, env, k, ret, ind)
            if r_ is not None:
                return r_
            if self.has_va(env) and not isinstance(st, ast.If) and any(self.mutated_state(n_, env) for n_ in ast.walk(st)):
                env = self.kill_va(env)        # the state changes: the names no longer reach its lists
            vb = self.va_binding(st, env)
            if vb is not None:
                self.pending_va = vb           # taken up by the translation of the statements that follow this one
        if isinstance(st, ast.Assign) and len(st.targets) == 1 and isinstance(st.targets[0], ast.Name) \
                and st.targets[0].id in self.spec.local_dicts and isinstance(st.value, ast.Dict) and not st.value.keys:
            x = self.var(st.targets[0].id, st)       # x = {}: a dictionary built in this function
            td = self.spec.local_dicts[x]
            env2 = dict(env)
            env2[x] = td
            return '%slet %s := (@nil (%s * %s)%%type) in\n' % (pad, x, self.ctype(td[1]), self.ctype(td[2])) + self.block(rest, env2, k, ret, ind)
        if isinstance(st, ast.Assign) and len(st.targets) == 1 and isinstance(st.targets[0], ast.Subscript) \
                and isinstance(st.targets[0].value, ast.Name) and st.targets[0].value.id in self.spec.local_dicts \
                and env.get(st.targets[0].value.id) == self.spec.local_dicts[st.targets[0].value.id] \
                and not isinstance(st.targets[0].slice, ast.Slice):
            x = st.targets[0].value.id               # x[k] = v on that dictionary
            td = env[x]

            def evd():
                v_, tv_ = self.expr(st.value, env)
                k_, tk_ = self.expr(st.targets[0].slice, env)
                return self.coerce_m(v_, tv_, td[2], st), self.coerce(k_, tk_, td[1], st)
            (v_, k_), binds = self.lazy(evd)
            return (self.lines(binds, pad) + '%slet %s := py_dict_set %s %s %s %s in\n' % (pad, x, self.eqb(td[1], st), x, k_, v_)
                    + self.block(rest, env, k, ret, ind))
        if self.opaque_only(st, env):
            return self.block(rest, env, k, ret, ind)          # numeric bookkeeping outside the translation
        if isinstance(st, ast.AugAssign) and isinstance(st.target, ast.Subscript) and isinstance(st.target.value, ast.Name) \
                and isinstance(st.target.slice, (ast.Name, ast.Constant)):
            # l[i] op= e  ->  l[i] = l[i] op e   (the index is a variable or a literal: evaluating it twice changes nothing)
            load = ast.Subscript(value=ast.Name(id=st.target.value.id, ctx=ast.Load()), slice=st.target.slice, ctx=ast.Load())
            new = ast.Assign(targets=[st.target], value=ast.BinOp(left=load, op=st.op, right=st.value))
            ast.copy_location(new, st)
            for n_ in ast.walk(new):
                ast.copy_location(n_, st)
            return self.block([new] + rest, env, k, ret, ind)
        if isinstance(st, ast.Expr) and isinstance(st.value, ast.Call) and isinstance(st.value.func, ast.Attribute) \
                and st.value.func.attr == 'append' and isinstance(st.value.func.value, ast.Name) \
                and len(st.value.args) == 1 and not st.value.keywords and st.value.func.value.id in self.fresh_lists \
                and isinstance(env.get(st.value.func.value.id), tuple) and env[st.value.func.value.id][0] == 'list':
            x = st.value.func.value.id               # x.append(e) on a list built in this function
            tx = env[x]

            def eva():
                v_, tv_ = self.expr(st.value.args[0], env)
                return self.coerce_m(v_, tv_, tx[1], st)
            v_, binds = self.lazy(eva)
            return self.lines(binds, pad) + '%slet %s := (%s ++ [%s]) in\n' % (pad, x, x, v_) + self.block(rest, env, k, ret, ind)
        if isinstance(st, ast.Assign) and len(st.targets) == 1 and isinstance(st.targets[0], ast.Name) \
                and (st.targets[0].id not in env or st.targets[0].id in self.objs) and self.obj_valued(st.value, env):
            # x = <an element of a list of instances>: x names that instance (read-only)
            x = st.targets[0].id
            if x in self.objs and not self.objs[x].get('elem'):
                self.fail(st, 'instance variable %s is already bound' % x)
            if x not in self.objs:
                self.var(x, st)
            binds, t, ty = self.stmt_expr(st.value, env)
            self.objs[x] = {'local': False, 'elem': True}
            names = ['%s__%s' % (x, a_) for a_, _ in self.spec.self_attrs] + ['%s__st' % x]
            env2 = dict(env)
            env2['%s__st' % x] = DYN
            return self.lines(binds, pad) + "%slet '(%s) := %s in\n" % (pad, ', '.join(names), t) + self.block(rest, env2, k, ret, ind)
        if isinstance(st, ast.Assign) and len(st.targets) == 1 and isinstance(st.targets[0], ast.Attribute) \
                and self.is_obj(st.targets[0].value, env) and self.is_obj(st.targets[0].value, env) != 'self' \
                and self.objs[self.is_obj(st.targets[0].value, env)]['local'] \
                and st.targets[0].attr in dict(self.spec.self_attrs) and self.spec.new_object:
            # <local instance>.<header attribute> = v: the attribute (and what is derived from it) is rebound
            ob, at = self.is_obj(st.targets[0].value, env), st.targets[0].attr
            ta_ = dict(self.spec.self_attrs)[at]
            if ta_ == OPAQUE:
                return self.block(rest, env, k, ret, ind)
            if at not in self.spec.new_object['attrs']:
                self.fail(st, 'assignment to attribute %s, which the constructor does not set' % at)

            chk = self.spec.new_object.get('setters', {}).get(at)
            if chk is None:
                self.fail(st, 'assignment to attribute %s without a declared (and verified) property setter' % at)

            def evs():
                v_, tv_ = self.expr(st.value, env)
                v_ = self.coerce_m(v_, tv_, ta_, st)
                if not chk['check']:
                    return v_, None
                nm = self.fresh('t')
                c_, tc_ = self.expr(ast.parse(chk['check'], mode='eval').body, dict(env, value=ta_))
                return v_, (nm, self.truth(c_, tc_, st))
            (v_, ck), binds = self.lazy(evs)
            text = self.lines(binds, pad)
            if ck is not None:       # the setter: `if not <check>: raise <error>`, then the store
                text += '%slet value := %s in\n%sdo %s <- (if %s then Ok tt else Err %s);\n' % (pad, v_, pad, ck[0], ck[1], EXC[chk['err']])
                v_ = 'value'
            text += '%slet %s__%s := %s in\n' % (pad, ob, at, v_)
            for a_, (fun_, fargs) in self.spec.new_object.get('derived', {}).items():
                if at in fargs:
                    text += '%sdo %s__%s <- %s %s;\n' % (pad, ob, a_, fun_, ' '.join('%s__%s' % (ob, b_) for b_ in fargs))
            return text + self.block(rest, env, k, ret, ind)
        if self.class_store(st, env) is not None:
            ob, an, bn = self.class_store(st, env)   # <instance>.<state>[a][b] = v: a whole class dictionary is replaced
            if not self.obj_mutable(ob):
                self.fail(st, 'store into an instance this function may not change')

            def evc():
                v_, tv_ = self.expr(st.value, env)
                a_, ta_ = self.expr(an, env)
                b_, tb_ = self.expr(bn, env)
                if ta_ != STR or tb_ != STR:
                    self.fail(st, 'class dictionary addressed by %r / %r' % (ta_, tb_))
                return self.coerce_m(v_, tv_, DYN, st), a_, b_
            (v_, a_, b_), binds = self.lazy(evc)
            sv = self.obj_state(ob)
            env2 = self.kill_va(env) if ob == 'self' else env
            return self.lines(binds, pad) + '%sdo %s <- dyn_setc2 %s %s %s %s;\n' % (pad, sv, sv, a_, b_, v_) + self.block(rest, env2, k, ret, ind)
        if isinstance(st, ast.Assign) and len(st.targets) == 1 and isinstance(st.targets[0], ast.Subscript) \
                and isinstance(st.targets[0].value, ast.Name) and st.targets[0].value.id in self.fresh_lists \
                and isinstance(env.get(st.targets[0].value.id), tuple) and env[st.targets[0].value.id][0] == 'list' \
                and not isinstance(st.targets[0].slice, ast.Slice):
            # l[i] = v on a list built in this function (never aliased)
            x = st.targets[0].value.id

            def ev3():
                v_, tv_ = self.expr(st.value, env)
                i_ = self.bound(st.targets[0].slice, env)
                return self.coerce(v_, tv_, env[x][1], st), i_
            (v_, i_), binds = self.lazy(ev3)
            return self.lines(binds, pad) + '%sdo %s <- py_list_set %s %s %s;\n' % (pad, x, x, i_, v_) + self.block(rest, env, k, ret, ind)
        if self.spec.new_object and isinstance(st, ast.Assign) and len(st.targets) == 1 and isinstance(st.targets[0], ast.Name):
            no = self.spec.new_object
            holes = {}
            if self.tmatch(ast.parse(no['src'], mode='eval').body, st.value, holes):
                # x = <constructor>(..): a new instance; its header attributes are let-bound, its content comes from the parameter
                x = self.var(st.targets[0].id, st)
                if x in env or ('%s__st' % x) in env or (x in self.objs and not self.objs[x]['local']):
                    self.fail(st, 'instance variable %s is already bound' % x)      # (a name left by an abandoned pass may be bound again)

                def ev4():
                    out = []
                    for a_, t_ in self.spec.self_attrs:
                        if a_ in no.get('derived_params', {}):
                            continue
                        srcv = no['attrs'].get(a_, 'self')
                        if srcv == 'self':
                            out.append((a_, self.obj_attr('self', a_)))
                        elif isinstance(srcv, int):
                            h_, th_ = self.expr(holes[srcv], env)
                            out.append((a_, self.coerce(h_, th_, t_, st)))
                    return out
                attrs, binds = self.lazy(ev4)
                self.objs[x] = {'local': True}
                text = self.lines(binds, pad)
                for a_, term in attrs:
                    text += '%slet %s__%s := %s in\n' % (pad, x, a_, term)
                cargs = ' '.join('%s__%s' % (x, a_) for a_ in no['content_args'])
                text += '%sdo %s__st <- %s %s;\n' % (pad, x, no['content'], cargs)
                for a_, (fun_, fargs) in no.get('derived', {}).items():
                    text += '%sdo %s__%s <- %s %s;\n' % (pad, x, a_, fun_, ' '.join('%s__%s' % (x, b_) for b_ in fargs))
                if (no['content'], no['content_sig']) not in self.used_tpl:
                    self.used_tpl.append((no['content'], no['content_sig']))
                for a_, (fun_, fargs, sig_) in no.get('derived_params', {}).items():
                    text += '%sdo %s__%s <- %s %s;\n' % (pad, x, a_, fun_, ' '.join('%s__%s' % (x, b_) for b_ in fargs))
                    if (fun_, sig_) not in self.used_tpl:
                        self.used_tpl.append((fun_, sig_))
                env2 = dict(env)
                env2['%s__st' % x] = DYN
                for a_, t_ in self.spec.self_attrs:       # the attributes are variables: they can be rebound (x.attr = v) and carried by loops
                    env2['%s__%s' % (x, a_)] = t_
                return text + self.block(rest, env2, k, ret, ind)
        if isinstance(st, (ast.Assign, ast.Delete)) and len(st.targets) == 1 and isinstance(st.targets[0], ast.Subscript) \
                and not isinstance(st.targets[0].slice, ast.Slice):
            # <dict inside the state>[K] = V   |   del <dict inside the state>[K]     (Python evaluates V first)
            tg = st.targets[0]

            def ev():
                v = None
                if isinstance(st, ast.Assign):
                    t_, ty_ = self.expr(st.value, env)
                    v = self.coerce_m(t_, ty_, DYN, st)
                if isinstance(tg.value, ast.Name) and isinstance(env.get(tg.value.id), tuple) and env[tg.value.id][0] == 'alias':
                    ca = (env[tg.value.id][2], env[tg.value.id][1])
                else:
                    ca = self.alias_call(tg.value, env)
                if ca is None:
                    self.fail(st, 'store / del through something else than a class dictionary of the state')
                c, ob = ca
                if not self.obj_mutable(ob):
                    self.fail(st, 'store into an instance this function may not change')
                kx, tk = self.expr(tg.slice, env)
                if tk != STR:
                    self.fail(st, 'dictionary key of type %r' % (tk,))
                return v, c, kx, self.obj_state(ob)
            (v, c, kx, sv), binds = self.lazy(ev)
            if isinstance(st, ast.Assign):
                line = '%sdo %s <- dyn_set2 %s (fst %s) (snd %s) %s %s;\n' % (pad, sv, sv, c, c, kx, v)
            else:
                line = '%sdo %s <- dyn_del2 %s (fst %s) (snd %s) %s;\n' % (pad, sv, sv, c, c, kx)
            return self.lines(binds, pad) + line + self.block(rest, env, k, ret, ind)
        if isinstance(st, ast.Expr) and isinstance(st.value, ast.Call) and isinstance(st.value.func, ast.Attribute) \
                and st.value.func.attr != 'extend' and self.is_obj(st.value.func.value, env):
            # a call for its effect on the state
            binds, t, ty = self.stmt_expr(st.value, env)
            return self.lines(binds, pad) + self.block(rest, env, k, ret, ind)
        if isinstance(st, ast.Expr) and isinstance(st.value, ast.Call) and isinstance(st.value.func, ast.Attribute) \
                and st.value.func.attr == 'extend' and isinstance(st.value.func.value, ast.Name) \
                and len(st.value.args) == 1 and not st.value.keywords:
            # x.extend(e) on a list built in this function (never aliased): x = x + list(e)
            x = st.value.func.value.id
            tx = env.get(x)
            if not (isinstance(tx, tuple) and tx[0] == 'list') or x not in self.fresh_lists:
                self.fail(st, '.extend() on something else than a list built in this function')
            binds, t, ty = self.stmt_expr(st.value.args[0], env)
            if ty == DYN:
                (t, ty), b2 = self.lazy(lambda: (self.bind('dyn_iter %s' % t), LIST(DYN)))
                binds = binds + b2
            if not (isinstance(ty, tuple) and ty[0] == 'list' and self.compat(tx, ty)):
                self.fail(st, '.extend() of a %r with a %r' % (tx, ty))
            env2 = dict(env)
            env2[x] = self.join(tx, ty)
            return self.lines(binds, pad) + '%slet %s := (%s ++ %s) in\n' % (pad, x, x, t) + self.block(rest, env2, k, ret, ind)
        if isinstance(st, ast.Assign) and len(st.targets) == 1 and isinstance(st.targets[0], ast.Name) \
                and isinstance(st.value, ast.Call) and isinstance(st.value.func, ast.Attribute) and self.is_obj(st.value.func.value, env) \
                and self.obj_mutable(self.is_obj(st.value.func.value, env)) \
                and getattr(self.registry.get((self.spec.cls, st.value.func.attr)), 'alias_path', False):
            # x = <changing instance>.get_class_dict(C): x names that dictionary (Python reads it now: KeyError / TypeError now)
            x = self.var(st.targets[0].id, st)

            def ev5():
                self.expr(st.value, env)                     # the read, for its exceptions
                return self.alias_call(st.value, env)
            (c_, ob_), binds = self.lazy(ev5)
            env2 = dict(env)
            env2[x] = ('alias', ob_, '%s__c' % x)
            return self.lines(binds, pad) + '%slet %s__c := %s in\n' % (pad, x, c_) + self.block(rest, env2, k, ret, ind)
        if isinstance(st, (ast.Assign, ast.AugAssign)):
            if isinstance(st, ast.Assign):
                if len(st.targets) != 1:
                    self.fail(st, 'chained assignment')
                tgt = st.targets[0]
                binds, t, ty = self.stmt_expr(st.value, env)
            elif isinstance(st.op, ast.Add) and isinstance(st.target, ast.Name) and isinstance(env.get(st.target.id), tuple) \
                    and env[st.target.id][0] == 'list':
                # l += e on a list built in this function: l.extend(e)
                new_st = ast.copy_location(ast.Expr(value=ast.Call(func=ast.Attribute(value=ast.Name(id=st.target.id, ctx=ast.Load()),
                                                    attr='extend', ctx=ast.Load()), args=[st.value], keywords=[])), st)
                ast.fix_missing_locations(new_st)
                return self.block([new_st] + rest, env, k, ret, ind)
            else:
                tgt = st.target
                if not (isinstance(tgt, ast.Name) and env.get(tgt.id) in (NAT, INT, DYN)):
                    self.fail(st, 'augmented assignment to something else than a known integer variable')
                (t, ty), binds = self.lazy(lambda: self.binop(st.op, (tgt.id, env[tgt.id]), st.value, st, env))
            if ty == TRUTH:
                self.fail(st, 'assignment of a value of which only the truthiness is known')
            env2 = dict(env)
            if isinstance(tgt, ast.Name) and ty == NONE:
                if isinstance(st, ast.AugAssign) or binds:
                    self.fail(st, 'unsupported assignment of None')
                env2[self.var(tgt.id, st)] = NONE          # the variable IS None until it is assigned again
                head = ''
            elif ty == NONE:
                self.fail(st, 'unsupported assignment of None')
            elif isinstance(tgt, ast.Name):
                env2[self.var(tgt.id, st)] = ty
                if isinstance(st, ast.Assign) and (isinstance(st.value, ast.List) or (isinstance(st.value, ast.BinOp) and isinstance(st.value.op, ast.Mult))
                                                   or (isinstance(st.value, ast.Call) and isinstance(st.value.func, ast.Name) and st.value.func.id == 'list')
                                                   or (isinstance(st.value, ast.Subscript) and isinstance(st.value.slice, ast.Slice)
                                                       and isinstance(ty, tuple) and ty[0] == 'list')):
                    self.fresh_lists.add(tgt.id)
                else:
                    self.fresh_lists.discard(tgt.id)
                head = '%slet %s := %s in\n' % (pad, tgt.id, t)
            elif isinstance(tgt, ast.Tuple) and len(tgt.elts) == 2 and all(isinstance(x, ast.Name) for x in tgt.elts) \
                    and isinstance(ty, tuple) and ty[0] == 'pair' and tgt.elts[0].id != tgt.elts[1].id:
                env2[self.var(tgt.elts[0].id, st)] = ty[1]
                env2[self.var(tgt.elts[1].id, st)] = ty[2]
                head = "%slet '(%s, %s) := %s in\n" % (pad, tgt.elts[0].id, tgt.elts[1].id, t)
            else:
                self.fail(st, 'unsupported assignment target')
            return self.lines(binds, pad) + head + self.block(rest, env2, k, ret, ind)
        if isinstance(st, ast.FunctionDef):
            inner = self.registry.get((self.spec.cls, self.spec.name + '.' + st.name))
            if self.spec.returns_inner != st.name or inner is None or inner.used_attrs is None or self.loop_depth:
                self.fail(st, 'inner function %s is not declared as the returned closure' % st.name)
            if not (len(rest) == 1 and isinstance(rest[0], ast.Return) and isinstance(rest[0].value, ast.Name)
                    and rest[0].value.id == st.name):
                self.fail(st, 'an inner function must be followed by `return %s` only' % st.name)
            if inner.eqs or inner.self_attrs or inner.externals or any(tv not in self.spec.tparams for tv in inner.tparams):
                self.fail(st, 'inner function with parameters the outer one cannot supply')
            args = []
            for cname_, t in inner.closure:
                if cname_ not in env:
                    self.fail(st, 'closure variable %s is not assigned on this path' % cname_)
                a, ta = self.expr(ast.Name(id=cname_, ctx=ast.Load(), lineno=st.lineno), env)
                args.append(self.coerce(a, ta, t, st))
            for p_, _ in inner.params:
                if p_ in env:
                    self.fail(st, 'parameter %s of the inner function shadows a variable of the outer one' % p_)
            return '%s%s %s %s\n' % (pad, inner.coq_name, ' '.join(args), ' '.join(p_ for p_, _ in inner.params))
        if isinstance(st, ast.Return):
            if rest:
                self.fail(rest[0], 'statement after return')
            if st.value is None:
                return pad + ret('None', NONE, st) + '\n'
            if isinstance(st.value, ast.Tuple) and len(st.value.elts) == 2 and isinstance(self.spec.ret, tuple) and self.spec.ret[0] == 'pair':
                def ev2():
                    a_, ta_ = self.expr(st.value.elts[0], env)
                    b_, tb_ = self.expr(st.value.elts[1], env)
                    return '(%s, %s)' % (self.coerce(a_, ta_, self.spec.ret[1], st), self.coerce(b_, tb_, self.spec.ret[2], st))
                t, binds = self.lazy(ev2)
                return self.lines(binds, pad) + pad + ret(t, self.spec.ret, st) + '\n'
            (t, ty), binds = self.lazy(lambda: (lambda t_, ty_: (self.coerce_m(t_, ty_, self.spec.ret, st), self.spec.ret)
                                                 if (ty_ == DYN and self.spec.ret == INT) else (t_, ty_))(*self.expr(st.value, env)))
            return self.lines(binds, pad) + pad + ret(t, ty, st) + '\n'
        if isinstance(st, ast.Raise):
            if rest:
                self.fail(rest[0], 'statement after raise')
            binds, t = self.raise_stmt(st, env)
            return self.lines(binds, pad) + pad + t + '\n'
        if isinstance(st, ast.Break):
            if not self.loop_brk or self.loop_brk[-1] is None:
                self.fail(st, 'break outside a loop')
            return self.loop_brk[-1](env, ind)
        if isinstance(st, ast.Continue):
            if not self.loop_ks:
                self.fail(st, 'continue outside a loop')
            return self.loop_ks[-1](env, ind)
        if isinstance(st, ast.Assert) and st.msg is None and not (isinstance(st.test, ast.Constant) and st.test.value is False):
            binds, t, ty = self.stmt_expr(st.test, env)
            return ('%s%sif %s then\n%s%selse\n%s  Err ECrash\n'
                    % (self.lines(binds, pad), pad, self.truth(t, ty, st.test), self.block(rest, env, k, ret, ind + 1), pad, pad))
        if isinstance(st, ast.Assert):
            if not (isinstance(st.test, ast.Constant) and st.test.value is False and st.msg is None):
                self.fail(st, 'only `assert False` is supported')
            if rest:
                self.fail(rest[0], 'statement after assert False')
            return pad + 'Err ECrash\n'
        if isinstance(st, ast.If) and self.can_fall(st.body) and self.can_fall(st.orelse) and self.big(rest) \
                and not any(isinstance(n, (ast.Continue, ast.Break)) for n in ast.walk(st)) \
                and not (self.has_va(env) and any(self.mutated_state(n, env) for n in ast.walk(st))):
            # both branches fall through into a long continuation: translate the `if` as a region with an explicit outcome
            # (Ret = a return inside it, Next = the variables it assigned) instead of copying the continuation into each branch
            saved = (self.tmp, self.size, set(self.fresh_lists))
            try:
                return self.region(st, rest, env, k, ret, ind)
            except TableError:
                self.tmp, self.size, self.fresh_lists = saved; self.pending_va = None    # e.g. the continuation needs a type narrowed by the test: copy it instead
        if isinstance(st, ast.If):
            def k2(env2, ind2):
                saved_c = self.cont_stmts
                self.cont_stmts = saved_c[:-1]          # the continuation itself is now being translated
                try:
                    return self.block(rest, env2, k, ret, ind2)
                finally:
                    self.cont_stmts = saved_c
            self.cont_stmts = self.cont_stmts + [rest]
            try:
                return self.if_inline(st, rest, env, k, k2, ret, ind)
            finally:
                self.cont_stmts = self.cont_stmts[:-1]
        return self.loops(st, rest, env, k, ret, ind)

    def if_inline(self, st, rest, env, k, k2, ret, ind):
        pad = '  ' * ind
        if True:
            c = self.norm_test(st.test)
            if isinstance(c, ast.BoolOp) and self.none_test(c.values[0], env) is not None:
                first = c.values[0]
                rest_t = c.values[1] if len(c.values) == 2 else ast.copy_location(ast.BoolOp(op=c.op, values=c.values[1:]), c)
                kind = self.none_test(first, env)
                if isinstance(c.op, ast.Or) and kind == 'is':        # if x is None or R: T else: E
                    new = ast.If(test=first, body=st.body, orelse=[ast.copy_location(ast.If(test=rest_t, body=st.body, orelse=st.orelse), st)])
                    return self.block([ast.copy_location(new, st)] + rest, env, k, ret, ind)
                if isinstance(c.op, ast.And) and kind == 'isnot':    # if x is not None and R: T else: E
                    new = ast.If(test=first, body=[ast.copy_location(ast.If(test=rest_t, body=st.body, orelse=st.orelse), st)], orelse=st.orelse)
                    return self.block([ast.copy_location(new, st)] + rest, env, k, ret, ind)
            if isinstance(c, ast.Compare) and len(c.ops) == 1 and isinstance(c.ops[0], (ast.Is, ast.IsNot)) \
                    and isinstance(c.left, ast.Name) and isinstance(c.comparators[0], ast.Constant) \
                    and c.comparators[0].value is None and isinstance(env.get(c.left.id), tuple) and env[c.left.id][0] == 'option':
                x = c.left.id
                envs = dict(env)
                envs[x] = env[x][1]
                b_none, b_some = (st.body, st.orelse) if isinstance(c.ops[0], ast.Is) else (st.orelse, st.body)
                return ('%smatch %s with\n%s| None =>\n%s%s| Some %s =>\n%s%send\n'
                        % (pad, x, pad, self.block(b_none, env, k2, ret, ind + 1), pad, x,
                           self.block(b_some, envs, k2, ret, ind + 1), pad))
            if isinstance(c, ast.Name) and isinstance(env.get(c.id), tuple) and env[c.id][0] == 'option':
                x = c.id
                envs = dict(env)
                envs[x] = env[x][1]
                inner_truth = self.truth(x, env[x][1], c)
                some = self.block(st.body, envs, k2, ret, ind + 2 if inner_truth != 'true' else ind + 1)
                if inner_truth != 'true':
                    some = '%s  if %s then\n%s%s  else\n%s' % (pad, inner_truth, some, pad, self.block(st.orelse, envs, k2, ret, ind + 2))
                return ('%smatch %s with\n%s| Some %s =>\n%s%s| None =>\n%s%send\n'
                        % (pad, x, pad, x, some, pad, self.block(st.orelse, env, k2, ret, ind + 1), pad))
            binds, t, ty = self.stmt_expr(c, env)
            env_then, pre = env, ''
            if isinstance(c, ast.Compare) and len(c.ops) == 1 and isinstance(c.ops[0], (ast.Eq, ast.In)) and isinstance(c.left, ast.Name) \
                    and isinstance(env.get(c.left.id), tuple) and env[c.left.id][0] == 'option':
                (_, trhs), _b = self.lazy(lambda: self.expr(c.comparators[0], env))
                if trhs == (env[c.left.id][1] if isinstance(c.ops[0], ast.Eq) else LIST(env[c.left.id][1])):
                    # in the branch of `x == e` (e not None) x is not None: it has its inner type (the conversion cannot fail)
                    env_then = dict(env)
                    env_then[c.left.id] = env[c.left.id][1]
                    pre = '%s  do %s <- py_the %s;\n' % (pad, c.left.id, c.left.id)
            return ('%s%sif %s then\n%s%s%selse\n%s'
                    % (self.lines(binds, pad), pad, self.truth(t, ty, c), pre, self.block(st.body, env_then, k2, ret, ind + 1), pad,
                       self.block(st.orelse, env, k2, ret, ind + 1)))

    def loops(self, st, rest, env, k, ret, ind):
        pad = '  ' * ind
        if isinstance(st, ast.For) and isinstance(st.target, ast.Name) and not st.target.id.endswith('__e'):
            saved_ = (self.tmp, self.size, list(self.binds))
            try:
                (_, ts_), _b = self.lazy(lambda: self.expr(st.iter, env))
            except TableError:
                ts_ = None
            self.tmp, self.size, self.binds = saved_
            if ts_ == LIST(OBJ):
                # a loop over instances: the loop variable is an element, bound to an instance name by the first statement
                el = ast.Name(id=st.target.id + '__e', ctx=ast.Store())
                bind_ = ast.Assign(targets=[ast.Name(id=st.target.id, ctx=ast.Store())], value=ast.Name(id=st.target.id + '__e', ctx=ast.Load()))
                new = ast.For(target=el, iter=st.iter, body=[bind_] + list(st.body), orelse=st.orelse)
                ast.copy_location(new, st)
                ast.fix_missing_locations(new)
                for n_ in ast.walk(bind_):
                    ast.copy_location(n_, st)
                return self.loops(new, rest, env, k, ret, ind)
        if isinstance(st, ast.For):
            brk = bool(st.orelse) or self.own_breaks(st)       # for/else and break: py_for_b with a third outcome
            if isinstance(st.target, ast.Name):
                xs = [self.var(st.target.id, st)]
            elif isinstance(st.target, ast.Tuple) and len(st.target.elts) == 2 and all(isinstance(x_, ast.Name) for x_ in st.target.elts) \
                    and st.target.elts[0].id != st.target.elts[1].id:
                xs = [self.var(x_.id, st) for x_ in st.target.elts]
            else:
                self.fail(st, 'unsupported loop target')
            if any(x_ in env for x_ in xs):
                self.fail(st, 'a loop variable shadows an existing variable')
            if isinstance(st.iter, ast.Tuple):        # a tuple display as the sequence: its elements, in order
                binds, seq, ts = self.stmt_expr(ast.copy_location(ast.List(elts=st.iter.elts, ctx=ast.Load()), st.iter), env)
            else:
                binds, seq, ts = self.stmt_expr(st.iter, env)
            if ts == DYN:
                (seq, ts), b2 = self.lazy(lambda: (self.bind('dyn_iter %s' % seq), LIST(DYN)))
                binds = binds + b2
            if not (isinstance(ts, tuple) and ts[0] in ('list', 'set')):
                self.fail(st, 'for over a value of type %r' % (ts,))
            env = dict(env)
            env.setdefault(ST, DYN)
            body_assigned = self.assigned_st(st.body, env)
            carried = [v for v in body_assigned if v in env]
            if any(x_ in self.assigned(st.body) for x_ in xs):
                self.fail(st, 'a loop variable is assigned in the body')
            if len(xs) == 2 and not (isinstance(ts[1], tuple) and ts[1][0] == 'pair'):
                self.fail(st, 'two loop variables over elements of type %r' % (ts[1],))
            x = xs[0] if len(xs) == 1 else "'(%s, %s)" % (xs[0], xs[1])
            # variables that survive the loop although they are first bound inside it (the loop variables, variables assigned in the
            # body): carried as an option, reading one that was never bound is UnboundLocalError (ECrash)
            following = list(st.orelse) + rest + [s_ for lst in reversed(self.cont_stmts) for s_ in lst]
            leak = [v for v in xs + [v for v in body_assigned if v not in env] if self.used_before_rebound(v, following)]

            def tup(vs):
                return 'tt' if not vs else vs[0] if len(vs) == 1 else '(%s)' % ', '.join(vs)

            def pat(vs):
                return '_' if not vs else vs[0] if len(vs) == 1 else "'(%s)" % ', '.join(vs)

            def joinall(v, types):
                t0 = None
                for t in types:
                    if t0 is None or t0 == t:
                        t0 = t
                    elif self.compat(t0, t):
                        t0 = self.join(t0, t)
                    elif t0 == NONE:
                        t0 = t if (isinstance(t, tuple) and t[0] == 'option') else OPT(t)
                    elif t == NONE and isinstance(t0, tuple) and t0[0] == 'option':
                        pass
                    elif t == NONE:
                        t0 = OPT(t0)
                    elif isinstance(t0, tuple) and t0[0] == 'option' and t0[1] == t:
                        pass
                    elif isinstance(t, tuple) and t[0] == 'option' and t[1] == t0:
                        t0 = t
                    else:
                        self.fail(st, 'loop-carried variable %s changes its type in the body (%r / %r)' % (v, t0, t))
                return t0

            def loop_env(e_):
                e2 = dict(e_)
                if len(xs) == 1:
                    e2[xs[0]] = ts[1]
                else:
                    e2[xs[0]], e2[xs[1]] = ts[1][1], ts[1][2]
                return e2

            def ret_body(t, ty, node):
                return 'Ok (%s %s)' % ('RetB' if brk else 'Ret', self.retval(t, ty, node))
            # pass 1: the types at the exits of the body
            exits = []
            saved = (self.tmp, self.size, set(self.fresh_lists))

            def k_dry(env2, ind2):
                exits.append(dict(env2))
                return ''
            self.loop_depth += 1
            self.loop_ks.append(k_dry)
            self.loop_brk.append(k_dry if brk else None)
            self.block(st.body, loop_env(env), k_dry, ret_body, ind + 2)
            self.loop_brk.pop()
            self.loop_ks.pop()
            self.loop_depth -= 1
            self.tmp, self.size, self.fresh_lists = saved; self.pending_va = None
            ctype, ltype = {}, {}
            for v in carried:
                ctype[v] = joinall(v, [env[v]] + [e_[v] for e_ in exits if v in e_])
            for v in leak:
                tys = [e_[v] for e_ in exits if v in e_]
                if not tys:
                    self.fail(st, 'variable %s is used after the loop but never bound in it' % v)
                ltype[v] = joinall(v, tys)
            state = carried + [v + '__o' for v in leak]

            def emit_exit(env2, kind, ind2):
                parts = [self.coerce(('None' if env2.get(v) == NONE else v), env2[v], ctype[v], st) for v in carried]
                for v in leak:
                    parts.append(('(Some %s)' % self.coerce(v, env2[v], ltype[v], st)) if (v in env2 and not (
                        isinstance(env2[v], tuple) and env2[v][0] == 'maybe')) else v + '__o')
                return '%sOk (%s %s)\n' % ('  ' * ind2, kind, tup(parts))

            def k_body(env2, ind2):
                return emit_exit(env2, 'NextB' if brk else 'Next', ind2)

            def k_break(env2, ind2):
                return emit_exit(env2, 'BrkB', ind2)
            env_in = dict(env)
            for v in carried:
                env_in[v] = ctype[v]
            init = tup([self.coerce(('None' if env[v] == NONE else v), env[v], ctype[v], st) for v in carried] + ['None' for _ in leak])
            self.loop_depth += 1
            self.loop_ks.append(k_body)
            self.loop_brk.append(k_break if brk else None)
            body = self.block(st.body, loop_env(env_in), k_body, ret_body, ind + 2)
            self.loop_brk.pop()
            self.loop_ks.pop()
            self.loop_depth -= 1
            c = self.fresh('c')
            env_after = dict(env_in)
            for v in leak:
                env_after[v] = ('maybe', ltype[v])
            after = self.block(rest, env_after, k, ret, ind + 1)
            rv = self.fresh('rv')
            mp = pat(state).lstrip("'")
            if brk:
                # exhausted -> the else block, then what follows; broken out of -> what follows
                if not st.orelse:
                    return ('%s%sdo %s <- py_for_b %s %s (fun %s %s =>\n%s%s  );\n%smatch %s with\n%s| RetB %s => %s\n%s| BrkB %s | NextB %s =>\n%s%send\n'
                            % (self.lines(binds, pad), pad, c, seq, init, x, pat(state), body, pad,
                               pad, c, pad, rv, ret(rv, RAW, st), pad, mp, mp, after, pad))
                orelse = self.block(list(st.orelse) + rest, env_after, k, ret, ind + 1)
                return ('%s%sdo %s <- py_for_b %s %s (fun %s %s =>\n%s%s  );\n%smatch %s with\n%s| RetB %s => %s\n%s| BrkB %s =>\n%s%s| NextB %s =>\n%s%send\n'
                        % (self.lines(binds, pad), pad, c, seq, init, x, pat(state), body, pad,
                           pad, c, pad, rv, ret(rv, RAW, st), pad, mp, after, pad, mp, orelse, pad))
            return ('%s%sdo %s <- py_for %s %s (fun %s %s =>\n%s%s  );\n%smatch %s with\n%s| Ret %s => %s\n%s| Next %s =>\n%s%send\n'
                    % (self.lines(binds, pad), pad, c, seq, init, x, pat(state), body, pad,
                       pad, c, pad, rv, ret(rv, RAW, st), pad, mp, after, pad))
        if isinstance(st, ast.While):
            if st.orelse or any(isinstance(n, (ast.Break, ast.Continue, ast.Return)) for n in ast.walk(st)) or not self.spec.while_fuel:
                self.fail(st, 'while: only plain loops (no break / continue / return / else) in a function that declares a bound')
            env = dict(env)
            env.setdefault(ST, DYN)
            carried = [v for v in self.assigned_st(st.body, env) if v in env]
            fb, fuel, tf = self.stmt_expr(ast.parse(self.spec.while_fuel, mode='eval').body, env)
            if tf != NAT:
                self.fail(st, 'the declared bound of the while loop is not a nat')

            def tup(vs):
                return 'tt' if not vs else vs[0] if len(vs) == 1 else '(%s)' % ', '.join(vs)

            def pat(vs):
                return '_' if not vs else vs[0] if len(vs) == 1 else "'(%s)" % ', '.join(vs)
            cb, ct, cty = self.stmt_expr(st.test, env)
            cond = self.wrap(cb, 'Ok %s' % self.truth(ct, cty, st.test))

            def k_w(env2, ind2):
                for v in carried:
                    if env2.get(v) != env[v]:
                        self.fail(st, 'while: variable %s changes its type' % v)
                return '%sOk (Next %s)\n' % ('  ' * ind2, tup(carried))

            def ret_w(t, ty, node):
                self.fail(node, 'return inside while')
            self.loop_ks.append(None)
            self.loop_brk.append(None)
            body = self.block(st.body, env, k_w, ret_w, ind + 2)
            self.loop_brk.pop()
            self.loop_ks.pop()
            c, rv = self.fresh('c'), self.fresh('rv')
            after = self.block(rest, env, k, ret, ind + 1)
            return ('%s%sdo %s <- py_while %s %s (fun %s => %s) (fun %s =>\n%s%s  );\n%smatch %s with\n%s| Ret %s => %s\n%s| Next %s =>\n%s%send\n'
                    % (self.lines(fb, pad), pad, c, fuel, tup(carried), pat(carried), cond, pat(carried), body, pad,
                       pad, c, pad, rv, ret(rv, RAW, st), pad, pat(carried).lstrip("'"), after, pad))
        self.fail(st, 'unsupported statement %s' % type(st).__name__)

    # ------------------------------------------------------------------ the function
    def translate(self):
        spec, fn = self.spec, self.fn
        a = fn.args
        if a.vararg or a.kwarg or a.kwonlyargs or a.posonlyargs:
            self.fail(fn, 'only plain positional parameters are supported')
        names = [x.arg for x in a.args]
        has_self = bool(spec.cls) and not spec.inner
        if has_self and spec.classmethod:
            if not names or names[0] != 'klass' or any(isinstance(n_, ast.Name) and n_.id == 'self' for n_ in ast.walk(fn)):
                self.fail(fn, 'class method without klass')
            for n_ in ast.walk(fn):          # the class is read as `self`: only class attributes and the constructor are used of it
                if isinstance(n_, ast.Name) and n_.id == 'klass':
                    n_.id = 'self'
            names = names[1:]
        elif has_self:
            if not names or names[0] != 'self':
                self.fail(fn, 'method without self')
            names = names[1:]
        if names != [p for p, _ in spec.params]:
            self.fail(fn, 'parameters %r differ from the declared %r' % (names, [p for p, _ in spec.params]))
        for d, (p, t) in zip(a.defaults, spec.params[len(spec.params) - len(a.defaults):]):
            if not (isinstance(d, ast.Constant) and d.value is None and ((isinstance(t, tuple) and t[0] == 'option') or self.is_tvar(t))):
                self.fail(fn, 'default of parameter %s must be None on an option-typed (or value-typed) parameter' % p)
        env = {}
        for p, t in spec.closure + spec.params:
            if t == OBJ:
                self.var(p, fn)
                self.objs[p] = {'local': False}
                env['%s__st' % p] = DYN
                continue
            env[self.var(p, fn)] = t
        for dec in fn.decorator_list:
            if not (isinstance(dec, ast.Name) and (dec.id == 'property' or (dec.id == 'classmethod' and spec.classmethod))):
                self.fail(fn, 'unsupported decorator')

        def k_top(env2, ind2):
            if spec.ret == UNIT:
                return '%sOk %s\n' % ('  ' * ind2, self.retval('tt', UNIT, fn))
            if spec.ret == TRUTH or (isinstance(spec.ret, tuple) and spec.ret[0] == 'option'):
                return '%sOk %s\n' % ('  ' * ind2, self.retval('None', NONE, fn))     # implicit `return None`
            self.fail(fn, 'the function can fall off its end (implicit return None)')

        def ret_top(t, ty, node):
            return 'Ok %s' % self.retval(t, ty, node)
        spec.defaults_none = [False] * (len(spec.params) - len(a.defaults)) + [True] * len(a.defaults)
        if spec.state:
            env[ST] = DYN
        body = self.block(list(fn.body), env, k_top, ret_top, 1)
        used = set(self.used)
        spec.used_attrs = [a_ for a_, _ in spec.self_attrs if a_ in used]
        order = [t_.get('param') for t_ in spec.templates] + ([spec.new_object['content']] + [v_[0] for v_ in spec.new_object.get('derived_params', {}).values()]
                                                               if spec.new_object else [])
        spec.used_tparams = sorted(self.used_tpl, key=lambda x_: order.index(x_[0]))
        spec.used_vops_ = list(self.used_vops)
        params = []
        for tv in spec.tparams:
            params.append('{%s : Type}' % tv)
        for tv in spec.tparams:
            if tv in spec.eqs:
                params.append('(%s : %s -> %s -> bool)' % (spec.eqs[tv], tv, tv))
        for ext in sorted(spec.externals):
            if ext in self.used_ext:
                name, targs, tret = spec.externals[ext]
                params.append('(%s : %s)' % (self.var(name, fn), ' -> '.join(self.ctype(t) for t in targs + [tret])))
        for tv in spec.tparams:
            for opk, opn in sorted(spec.vops.get(tv, {}).items()):
                if opn in self.used_vops:
                    params.append('(%s : %s -> bnd -> res %s)' % (self.var(opn, fn), tv, tv))
        for pn, sig in spec.used_tparams:
            params.append('(%s : %s)' % (self.var(pn, fn), sig))
        for a_, t in spec.self_attrs:
            if a_ in used:
                params.append('(self_%s : %s)' % (a_, self.ctype(t)))
        if spec.state:
            params.append('(%s : jv)' % ST)
        spec.used_obj = dict((o_, [set(v_[0]), v_[1]]) for o_, v_ in self.used_obj.items() if o_ in self.objs and not self.objs[o_]['local'])
        for p, t in spec.closure + spec.params:
            if t == OBJ:
                ua, us = spec.used_obj.get(p, [set(), False])
                for a_, ta_ in spec.self_attrs:
                    if a_ in ua:
                        params.append('(%s__%s : %s)' % (p, a_, self.ctype(ta_)))
                if us:
                    params.append('(%s__st : jv)' % p)
                continue
            params.append('(%s : %s)' % (p, self.ctype(t)))
        if spec.returns_inner:
            inner = self.registry[(spec.cls, spec.name + '.' + spec.returns_inner)]
            if inner.ret != spec.ret:
                self.fail(fn, 'declared result type differs from the one of the returned inner function')
            for p, t in inner.params:
                params.append('(%s : %s)' % (p, self.ctype(t)))
        spec.lineno = fn.lineno
        return '(* %s:%d %s%s *)\nDefinition %s %s : res %s :=\n%s.\n' % (
            spec.rel, fn.lineno, (spec.cls + '.') if spec.cls else '', spec.name + (('.' + spec.inner) if spec.inner else ''),
            spec.coq_name, ' '.join(params),
            ('(%s * jv)%%type' % self.ctype(spec.ret)) if spec.mutates else self.ctype(spec.ret), body.rstrip('\n'))


PRELUDE = ('From Coq Require Import Arith.\n'
           'From DV Require Import Common.Res Common.Str Common.PyOps2.\n'
           'Local Open Scope nat_scope.\nLocal Open Scope list_scope.\nLocal Open Scope res_scope.\n\n')


def translate_all(src, specs, extra_prelude=''):
    """Translate the declared functions in order; later ones may call earlier methods of the same class."""
    registry, out = {}, [PRELUDE.rstrip('\n') + '\n' + extra_prelude + '\n']
    for spec in specs:
        if spec.prop:
            from astlib import find_class
            cands = [st for st in find_class(src.tree(spec.rel), spec.cls).body
                     if isinstance(st, ast.FunctionDef) and st.name == spec.name
                     and any(isinstance(d, ast.Name) and d.id == 'property' for d in st.decorator_list)]
            if len(cands) != 1:
                raise TableError('expected exactly one @property getter %s.%s, found %d' % (spec.cls, spec.name, len(cands)))
            fn = cands[0]
        else:
            fn = find_func(src.tree(spec.rel), spec.name, spec.cls)
        if spec.inner:
            inner = [n for n in fn.body if isinstance(n, ast.FunctionDef) and n.name == spec.inner]
            if len(inner) != 1:
                raise TableError('%s: expected exactly one inner function %s' % (spec.name, spec.inner))
            # the variables the inner function closes over must be assigned in the outer function or be its parameters
            outer_names = set(x.arg for x in fn.args.args) | set(Tr.assigned([s_ for s_ in fn.body if s_ is not inner[0]]))
            for c, _ in spec.closure:
                if c not in outer_names:
                    raise TableError('%s: closure variable %s is not defined in %s' % (spec.inner, c, spec.name))
            free = set(n.id for n in ast.walk(inner[0]) if isinstance(n, ast.Name) and isinstance(n.ctx, ast.Load))
            bound = set(x.arg for x in inner[0].args.args) | set(Tr.assigned(inner[0].body))
            extra = free - bound - set(c for c, _ in spec.closure) - set(['len', 'int', 'min', 'max', 'range', 'all', 'ValueError',
                                                                           'IndexError', 'KeyError', 'TypeError'])
            if extra:
                raise TableError('%s: undeclared free variables %s' % (spec.inner, sorted(extra)))
            fn = inner[0]
        if spec.alias_path:
            want = ast.parse('def f(self, classification):\n    base, sub = classification\n    return self.%s[base][sub]\n' % spec.state).body[0]
            body = [s_ for s_ in fn.body if not (isinstance(s_, ast.Expr) and isinstance(s_.value, ast.Constant))]
            if [ast.dump(x) for x in body] != [ast.dump(x) for x in want.body] or [x.arg for x in fn.args.args] != ['self', 'classification']:
                raise TableError('%s: expected exactly `base, sub = classification; return self.%s[base][sub]`' % (spec.name, spec.state))
        for at_, chk_ in ((spec.new_object or {}).get('setters', {}) or {}).items():
            cls_ = [n_ for n_ in src.tree(spec.rel).body if isinstance(n_, ast.ClassDef) and n_.name == spec.cls]
            sets_ = [n_ for n_ in (cls_[0].body if cls_ else []) if isinstance(n_, ast.FunctionDef) and n_.name == at_
                     and any(isinstance(d_, ast.Attribute) and d_.attr == 'setter' and isinstance(d_.value, ast.Name) and d_.value.id == at_
                             for d_ in n_.decorator_list)]
            if len(sets_) != 1 or [x.arg for x in sets_[0].args.args] != ['self', 'value']:
                raise TableError('%s: property setter of %s not found' % (spec.name, at_))
            body_ = [s_ for s_ in sets_[0].body if not (isinstance(s_, ast.Expr) and isinstance(s_.value, ast.Constant))]
            want_ = []
            if chk_['check']:
                want_.append(ast.parse('if not %s:\n    raise %s(0)\n' % (chk_['check'], chk_['err'])).body[0])
            ok_ = len(body_) == len(want_) + 1
            if ok_ and want_:
                got_ = body_[0]
                ok_ = (isinstance(got_, ast.If) and not got_.orelse and ast.dump(got_.test) == ast.dump(want_[0].test) and len(got_.body) == 1
                       and isinstance(got_.body[0], ast.Raise) and isinstance(got_.body[0].exc, ast.Call)
                       and isinstance(got_.body[0].exc.func, ast.Name) and got_.body[0].exc.func.id == chk_['err'])
            if ok_:
                last_ = body_[-1]       # the store into the content: self._content[<literal>] = value  /  self._content[<literal>][:] = value
                tgt_ = last_.targets[0] if isinstance(last_, ast.Assign) and len(last_.targets) == 1 else None
                if isinstance(tgt_, ast.Subscript) and isinstance(tgt_.slice, ast.Slice):
                    tgt_ = tgt_.value
                ok_ = (isinstance(tgt_, ast.Subscript) and isinstance(tgt_.value, ast.Attribute) and tgt_.value.attr == spec.state
                       and isinstance(tgt_.slice, ast.Constant) and isinstance(last_.value, ast.Name) and last_.value.id == 'value')
            if not ok_:
                raise TableError('%s: the property setter of %s is not `[if not <check>: raise ..]; self.%s[..] = value`' % (spec.name, at_, spec.state))
        if spec.returns_stored:
            res_ = {'value': ('None', 'self.get_class_dict(classification)[key]'),
                    'pair': ('(None, None)', '(self.get_class_dict(classification)[key], classification)')}[spec.returns_stored]
            want = ast.parse('def f(self, key):\n    classification = self.get_classification(key)\n    if classification is None:\n'
                             '        return %s\n    return %s\n' % res_).body[0]
            body = [s_ for s_ in fn.body if not (isinstance(s_, ast.Expr) and isinstance(s_.value, ast.Constant))]
            if [ast.dump(x) for x in body] != [ast.dump(x) for x in want.body] or [x.arg for x in fn.args.args] != ['self', 'key']:
                raise TableError('%s: expected exactly the stored value of the key (and its classification)' % spec.name)
        out.append(Tr(spec, fn, registry).translate() + '\n')
        registry[(spec.cls, spec.name + (('.' + spec.inner) if spec.inner else ''))] = spec
    return ''.join(out)
