"""Fail-closed statement translator  Python function body -> typed Gallina  (shared by tools/tables/t_src_*.py).

The translation is TYPED: every Python variable gets one of the types below from the function's declared signature (class Fn)
and from the expressions assigned to it; an expression whose type the translator cannot determine, or any construct outside
the vocabulary, aborts with TableError (the check then reports a translator abort).  The meaning of every emitted primitive is
defined in coq/Common/PyOps2.v (typed values) and coq/Common/PyOps2Dyn.v (values of type `dyn`).

TYPES     nat     a Python int that is a size / period / list position: DOMAIN non-negative (a difference that would be negative is
                  `Err ECrash`)                      int   a Python int of either sign (Z), e.g. a voxel index
          bool    True / False      str  a str (code points)      Q  a number taken exactly      V  (any name in Fn.tparams) a value
          list T  a list OR tuple   set T   option T (may be None)   A * B  a 2-tuple   dict K T  (association list)
          regex   a compiled pattern = its search predicate  str -> bool          opaque / unit / msg   values never inspected
          ndarray an array = its shape (list nat)
          dyn     a runtime value of unknown type read from JSON content (Coq `jv`); operations on it are DYNAMIC (dyn_* primitives,
                  conventions in PyOps2Dyn.v: numbers are ints and bools, a float in a numeric position is outside the domain)
          truth   only the truthiness of a value is known (result of and/or over non-bools, of <regex>.search(s));
                  it can be tested, negated or returned from a function declared to return `truth`, never stored.

FUNCTIONS positional parameters only (names and order must match the declaration in Fn; a default must be None on an option- or
          value-typed parameter).  `self`: attribute reads `self.<a>` (Fn.self_attrs) become explicit parameters `self_<a>`;
          `self.<m>(args)` / `self.<property>` call the translation of that method / property getter (translated before) with the
          parameters it needs.  EXTERNAL READS (Fn.templates): an expression that matches a declared source pattern with holes
          (`self.nii_img.affine[_0, :3]`, `_0.get_dim_info()[2]`, `np.allclose(_0, _1, atol=<literal>)`, `np.array(_0)`, ...) becomes a
          parameter applied to its holes (monadic when it can raise) or a fixed Coq term.  External functions called by dotted name
          (Fn.externals, e.g. re.compile).  An inner function is translated with the variables it closes over as parameters
          (Fn.closure); a function ending with `def inner..; return inner` (Fn.returns_inner) is translated APPLIED to the parameters of
          the closure.  `values[i]` on a value of type V is the parameter Fn.vops[V]['index'].  The result type is `res <declared type>`
          (a function may fall off its end only if that is None-able: truth / option / unit).

STATEMENTS  x = e | x = None (x IS None until assigned again) | a, b = e (e a 2-tuple)
          x += e, x -= e, x *= e, x //= e, x %= e   (x an int or dyn)
          if/elif/else    tests `x is None` / `x is not None` / `not x is None` / `x` on an option-typed variable become a `match` and
                          the variable has the inner type where it is not None (also as first operand of `.. is None or ..` /
                          `.. is not None and ..`).  What follows the `if` is translated once per branch that falls through, with the
                          variable types of that branch — except when both branches fall through into a long continuation (a loop or
                          more than 3 statements): then the `if` becomes a region with an explicit outcome and the continuation
                          is emitted once.
          for x in <list expr | range(..) | enumerate(..) | iteritems(..)>: <block>   (x a name or a pair of names) -> py_for; the
                          loop-carried state is the tuple of variables assigned in the body that exist before the loop; variables
                          first assigned in the body are local to one iteration; `return` inside the body leaves the function;
                          `continue` ends the iteration; no break, no for/else
          return e | return      raise <ValueError|IndexError|KeyError|TypeError|InvalidExtensionError>(<str or message expression>)
          assert False   -> Err ECrash         pass, docstrings -> nothing
EXPRESSIONS names | int >= 0, str, None, True, False literals | 2-tuples | self.<attr> | '<literal>' % e | '<literal>' % (e1, .., en)
                          (a message; a wrong number of arguments / `%d` of a non-number is the TypeError Python raises; a 2-tuple VALUE
                          counts as two arguments)
          ==  !=  (by type: Nat.eqb, Z.eqb, str_eqb, veqb, jv_eqb, py_list_eqb, py_pair_eqb, py_option_eqb; dyn == int -> dyn_eq_int;
                   a list compared with a tuple display element-wise)      <  <=  >  >=  and chains of two (nat, int, dyn -> dyn_int)
          in / not in (right operand a list or dyn)   is None / is not None (option or dyn)   set <= set   set & set
          and / or / not  (short-circuit: operands that can raise are evaluated only when Python evaluates them; on the right of
                           `x and ...` an option-typed variable x has its inner type)
          +  (nat, int, list, str)   *  (nat, int; with a dyn operand dyn_mul)   -  //  %  (nat: monadic, ECrash on a negative result / zero
          divisor; int: + - * only)
          len(e)   int(e) (e a nat)   min / max   range(b) | range(a, b)   enumerate(e)   tuple(e) / set(e) (e a list, set or dyn)   iteritems(e)
          e[i]  (list: i a literal int, possibly negative, a nat / int expression, an option nat (None -> TypeError) or dyn; pair: 0 / 1;
                 dict: key; dyn: str key; V: Fn.vops)         e[a:b]  (no step)
          all(<cond> for v in <list expr>)   [<expr that cannot raise> for v in <list expr>]   '<literal>'.join(<list of str>)
          <regex>.search(<str>)   <ndarray>.shape
Everything that can raise becomes a monadic bind, emitted in Python's evaluation order."""
import ast, re
from astlib import TableError, find_func, cstr, cnat, cq, float_lit_exact

NAT, BOOL, TRUTH, STR, REGEX, NONE = 'nat', 'bool', 'truth', 'str', 'regex', 'none'
INT, QNUM, OPAQUE, FLOATLIT = 'int', 'Q', 'opaque', 'floatlit'
DYN, UNIT, MSG, NDARRAY = 'dyn', 'unit', 'msg', 'ndarray'


def LIST(t):
    return ('list', t)


def OPT(t):
    return ('option', t)


def PAIR(a, b):
    return ('pair', a, b)


def DICT(k, t):
    return ('dict', k, t)


def SET(t):
    return ('set', t)


CNAME = PAIR(STR, STR)

RESERVED = set('''if then else let in match with end fun do forall exists as return at using where fix cofix for Type Prop Set
Ok Err Some None true false negb andb orb tt fst snd nat bool list option unit str res bind
EValue EIndex EKey EType ECrash Ret Next BPos BNeg pslice py_index py_floordiv py_mod py_sub py_range py_all py_for
py_list_eqb py_pair_eqb py_option_eqb py_in py_join py_enumerate py_dict_get py_bound_o bnd_of_Z allclose rtol_default
dyn_int dyn_is_none dyn_eq_int dyn_getitem dyn_len dyn_iter dyn_contains dyn_index dyn_items dyn_mul py_set py_subset py_inter
jv jv_eqb JStr JInt JNull JArr JObj JBool JNum
str_eqb length app map Nat List Bool PyOps2 cname N Z Q'''.split())

EXC = {'ValueError': 'EValue', 'IndexError': 'EIndex', 'KeyError': 'EKey', 'TypeError': 'EType',
       'InvalidExtensionError': 'EInvalidExt'}


class Fn:
    """Declared signature of one translated function."""

    def __init__(self, coq_name, rel, name, ret, params, cls=None, inner=None, self_attrs=None, closure=None,
                 tparams=(), eqs=None, externals=None, returns_inner=None, templates=None, vops=None, prop=False):
        self.coq_name, self.rel, self.name, self.cls, self.inner = coq_name, rel, name, cls, inner
        self.externals = dict(externals or {})   # dotted Python name -> (Coq parameter name, [argument types], result type)
        self.returns_inner = returns_inner       # the function ends with `def <inner>..; return <inner>` (a closure)
        self.ret = ret
        self.params = list(params)               # [(python name, type)] in source order (without self)
        self.self_attrs = list(self_attrs or [])  # [(attribute, type)] -> parameters self_<attribute>, in this order
        self.closure = list(closure or [])       # [(name, type)] free variables of an inner function
        self.tparams = tuple(tparams)            # type variables
        self.eqs = dict(eqs or {})               # type variable -> name of its equality parameter
        # external READS: [dict(src=<python expression with holes _0, _1..>, holes=[types], ret=type, param=<Coq parameter
        # name or None>, fmt=<format of the Coq term, {i} = hole i> or None)]; an expression that matches `src` becomes the
        # parameter applied to its (non-opaque) holes.  A hole of type FLOATLIT matches a numeric literal (-> exact Q).
        self.templates = list(templates or [])
        self.prop = prop                         # the function is the getter of a property (decorated with @property)
        self.vops = dict(vops or {})             # type variable -> {'index': <Coq parameter  V -> bnd -> res V>}
        self.used_attrs = None                   # filled by the translation: attributes actually needed (incl. callees)
        self.used_vops_ = []
        self.used_tparams = []                   # filled by the translation: [(parameter name, Coq type)] of the templates used
        self.lineno = None


class Tr:
    def __init__(self, spec, node, registry):
        self.spec, self.fn, self.registry = spec, node, registry
        self.tmp = 0
        self.binds = []
        self.used = set()
        self.used_ext = set()
        self.used_tpl = []           # [(parameter name, Coq type text)] in order of first use
        self.used_vops = []
        self.tpl_nodes = [ast.parse(t['src'], mode='eval').body for t in spec.templates]
        self.loop_depth = 0
        self.loop_ks = []
        self.in_region = 0
        self.size = 0

    # ------------------------------------------------------------------ helpers
    def fail(self, node, why):
        raise TableError('%s: line %s: %s' % (self.spec.name if not self.spec.inner else self.spec.inner,
                                              getattr(node, 'lineno', '?'), why))

    def fresh(self, stem='t'):
        self.tmp += 1
        return '%s__%d' % (stem, self.tmp)

    def var(self, name, node):
        if name in RESERVED or re.match(r'^(t|c|x|rv)__\d*$', name) or name.endswith('_src') or name.startswith('self_') \
                or name in self.spec.eqs.values() or name in self.spec.tparams or not re.match(r'^[A-Za-z_][A-Za-z0-9_]*$', name) \
                or name == '_':
            self.fail(node, 'variable name %r collides with a name the translator emits' % name)
        return name

    def is_tvar(self, t):
        return isinstance(t, str) and t in self.spec.tparams

    def ctype(self, t):
        if t in (NAT,):
            return 'nat'
        if t == INT:
            return 'Z'
        if t == QNUM:
            return 'Q'
        if t in (OPAQUE, UNIT, MSG):
            return 'unit'
        if t == DYN:
            return 'jv'
        if t == NDARRAY:
            return '(list nat)'
        if isinstance(t, tuple) and t[0] == 'set':
            return '(list %s)' % self.ctype(t[1])
        if isinstance(t, tuple) and t[0] == 'dict':
            return '(list (%s * %s))' % (self.ctype(t[1]), self.ctype(t[2]))
        if t in (BOOL, TRUTH):
            return 'bool'
        if t == STR:
            return 'str'
        if t == REGEX:
            return '(str -> bool)'
        if self.is_tvar(t):
            return t
        if isinstance(t, tuple) and t[0] == 'list':
            return '(list %s)' % self.ctype(t[1])
        if isinstance(t, tuple) and t[0] == 'option':
            return '(option %s)' % self.ctype(t[1])
        if isinstance(t, tuple) and t[0] == 'pair':
            return '(%s * %s)%%type' % (self.ctype(t[1]), self.ctype(t[2]))
        raise TableError('%s: no Coq type for %r' % (self.spec.name, t))

    def lazy(self, f):
        """run f() with a fresh list of pending binds; returns (result of f, the binds it produced)"""
        saved, self.binds = self.binds, []
        try:
            r = f()
            b = self.binds
        finally:
            self.binds = saved
        return r, b

    @staticmethod
    def wrap(binds, tail):
        return ''.join('do %s <- %s; ' % b for b in binds) + tail

    def bind(self, rhs, stem='t'):
        t = self.fresh(stem)
        self.binds.append((t, rhs))
        return t

    def eqb(self, t, node):
        if t == NAT:
            return 'Nat.eqb'
        if t == INT:
            return 'Z.eqb'
        if t == BOOL:
            return 'Bool.eqb'
        if t == STR:
            return 'str_eqb'
        if t == DYN:
            return 'jv_eqb'
        if self.is_tvar(t):
            if t not in self.spec.eqs:
                self.fail(node, 'equality on values of type %s, which has no equality parameter' % t)
            return self.spec.eqs[t]
        if isinstance(t, tuple) and t[0] == 'list':
            return '(py_list_eqb %s)' % self.eqb(t[1], node)
        if isinstance(t, tuple) and t[0] == 'option':
            return '(py_option_eqb %s)' % self.eqb(t[1], node)
        if isinstance(t, tuple) and t[0] == 'pair':
            return '(py_pair_eqb %s %s)' % (self.eqb(t[1], node), self.eqb(t[2], node))
        self.fail(node, 'no equality for type %r' % (t,))

    def unify(self, a, ta, b, tb, node):
        """make two operands of == / in the same type: T vs option T -> Some; None vs option T -> None"""
        if ta == tb and ta != NONE:
            return a, b, ta
        if (ta, tb) == (NAT, INT):
            return '(Z.of_nat %s)' % a, b, INT
        if (ta, tb) == (INT, NAT):
            return a, '(Z.of_nat %s)' % b, INT
        if isinstance(tb, tuple) and tb[0] == 'option' and ta in (tb[1], NONE):
            return ('None' if ta == NONE else '(Some %s)' % a), b, tb
        if isinstance(ta, tuple) and ta[0] == 'option' and tb in (ta[1], NONE):
            return a, ('None' if tb == NONE else '(Some %s)' % b), ta
        self.fail(node, 'operands of different types %r and %r' % (ta, tb))

    def truth(self, t, ty, node):
        if ty in (BOOL, TRUTH):
            return t
        if ty == NAT:
            return '(negb (Nat.eqb %s 0))' % t
        if ty == INT:
            return '(negb (Z.eqb %s 0%%Z))' % t
        if ty == STR or (isinstance(ty, tuple) and ty[0] == 'list'):
            return '(negb (Nat.eqb (List.length %s) 0))' % t
        if ty == REGEX or (isinstance(ty, tuple) and ty[0] == 'pair'):
            return 'true'
        if ty == NONE:
            return 'false'
        if isinstance(ty, tuple) and ty[0] == 'option':
            return '(match %s with Some x__ => %s | None => false end)' % (t, self.truth('x__', ty[1], node))
        self.fail(node, 'truthiness of a value of type %r is not known' % (ty,))

    def coerce(self, term, ty, to, node):
        if ty == to and ty != NONE:
            return term
        if to == TRUTH:
            return self.truth(term, ty, node)
        if to == INT and ty == NAT:
            return '(Z.of_nat %s)' % term
        if to == DYN and ty == STR:
            return '(JStr %s)' % term
        if to == DYN and ty == INT:
            return '(JInt %s)' % term
        if to == DYN and ty == NAT:
            return '(JInt (Z.of_nat %s))' % term
        if to == DYN and ty == NONE:
            return 'JNull'
        if isinstance(to, tuple) and to[0] in ('list', 'set') and isinstance(ty, tuple) and ty[0] == to[0] and to[1] == DYN \
                and ty[1] in (STR, INT, NAT):
            return '(List.map (fun x__ => %s) %s)' % (self.coerce('x__', ty[1], DYN, node), term)
        if isinstance(to, tuple) and to[0] == 'option':
            if ty == NONE:
                return 'None'
            if ty == to[1]:
                return '(Some %s)' % term
        self.fail(node, 'a value of type %r where %r is expected' % (ty, to))

    def coerce_m(self, term, ty, to, node):
        """coerce, possibly with a bind: a dynamic value where an int is expected is converted (TypeError otherwise)"""
        if ty == DYN and to == INT:
            return self.bind('dyn_int %s' % term)
        return self.coerce(term, ty, to, node)

    # ------------------------------------------------------------------ expressions
    def bound(self, b, env):
        """slice bound / index -> Coq term of type bnd"""
        if isinstance(b, ast.Constant) and isinstance(b.value, int) and not isinstance(b.value, bool) and b.value >= 0:
            return '(BPos %s)' % cnat(b.value)
        if isinstance(b, ast.UnaryOp) and isinstance(b.op, ast.USub) and isinstance(b.operand, ast.Constant) \
                and isinstance(b.operand.value, int) and not isinstance(b.operand.value, bool) and b.operand.value > 0:
            return '(BNeg %s)' % cnat(b.operand.value)
        t, ty = self.expr(b, env)
        if ty == INT:
            return '(bnd_of_Z %s)' % t
        if ty == OPT(NAT):           # an index that may be None: TypeError
            return self.bind('py_bound_o %s' % t)
        if ty != NAT:
            self.fail(b, 'index / slice bound of type %r' % (ty,))
        return '(BPos %s)' % t

    # ------------------------------------------------------------------ external reads (templates)
    def tmatch(self, t, n, holes):
        if isinstance(t, ast.Name) and re.match(r'^_\d+$', t.id):
            holes[int(t.id[1:])] = n
            return True
        if type(t) is not type(n):
            return False
        for f in t._fields:
            if f in ('ctx', 'kind', 'type_comment'):
                continue
            a, b = getattr(t, f, None), getattr(n, f, None)
            if isinstance(a, list):
                if not isinstance(b, list) or len(a) != len(b) or not all(self.tmatch(x, y, holes) for x, y in zip(a, b)):
                    return False
            elif isinstance(a, ast.AST):
                if not isinstance(b, ast.AST) or not self.tmatch(a, b, holes):
                    return False
            elif a != b or type(a) is not type(b):
                return False
        return True

    def template(self, e, env):
        """-> (term, type) when e is an instance of a declared external read, else None"""
        if isinstance(e, (ast.Name, ast.Constant)):
            return None
        for tpl, node in zip(self.spec.templates, self.tpl_nodes):
            holes = {}
            if not self.tmatch(node, e, holes):
                continue
            if sorted(holes) != list(range(len(tpl['holes']))):
                self.fail(e, 'template %s: holes do not match its declaration' % tpl['src'])
            args = []
            for i, ht in enumerate(tpl['holes']):
                if ht == FLOATLIT:
                    try:
                        args.append(cq(float_lit_exact(holes[i])))
                    except TableError:
                        self.fail(e, 'template %s: hole %d must be a numeric literal' % (tpl['src'], i))
                    continue
                a, ta = self.expr(holes[i], env)
                args.append(self.coerce(a, ta, ht, holes[i]))
            if tpl.get('param'):
                sig = ' -> '.join([self.ctype(t) for t in tpl['holes'] if t not in (OPAQUE, FLOATLIT)]
                                  + [('res ' if tpl.get('monadic') else '') + self.ctype(tpl['ret'])])
                if (tpl['param'], sig) not in self.used_tpl:
                    if any(n_ == tpl['param'] for n_, _ in self.used_tpl):
                        self.fail(e, 'two external reads share the parameter %s with different types' % tpl['param'])
                    self.used_tpl.append((tpl['param'], sig))
            if tpl.get('fmt'):
                term = tpl['fmt'].format(*args)
            else:
                real = [a for a, ht in zip(args, tpl['holes']) if ht != OPAQUE]
                term = tpl['param'] if not real else '(%s %s)' % (tpl['param'], ' '.join(real))
            if tpl.get('monadic'):        # the external read can raise: its parameter returns a `res`
                return self.bind(term), tpl['ret']
            return term, tpl['ret']
        return None

    def expr(self, e, env):
        """-> (Coq term, type); everything that can raise is appended to self.binds in evaluation order"""
        self.size += 1
        if self.size > 4000:
            self.fail(e, 'translation too large')
        if isinstance(e, ast.Name):
            if e.id not in env:
                self.fail(e, 'unknown variable %s' % e.id)
            if env[e.id] == NONE:
                return 'None', NONE
            if isinstance(env[e.id], tuple) and env[e.id][0] == 'closure':
                self.fail(e, 'an inner function can only be returned')
            return e.id, env[e.id]
        if isinstance(e, ast.Constant):
            v = e.value
            if v is None:
                return 'None', NONE
            if isinstance(v, bool):
                return ('true' if v else 'false'), BOOL
            if isinstance(v, int) and v >= 0:
                return cnat(v), NAT
            if isinstance(v, str):
                return cstr(v), STR
            self.fail(e, 'unsupported literal %r' % (v,))
        r = self.template(e, env)
        if r is not None:
            return r
        if isinstance(e, ast.Tuple):
            if len(e.elts) != 2:
                self.fail(e, 'only 2-tuples are supported')
            a, ta = self.expr(e.elts[0], env)
            b, tb = self.expr(e.elts[1], env)
            if NONE in (ta, tb) or TRUTH in (ta, tb):
                self.fail(e, 'tuple component of unknown type')
            return '(%s, %s)' % (a, b), PAIR(ta, tb)
        if isinstance(e, ast.Attribute):
            if isinstance(e.value, ast.Name) and e.value.id == 'self' and 'self' not in env:
                for a, t in self.spec.self_attrs:
                    if a == e.attr:
                        self.used.add(a)
                        return 'self_' + a, t
                callee = self.registry.get((self.spec.cls, e.attr))
                if callee is not None and callee.prop:
                    return self.call_method(callee, [], env, e)
                self.fail(e, 'self.%s is not a declared attribute' % e.attr)
            v, tv = self.expr(e.value, env)
            if tv == NDARRAY and e.attr == 'shape':
                return v, LIST(NAT)
            self.fail(e, 'unsupported attribute access .%s' % e.attr)
        if isinstance(e, ast.Compare):
            return self.compare(e, env)
        if isinstance(e, ast.BoolOp):
            return self.boolop(e, 0, env)
        if isinstance(e, ast.UnaryOp) and isinstance(e.op, ast.Not):
            a, ta = self.expr(e.operand, env)
            return '(negb %s)' % self.truth(a, ta, e), BOOL
        if isinstance(e, ast.BinOp):
            return self.binop(e.op, e.left, e.right, e, env)
        if isinstance(e, ast.Call):
            return self.call(e, env)
        if isinstance(e, ast.ListComp):
            if len(e.generators) != 1 or e.generators[0].ifs or e.generators[0].is_async \
                    or not isinstance(e.generators[0].target, ast.Name):
                self.fail(e, 'list comprehension: only `[expr for v in seq]`')
            seq, ts = self.expr(e.generators[0].iter, env)
            if not (isinstance(ts, tuple) and ts[0] == 'list'):
                self.fail(e, 'comprehension over a value of type %r' % (ts,))
            v = self.var(e.generators[0].target.id, e)
            env2 = dict(env)
            env2[v] = ts[1]
            (c, tc), binds = self.lazy(lambda: self.expr(e.elt, env2))
            if binds or tc in (NONE, TRUTH):
                self.fail(e, 'comprehension element that can raise / of undetermined type')
            return '(List.map (fun %s => %s) %s)' % (v, c, seq), LIST(tc)
        if isinstance(e, ast.Subscript):
            a, ta = self.expr(e.value, env)
            if isinstance(ta, tuple) and ta[0] == 'dict' and not isinstance(e.slice, ast.Slice):
                k, tk = self.expr(e.slice, env)
                return self.bind('py_dict_get %s %s %s' % (self.eqb(ta[1], e), a, self.coerce(k, tk, ta[1], e))), ta[2]
            if isinstance(ta, tuple) and ta[0] == 'pair' and isinstance(e.slice, ast.Constant) and e.slice.value in (0, 1) \
                    and not isinstance(e.slice.value, bool):
                return '(%s %s)' % ('fst' if e.slice.value == 0 else 'snd', a), ta[1 + e.slice.value]
            if ta == DYN and not isinstance(e.slice, ast.Slice):
                k, tk = self.expr(e.slice, env)
                if tk != STR:
                    self.fail(e, 'subscript of a dynamic value with a key of type %r' % (tk,))
                return self.bind('dyn_getitem %s %s' % (a, k)), DYN
            if ta == LIST(DYN) and not isinstance(e.slice, ast.Slice) and not isinstance(e.slice, (ast.Constant, ast.UnaryOp)):
                k, tk = self.lazy(lambda: self.expr(e.slice, env))[0]
                if tk == DYN:
                    k, tk = self.expr(e.slice, env)
                    return self.bind('dyn_index %s %s' % (a, k)), DYN
            if self.is_tvar(ta) and 'index' in self.spec.vops.get(ta, {}) and not isinstance(e.slice, ast.Slice):
                op = self.spec.vops[ta]['index']
                if op not in self.used_vops:
                    self.used_vops.append(op)
                i = self.bound(e.slice, env)
                return self.bind('%s %s %s' % (op, a, i)), ta
            if not (ta == STR or (isinstance(ta, tuple) and ta[0] == 'list')):
                self.fail(e, 'subscript of a value of type %r' % (ta,))
            if isinstance(e.slice, ast.Slice):
                if e.slice.step is not None:
                    self.fail(e, 'slice with a step')
                lo = 'None' if e.slice.lower is None else '(Some %s)' % self.bound(e.slice.lower, env)
                hi = 'None' if e.slice.upper is None else '(Some %s)' % self.bound(e.slice.upper, env)
                return '(pslice %s %s %s)' % (lo, hi, a), ta
            if ta == STR:
                self.fail(e, 'indexing a string')
            i = self.bound(e.slice, env)
            return self.bind('py_index %s %s' % (a, i)), ta[1]
        self.fail(e, 'unsupported expression %s' % ast.dump(e)[:100])

    def compare(self, e, env):
        if len(e.ops) == 2 and all(isinstance(o, (ast.Lt, ast.LtE, ast.Gt, ast.GtE)) for o in e.ops):
            # a op1 b op2 c: b is evaluated once, c only when the first comparison holds
            a, ta = self.expr(e.left, env)
            b, tb = self.expr(e.comparators[0], env)
            if ta == DYN:
                a, ta = self.bind('dyn_int %s' % a), INT
            if tb == DYN:
                b, tb = self.bind('dyn_int %s' % b), INT
            r1 = self.order(e.ops[0], a, ta, b, tb, e)
            (r2, binds) = self.lazy(lambda: self.order(e.ops[1], b, tb, *self.expr(e.comparators[1], env), e))
            if binds:
                return self.bind('(if %s then %s else Ok false)' % (r1, self.wrap(binds, 'Ok %s' % r2))), BOOL
            return '(andb %s %s)' % (r1, r2), BOOL
        if len(e.ops) != 1:
            self.fail(e, 'chained comparison')
        op, rhs = e.ops[0], e.comparators[0]
        if isinstance(op, (ast.Is, ast.IsNot)):
            if not (isinstance(rhs, ast.Constant) and rhs.value is None):
                self.fail(e, '`is` with something else than None')
            a, ta = self.expr(e.left, env)
            if ta == DYN:
                return ('(dyn_is_none %s)' if isinstance(op, ast.Is) else '(negb (dyn_is_none %s))') % a, BOOL
            if not (isinstance(ta, tuple) and ta[0] == 'option'):
                self.fail(e, '`is None` on a value of type %r' % (ta,))
            yes, no = ('true', 'false') if isinstance(op, ast.Is) else ('false', 'true')
            return '(match %s with None => %s | Some _ => %s end)' % (a, yes, no), BOOL
        a, ta = self.expr(e.left, env)
        if isinstance(ta, tuple) and ta[0] == 'list' and isinstance(rhs, ast.Tuple) and isinstance(op, (ast.Eq, ast.NotEq)):
            # a list / tuple value compared with a tuple display: element-wise
            els = [self.coerce(*self.expr(x, env), ta[1], x) for x in rhs.elts]
            r = '(%s %s [%s])' % (self.eqb(ta, e), a, '; '.join(els))
            return (r if isinstance(op, ast.Eq) else '(negb %s)' % r), BOOL
        b, tb = self.expr(rhs, env)
        if isinstance(op, (ast.Eq, ast.NotEq)) and DYN in (ta, tb) and (ta in (NAT, INT) or tb in (NAT, INT)):
            d, n, tn = (a, b, tb) if ta == DYN else (b, a, ta)
            r = '(dyn_eq_int %s %s)' % (d, self.coerce(n, tn, INT, e))
            return (r if isinstance(op, ast.Eq) else '(negb %s)' % r), BOOL
        if isinstance(op, (ast.In, ast.NotIn)) and tb == DYN:
            r = self.bind('dyn_contains %s %s' % (b, self.coerce(a, ta, DYN, e)))
            return (r if isinstance(op, ast.In) else '(negb %s)' % r), BOOL
        if isinstance(op, ast.LtE) and isinstance(ta, tuple) and ta[0] == 'set' and isinstance(tb, tuple) and tb[0] == 'set':
            a, b, t = self.set_unify(a, ta, b, tb, e)
            return '(py_subset %s %s %s)' % (self.eqb(t[1], e), a, b), BOOL
        if isinstance(op, (ast.Eq, ast.NotEq)):
            a, b, t = self.unify(a, ta, b, tb, e)
            r = '(%s %s %s)' % (self.eqb(t, e), a, b)
            return (r if isinstance(op, ast.Eq) else '(negb %s)' % r), BOOL
        if isinstance(op, (ast.In, ast.NotIn)):
            if not (isinstance(tb, tuple) and tb[0] == 'list'):
                self.fail(e, '`in` with a right operand of type %r' % (tb,))
            if ta != tb[1]:
                self.fail(e, '`in`: element type %r, list of %r' % (ta, tb[1]))
            r = '(py_in %s %s %s)' % (self.eqb(ta, e), a, b)
            return (r if isinstance(op, ast.In) else '(negb %s)' % r), BOOL
        return self.order(op, a, ta, b, tb, e), BOOL

    def set_unify(self, a, ta, b, tb, e):
        if ta == tb:
            return a, b, ta
        if ta[1] == DYN:
            return a, self.coerce(b, tb, ta, e), ta
        if tb[1] == DYN:
            return self.coerce(a, ta, tb, e), b, tb
        self.fail(e, 'sets of different element types %r and %r' % (ta, tb))

    def order(self, op, a, ta, b, tb, e):
        if ta == DYN:
            a, ta = self.bind('dyn_int %s' % a), INT
        if tb == DYN:
            b, tb = self.bind('dyn_int %s' % b), INT
        if ta not in (NAT, INT) or tb not in (NAT, INT):
            self.fail(e, 'ordering comparison of %r and %r' % (ta, tb))
        m = 'Nat'
        if INT in (ta, tb):
            a, b, m = self.coerce(a, ta, INT, e), self.coerce(b, tb, INT, e), 'Z'
        if isinstance(op, ast.Lt):
            return '(%s.ltb %s %s)' % (m, a, b)
        if isinstance(op, ast.LtE):
            return '(%s.leb %s %s)' % (m, a, b)
        if isinstance(op, ast.Gt):
            return '(%s.ltb %s %s)' % (m, b, a)
        if isinstance(op, ast.GtE):
            return '(%s.leb %s %s)' % (m, b, a)
        self.fail(e, 'unsupported comparison')

    def boolop(self, e, i, env):
        """operands i.. of an and/or; operand i is evaluated here, the rest lazily"""
        is_and = isinstance(e.op, ast.And)
        v = e.values[i]
        t, ty = self.expr(v, env)
        if i == len(e.values) - 1:
            return self.truth(t, ty, v), (BOOL if ty == BOOL else TRUTH)
        narrow = is_and and isinstance(v, ast.Name) and isinstance(ty, tuple) and ty[0] == 'option'
        env2 = env
        if narrow:
            env2 = dict(env)
            env2[v.id] = ty[1]
        (r, rty), binds = self.lazy(lambda: self.boolop(e, i + 1, env2))
        outty = BOOL if (ty == BOOL and rty == BOOL) else TRUTH
        if narrow:
            inner = self.truth(v.id, ty[1], v)
            if binds:
                body = self.wrap(binds, 'Ok %s' % r)
                if inner != 'true':
                    body = 'if %s then %s else Ok false' % (inner, body)
                return self.bind('(match %s with Some %s => %s | None => Ok false end)' % (v.id, v.id, body)), outty
            body = r if inner == 'true' else '(andb %s %s)' % (inner, r)
            return '(match %s with Some %s => %s | None => false end)' % (v.id, v.id, body), outty
        tr = self.truth(t, ty, v)
        if binds:
            if is_and:
                return self.bind('(if %s then %s else Ok false)' % (tr, self.wrap(binds, 'Ok %s' % r))), outty
            return self.bind('(if %s then Ok true else %s)' % (tr, self.wrap(binds, 'Ok %s' % r))), outty
        return '(%s %s %s)' % ('andb' if is_and else 'orb', tr, r), outty

    def binop(self, op, left, right, node, env):
        if isinstance(op, ast.Mod) and isinstance(left, ast.Constant) and isinstance(left.value, str):
            return self.format(left.value, right, node, env)
        a, ta = (left if isinstance(left, tuple) else self.expr(left, env))
        b, tb = self.expr(right, env)
        if isinstance(op, ast.BitAnd) and isinstance(ta, tuple) and ta[0] == 'set' and isinstance(tb, tuple) and tb[0] == 'set':
            a, b, t = self.set_unify(a, ta, b, tb, node)
            return '(py_inter %s %s %s)' % (self.eqb(t[1], node), a, b), t
        if isinstance(op, ast.Mult) and DYN in (ta, tb) and ta in (DYN, NAT, INT) and tb in (DYN, NAT, INT):
            return self.bind('dyn_mul %s %s' % (self.coerce(a, ta, DYN, node), self.coerce(b, tb, DYN, node))), DYN
        if isinstance(op, ast.Add) and INT not in (ta, tb):
            if ta == NAT and tb == NAT:
                return '(%s + %s)%%nat' % (a, b), NAT
            if ta == tb and (ta == STR or (isinstance(ta, tuple) and ta[0] == 'list')):
                return '(%s ++ %s)' % (a, b), ta
            self.fail(node, '+ on %r and %r' % (ta, tb))
        if INT in (ta, tb) and ta in (NAT, INT) and tb in (NAT, INT) and isinstance(op, (ast.Add, ast.Mult, ast.Sub)):
            a, b = self.coerce(a, ta, INT, node), self.coerce(b, tb, INT, node)
            return '(%s %s %s)%%Z' % (a, {ast.Add: '+', ast.Mult: '*', ast.Sub: '-'}[type(op)], b), INT
        if ta != NAT or tb != NAT:
            self.fail(node, 'arithmetic on %r and %r' % (ta, tb))
        if isinstance(op, ast.Mult):
            return '(%s * %s)%%nat' % (a, b), NAT
        if isinstance(op, ast.Sub):
            return self.bind('py_sub %s %s' % (a, b)), NAT
        if isinstance(op, ast.FloorDiv):
            return self.bind('py_floordiv %s %s' % (a, b)), NAT
        if isinstance(op, ast.Mod):
            return self.bind('py_mod %s %s' % (a, b)), NAT
        self.fail(node, 'unsupported arithmetic operator %s' % type(op).__name__)

    def format(self, fmt, right, node, env):
        """'<literal>' % args -> an opaque message; a wrong number of arguments is the TypeError Python raises"""
        convs = re.findall(r'%(.)', fmt)
        if any(c not in 'srd%' for c in convs):
            self.fail(node, 'message format with a conversion other than %s / %r / %d')
        convs = [c for c in convs if c != '%']
        if isinstance(right, ast.Tuple):        # an explicit argument tuple: one argument per element
            tys = []
            for el in right.elts:
                _, tel = self.expr(el, env)
                if tel in (NONE, TRUTH):
                    self.fail(node, 'message argument of undetermined type')
                tys.append(tel)
        else:
            _, ty = self.expr(right, env)
            if isinstance(ty, tuple) and ty[0] == 'pair':
                tys = [ty[1], ty[2]]          # a 2-tuple VALUE counts as two arguments
            elif ty in (NAT, INT, STR, BOOL) or (isinstance(ty, tuple) and ty[0] == 'option' and ty[1] in (NAT, INT, STR, BOOL)):
                tys = [ty]
            else:
                self.fail(node, 'message argument of type %r (tuple or not?)' % (ty,))
        if len(convs) != len(tys) or any(c == 'd' and t not in (NAT, INT) for c, t in zip(convs, tys)):
            return self.bind('(Err EType : res unit)'), MSG     # "not all arguments converted" / "%d format: a number is required"
        return 'tt', MSG

    def call(self, e, env):
        if e.keywords or any(isinstance(a, ast.Starred) for a in e.args):
            self.fail(e, 'keyword / starred arguments')
        f = e.func
        if isinstance(f, ast.Name) and f.id not in env:
            if f.id == 'len' and len(e.args) == 1:
                a, ta = self.expr(e.args[0], env)
                if ta == DYN:
                    return self.bind('dyn_len %s' % a), NAT
                if ta == STR or (isinstance(ta, tuple) and ta[0] in ('list', 'set')):
                    return '(List.length %s)' % a, NAT
                self.fail(e, 'len() of a value of type %r' % (ta,))
            if f.id == 'int' and len(e.args) == 1:
                a, ta = self.expr(e.args[0], env)
                if ta == NAT:
                    return a, NAT
                self.fail(e, 'int() of a value of type %r' % (ta,))
            if f.id in ('min', 'max') and len(e.args) == 2:
                a, ta = self.expr(e.args[0], env)
                b, tb = self.expr(e.args[1], env)
                if ta == NAT and tb == NAT:
                    return '(Nat.%s %s %s)' % (f.id, a, b), NAT
                self.fail(e, '%s() of %r and %r' % (f.id, ta, tb))
            if f.id == 'range' and len(e.args) in (1, 2):
                args = [self.expr(a, env) for a in e.args]
                if any(t != NAT for _, t in args):
                    self.fail(e, 'range() of non-integers')
                lo, hi = ('0', args[0][0]) if len(args) == 1 else (args[0][0], args[1][0])
                return '(py_range %s %s)' % (lo, hi), LIST(NAT)
            if f.id in ('tuple', 'set') and len(e.args) == 1:
                a, ta = self.expr(e.args[0], env)
                if ta == DYN:
                    a, ta = self.bind('dyn_iter %s' % a), LIST(DYN)
                if not (isinstance(ta, tuple) and ta[0] in ('list', 'set')):
                    self.fail(e, '%s() of a value of type %r' % (f.id, ta))
                if f.id == 'tuple':
                    return a, LIST(ta[1])
                return '(py_set %s %s)' % (self.eqb(ta[1], e), a), SET(ta[1])
            if f.id == 'iteritems' and len(e.args) == 1:
                a, ta = self.expr(e.args[0], env)
                if ta != DYN:
                    self.fail(e, 'iteritems() of a value of type %r' % (ta,))
                return self.bind('dyn_items %s' % a), LIST(PAIR(STR, DYN))
            if f.id == 'enumerate' and len(e.args) == 1:
                a, ta = self.expr(e.args[0], env)
                if not (isinstance(ta, tuple) and ta[0] == 'list'):
                    self.fail(e, 'enumerate() of a value of type %r' % (ta,))
                return '(py_enumerate %s)' % a, LIST(PAIR(NAT, ta[1]))
            if f.id == 'all' and len(e.args) == 1 and isinstance(e.args[0], ast.GeneratorExp):
                g = e.args[0]
                if len(g.generators) != 1 or g.generators[0].ifs or g.generators[0].is_async \
                        or not isinstance(g.generators[0].target, ast.Name):
                    self.fail(e, 'all(): only `cond for v in seq`')
                seq, ts = self.expr(g.generators[0].iter, env)
                if not (isinstance(ts, tuple) and ts[0] == 'list'):
                    self.fail(e, 'all() over a value of type %r' % (ts,))
                v = self.var(g.generators[0].target.id, g)
                env2 = dict(env)
                env2[v] = ts[1]
                (c, tc), binds = self.lazy(lambda: self.expr(g.elt, env2))
                body = self.wrap(binds, 'Ok %s' % self.truth(c, tc, g.elt))
                return self.bind('py_all (fun %s => %s) %s' % (v, body, seq)), BOOL
            self.fail(e, 'unsupported call %s(..)' % f.id)
        if isinstance(f, ast.Attribute) and isinstance(f.value, ast.Name) and f.value.id == 'self' and 'self' not in env:
            callee = self.registry.get((self.spec.cls, f.attr))
            if callee is None or callee.used_attrs is None or callee.prop:
                self.fail(e, 'self.%s() is not a translated method' % f.attr)
            return self.call_method(callee, e.args, env, e)
        return self.call_rest(e, env)

    def call_method(self, callee, arg_nodes, env, e):
        if True:
            f = ast.Attribute(value=None, attr=callee.name)
            if len(arg_nodes) != len(callee.params):
                self.fail(e, 'self.%s(): wrong number of arguments' % f.attr)
            args = []
            for pn, sig in callee.used_tparams:
                mine_t = [t_ for t_ in self.spec.templates if t_.get('param') == pn]
                sigs = set(' -> '.join([self.ctype(t) for t in t_['holes'] if t not in (OPAQUE, FLOATLIT)]
                                       + [('res ' if t_.get('monadic') else '') + self.ctype(t_['ret'])]) for t_ in mine_t)
                if sigs != {sig}:
                    self.fail(e, 'self.%s() needs the external read %s, which this function does not declare' % (f.attr, pn))
                if (pn, sig) not in self.used_tpl:
                    self.used_tpl.append((pn, sig))
                args.append(pn)
            mine = dict(self.spec.self_attrs)
            for a, t in callee.self_attrs:
                if a in callee.used_attrs:
                    if mine.get(a) != t:
                        self.fail(e, 'self.%s() needs self.%s, which this function does not declare' % (f.attr, a))
                    self.used.add(a)
                    args.append('self_' + a)
            for x, (_, t) in zip(arg_nodes, callee.params):
                a, ta = self.expr(x, env)
                args.append(self.coerce_m(a, ta, t, x))
            if callee.tparams or callee.closure or callee.used_vops_:
                self.fail(e, 'call of a polymorphic / inner function')
            return self.bind(('%s %s' % (callee.coq_name, ' '.join(args))).rstrip()), callee.ret

    def call_rest(self, e, env):
        f = e.func
        if isinstance(f, ast.Attribute) and f.attr == 'join' and len(e.args) == 1 and isinstance(f.value, ast.Constant) \
                and isinstance(f.value.value, str):
            a, ta = self.expr(e.args[0], env)
            if ta != LIST(STR):
                self.fail(e, 'join() of a value of type %r' % (ta,))
            return '(py_join %s %s)' % (cstr(f.value.value), a), STR
        if isinstance(f, ast.Attribute) and isinstance(f.value, ast.Name) and f.value.id not in env \
                and (f.value.id + '.' + f.attr) in self.spec.externals:
            name, targs, tret = self.spec.externals[f.value.id + '.' + f.attr]
            if len(e.args) != len(targs):
                self.fail(e, '%s.%s(): wrong number of arguments' % (f.value.id, f.attr))
            args = []
            for x, t in zip(e.args, targs):
                a, ta = self.expr(x, env)
                args.append(self.coerce(a, ta, t, x))
            self.used_ext.add(f.value.id + '.' + f.attr)
            return '(%s %s)' % (name, ' '.join(args)), tret
        if isinstance(f, ast.Attribute) and f.attr == 'search' and len(e.args) == 1:
            r, tr = self.expr(f.value, env)
            k, tk = self.expr(e.args[0], env)
            if tr != REGEX or tk != STR:
                self.fail(e, '.search() on %r with an argument of type %r' % (tr, tk))
            return '(%s %s)' % (r, k), TRUTH
        self.fail(e, 'unsupported call')

    # ------------------------------------------------------------------ statements
    @staticmethod
    def assigned(stmts):
        out = []
        for st in stmts:
            for n in ast.walk(st):
                if isinstance(n, ast.Name) and isinstance(n.ctx, ast.Store) and n.id not in out:
                    out.append(n.id)
        return out

    def stmt_expr(self, e, env):
        """translate an expression at statement level -> (binds, term, type)"""
        (t, ty), binds = self.lazy(lambda: self.expr(e, env))
        return binds, t, ty

    def lines(self, binds, pad):
        return ''.join('%sdo %s <- %s;\n' % (pad, t, r) for t, r in binds)

    def raise_stmt(self, st, env):
        exc = st.exc
        if st.cause is not None or exc is None:
            self.fail(st, 'unsupported raise')
        if isinstance(exc, ast.Name):
            name, args = exc.id, []
        elif isinstance(exc, ast.Call) and isinstance(exc.func, ast.Name) and not exc.keywords:
            name, args = exc.func.id, exc.args
        else:
            self.fail(st, 'unsupported raise')
        if name not in EXC:
            self.fail(st, 'raise of %s' % name)
        if len(args) > 1:
            self.fail(st, 'exception with several arguments')
        binds = []
        if args:
            binds, _, ty = self.stmt_expr(args[0], env)
            if ty not in (STR, MSG):
                self.fail(st, 'exception message of type %r' % (ty,))
        return binds, 'Err %s' % EXC[name]

    @staticmethod
    def norm_test(c):
        """`not (x is None)` -> `x is not None` (and conversely)"""
        if isinstance(c, ast.UnaryOp) and isinstance(c.op, ast.Not) and isinstance(c.operand, ast.Compare) \
                and len(c.operand.ops) == 1 and isinstance(c.operand.ops[0], (ast.Is, ast.IsNot)):
            o = c.operand
            return ast.copy_location(ast.Compare(left=o.left, ops=[ast.IsNot() if isinstance(o.ops[0], ast.Is) else ast.Is()],
                                                 comparators=o.comparators), c)
        return c

    def none_test(self, c, env):
        """'is' / 'isnot' when c is `<option-typed variable> is [not] None`, else None"""
        c = self.norm_test(c)
        if isinstance(c, ast.Compare) and len(c.ops) == 1 and isinstance(c.ops[0], (ast.Is, ast.IsNot)) \
                and isinstance(c.left, ast.Name) and isinstance(c.comparators[0], ast.Constant) \
                and c.comparators[0].value is None and isinstance(env.get(c.left.id), tuple) and env[c.left.id][0] == 'option':
            return 'is' if isinstance(c.ops[0], ast.Is) else 'isnot'
        return None

    @staticmethod
    def can_fall(stmts):
        """can control reach the end of this block? (syntactic)"""
        stmts = [s_ for s_ in stmts if not isinstance(s_, ast.Pass)]
        if not stmts:
            return True
        last = stmts[-1]
        if isinstance(last, (ast.Return, ast.Raise, ast.Continue)):
            return False
        if isinstance(last, ast.Assert) and isinstance(last.test, ast.Constant) and last.test.value is False:
            return False
        if isinstance(last, ast.If):
            return Tr.can_fall(last.body) or Tr.can_fall(last.orelse)
        return True

    @staticmethod
    def big(stmts):
        return len(stmts) > 3 or any(isinstance(n, ast.For) for s_ in stmts for n in ast.walk(s_))

    def region(self, st, rest, env, k, ret, ind):
        pad = '  ' * ind
        carried = [v for v in self.assigned([st]) if v in env]

        def tup(vs):
            return 'tt' if not vs else vs[0] if len(vs) == 1 else '(%s)' % ', '.join(vs)

        def k_reg(env2, ind2):
            for v in carried:
                if env2.get(v) != env[v]:
                    raise TableError('region: variable %s changes its type' % v)
            return '%sOk (Next %s)\n' % ('  ' * ind2, tup(carried))

        def ret_reg(t, ty, node):
            return 'Ok (Ret %s)' % self.coerce(t, ty, self.spec.ret, node)
        inner = ast.copy_location(ast.If(test=st.test, body=st.body, orelse=st.orelse), st)
        self.in_region += 1
        try:
            body = self.block([inner], env, k_reg, ret_reg, ind + 1)
        finally:
            self.in_region -= 1
        c, rv = self.fresh('c'), self.fresh('rv')
        after = self.block(rest, env, k, ret, ind + 1)
        return ('%sdo %s <- (\n%s%s  );\n%smatch %s with\n%s| Ret %s => %s\n%s| Next %s =>\n%s%send\n'
                % (pad, c, body, pad, pad, c, pad, rv, ret(rv, self.spec.ret, st), pad, tup(carried) if carried else '_', after, pad))

    def block(self, stmts, env, k, ret, ind):
        """stmts: remaining statements; k(env, ind) -> text for falling off the end; ret(term, type, node) -> text"""
        pad = '  ' * ind
        if not stmts:
            return k(env, ind)
        st, rest = stmts[0], stmts[1:]
        if isinstance(st, ast.Pass) or (isinstance(st, ast.Expr) and isinstance(st.value, ast.Constant)
                                        and isinstance(st.value.value, str)):
            return self.block(rest, env, k, ret, ind)
        if isinstance(st, (ast.Assign, ast.AugAssign)):
            if isinstance(st, ast.Assign):
                if len(st.targets) != 1:
                    self.fail(st, 'chained assignment')
                tgt = st.targets[0]
                binds, t, ty = self.stmt_expr(st.value, env)
            else:
                tgt = st.target
                if not (isinstance(tgt, ast.Name) and env.get(tgt.id) in (NAT, INT, DYN)):
                    self.fail(st, 'augmented assignment to something else than a known integer variable')
                (t, ty), binds = self.lazy(lambda: self.binop(st.op, (tgt.id, env[tgt.id]), st.value, st, env))
            if ty == TRUTH:
                self.fail(st, 'assignment of a value of which only the truthiness is known')
            env2 = dict(env)
            if isinstance(tgt, ast.Name) and ty == NONE:
                if isinstance(st, ast.AugAssign) or binds:
                    self.fail(st, 'unsupported assignment of None')
                env2[self.var(tgt.id, st)] = NONE          # the variable IS None until it is assigned again
                head = ''
            elif ty == NONE:
                self.fail(st, 'unsupported assignment of None')
            elif isinstance(tgt, ast.Name):
                env2[self.var(tgt.id, st)] = ty
                head = '%slet %s := %s in\n' % (pad, tgt.id, t)
            elif isinstance(tgt, ast.Tuple) and len(tgt.elts) == 2 and all(isinstance(x, ast.Name) for x in tgt.elts) \
                    and isinstance(ty, tuple) and ty[0] == 'pair' and tgt.elts[0].id != tgt.elts[1].id:
                env2[self.var(tgt.elts[0].id, st)] = ty[1]
                env2[self.var(tgt.elts[1].id, st)] = ty[2]
                head = "%slet '(%s, %s) := %s in\n" % (pad, tgt.elts[0].id, tgt.elts[1].id, t)
            else:
                self.fail(st, 'unsupported assignment target')
            return self.lines(binds, pad) + head + self.block(rest, env2, k, ret, ind)
        if isinstance(st, ast.FunctionDef):
            inner = self.registry.get((self.spec.cls, self.spec.name + '.' + st.name))
            if self.spec.returns_inner != st.name or inner is None or inner.used_attrs is None or self.loop_depth:
                self.fail(st, 'inner function %s is not declared as the returned closure' % st.name)
            if not (len(rest) == 1 and isinstance(rest[0], ast.Return) and isinstance(rest[0].value, ast.Name)
                    and rest[0].value.id == st.name):
                self.fail(st, 'an inner function must be followed by `return %s` only' % st.name)
            if inner.eqs or inner.self_attrs or inner.externals or any(tv not in self.spec.tparams for tv in inner.tparams):
                self.fail(st, 'inner function with parameters the outer one cannot supply')
            args = []
            for cname_, t in inner.closure:
                if cname_ not in env:
                    self.fail(st, 'closure variable %s is not assigned on this path' % cname_)
                a, ta = self.expr(ast.Name(id=cname_, ctx=ast.Load(), lineno=st.lineno), env)
                args.append(self.coerce(a, ta, t, st))
            for p_, _ in inner.params:
                if p_ in env:
                    self.fail(st, 'parameter %s of the inner function shadows a variable of the outer one' % p_)
            return '%s%s %s %s\n' % (pad, inner.coq_name, ' '.join(args), ' '.join(p_ for p_, _ in inner.params))
        if isinstance(st, ast.Return):
            if rest:
                self.fail(rest[0], 'statement after return')
            if st.value is None:
                return pad + ret('None', NONE, st) + '\n'
            (t, ty), binds = self.lazy(lambda: (lambda t_, ty_: (self.coerce_m(t_, ty_, self.spec.ret, st), self.spec.ret)
                                                 if (ty_ == DYN and self.spec.ret == INT) else (t_, ty_))(*self.expr(st.value, env)))
            return self.lines(binds, pad) + pad + ret(t, ty, st) + '\n'
        if isinstance(st, ast.Raise):
            if rest:
                self.fail(rest[0], 'statement after raise')
            binds, t = self.raise_stmt(st, env)
            return self.lines(binds, pad) + pad + t + '\n'
        if isinstance(st, ast.Continue):
            if not self.loop_ks:
                self.fail(st, 'continue outside a loop')
            return self.loop_ks[-1](env, ind)
        if isinstance(st, ast.Assert):
            if not (isinstance(st.test, ast.Constant) and st.test.value is False and st.msg is None):
                self.fail(st, 'only `assert False` is supported')
            if rest:
                self.fail(rest[0], 'statement after assert False')
            return pad + 'Err ECrash\n'
        if isinstance(st, ast.If) and self.can_fall(st.body) and self.can_fall(st.orelse) and self.big(rest) \
                and not any(isinstance(n, ast.Continue) for n in ast.walk(st)):
            # both branches fall through into a long continuation: translate the `if` as a region with an explicit outcome
            # (Ret = a return inside it, Next = the variables it assigned) instead of copying the continuation into each branch
            saved = (self.tmp, self.size)
            try:
                return self.region(st, rest, env, k, ret, ind)
            except TableError:
                self.tmp, self.size = saved        # e.g. the continuation needs a type narrowed by the test: copy it instead
        if isinstance(st, ast.If):
            def k2(env2, ind2):
                return self.block(rest, env2, k, ret, ind2)
            c = self.norm_test(st.test)
            if isinstance(c, ast.BoolOp) and self.none_test(c.values[0], env) is not None:
                first = c.values[0]
                rest_t = c.values[1] if len(c.values) == 2 else ast.copy_location(ast.BoolOp(op=c.op, values=c.values[1:]), c)
                kind = self.none_test(first, env)
                if isinstance(c.op, ast.Or) and kind == 'is':        # if x is None or R: T else: E
                    new = ast.If(test=first, body=st.body, orelse=[ast.copy_location(ast.If(test=rest_t, body=st.body, orelse=st.orelse), st)])
                    return self.block([ast.copy_location(new, st)] + rest, env, k, ret, ind)
                if isinstance(c.op, ast.And) and kind == 'isnot':    # if x is not None and R: T else: E
                    new = ast.If(test=first, body=[ast.copy_location(ast.If(test=rest_t, body=st.body, orelse=st.orelse), st)], orelse=st.orelse)
                    return self.block([ast.copy_location(new, st)] + rest, env, k, ret, ind)
            if isinstance(c, ast.Compare) and len(c.ops) == 1 and isinstance(c.ops[0], (ast.Is, ast.IsNot)) \
                    and isinstance(c.left, ast.Name) and isinstance(c.comparators[0], ast.Constant) \
                    and c.comparators[0].value is None and isinstance(env.get(c.left.id), tuple) and env[c.left.id][0] == 'option':
                x = c.left.id
                envs = dict(env)
                envs[x] = env[x][1]
                b_none, b_some = (st.body, st.orelse) if isinstance(c.ops[0], ast.Is) else (st.orelse, st.body)
                return ('%smatch %s with\n%s| None =>\n%s%s| Some %s =>\n%s%send\n'
                        % (pad, x, pad, self.block(b_none, env, k2, ret, ind + 1), pad, x,
                           self.block(b_some, envs, k2, ret, ind + 1), pad))
            if isinstance(c, ast.Name) and isinstance(env.get(c.id), tuple) and env[c.id][0] == 'option':
                x = c.id
                envs = dict(env)
                envs[x] = env[x][1]
                inner_truth = self.truth(x, env[x][1], c)
                some = self.block(st.body, envs, k2, ret, ind + 2 if inner_truth != 'true' else ind + 1)
                if inner_truth != 'true':
                    some = '%s  if %s then\n%s%s  else\n%s' % (pad, inner_truth, some, pad, self.block(st.orelse, envs, k2, ret, ind + 2))
                return ('%smatch %s with\n%s| Some %s =>\n%s%s| None =>\n%s%send\n'
                        % (pad, x, pad, x, some, pad, self.block(st.orelse, env, k2, ret, ind + 1), pad))
            binds, t, ty = self.stmt_expr(c, env)
            return ('%s%sif %s then\n%s%selse\n%s'
                    % (self.lines(binds, pad), pad, self.truth(t, ty, c), self.block(st.body, env, k2, ret, ind + 1), pad,
                       self.block(st.orelse, env, k2, ret, ind + 1)))
        if isinstance(st, ast.For):
            if st.orelse:
                self.fail(st, 'for/else')
            for n in ast.walk(st):
                if isinstance(n, ast.Break):
                    self.fail(n, 'break')
            if isinstance(st.target, ast.Name):
                xs = [self.var(st.target.id, st)]
            elif isinstance(st.target, ast.Tuple) and len(st.target.elts) == 2 and all(isinstance(x_, ast.Name) for x_ in st.target.elts) \
                    and st.target.elts[0].id != st.target.elts[1].id:
                xs = [self.var(x_.id, st) for x_ in st.target.elts]
            else:
                self.fail(st, 'unsupported loop target')
            if any(x_ in env for x_ in xs):
                self.fail(st, 'a loop variable shadows an existing variable')
            binds, seq, ts = self.stmt_expr(st.iter, env)
            if not (isinstance(ts, tuple) and ts[0] == 'list'):
                self.fail(st, 'for over a value of type %r' % (ts,))
            carried = [v for v in self.assigned(st.body) if v in env]
            if any(x_ in self.assigned(st.body) for x_ in xs):
                self.fail(st, 'a loop variable is assigned in the body')
            if len(xs) == 2 and not (isinstance(ts[1], tuple) and ts[1][0] == 'pair'):
                self.fail(st, 'two loop variables over elements of type %r' % (ts[1],))
            x = xs[0] if len(xs) == 1 else "'(%s, %s)" % (xs[0], xs[1])

            def tup(vs):
                return 'tt' if not vs else vs[0] if len(vs) == 1 else '(%s)' % ', '.join(vs)

            def pat(vs):
                return '_' if not vs else vs[0] if len(vs) == 1 else "'(%s)" % ', '.join(vs)

            def k_body(env2, ind2):
                for v in carried:
                    if env2.get(v) != env[v]:
                        self.fail(st, 'loop-carried variable %s changes its type in the body' % v)
                return '%sOk (Next %s)\n' % ('  ' * ind2, tup(carried))

            def ret_body(t, ty, node):
                return 'Ok (Ret %s)' % self.coerce(t, ty, self.spec.ret, node)
            env_body = dict(env)
            if len(xs) == 1:
                env_body[xs[0]] = ts[1]
            else:
                env_body[xs[0]], env_body[xs[1]] = ts[1][1], ts[1][2]
            self.loop_depth += 1
            self.loop_ks.append(k_body)
            body = self.block(st.body, env_body, k_body, ret_body, ind + 2)
            self.loop_ks.pop()
            self.loop_depth -= 1
            c = self.fresh('c')
            after = self.block(rest, env, k, ret, ind + 1)
            rv = self.fresh('rv')
            # `ret` of the enclosing level re-wraps a value returned from inside the loop (already coerced)
            return ('%s%sdo %s <- py_for %s %s (fun %s %s =>\n%s%s  );\n%smatch %s with\n%s| Ret %s => %s\n%s| Next %s =>\n%s%send\n'
                    % (self.lines(binds, pad), pad, c, seq, tup(carried), x, pat(carried), body, pad,
                       pad, c, pad, rv, ret(rv, self.spec.ret, st), pad, pat(carried).lstrip("'"), after, pad))
        self.fail(st, 'unsupported statement %s' % type(st).__name__)

    # ------------------------------------------------------------------ the function
    def translate(self):
        spec, fn = self.spec, self.fn
        a = fn.args
        if a.vararg or a.kwarg or a.kwonlyargs or a.posonlyargs:
            self.fail(fn, 'only plain positional parameters are supported')
        names = [x.arg for x in a.args]
        has_self = bool(spec.cls) and not spec.inner
        if has_self:
            if not names or names[0] != 'self':
                self.fail(fn, 'method without self')
            names = names[1:]
        if names != [p for p, _ in spec.params]:
            self.fail(fn, 'parameters %r differ from the declared %r' % (names, [p for p, _ in spec.params]))
        for d, (p, t) in zip(a.defaults, spec.params[len(spec.params) - len(a.defaults):]):
            if not (isinstance(d, ast.Constant) and d.value is None and ((isinstance(t, tuple) and t[0] == 'option') or self.is_tvar(t))):
                self.fail(fn, 'default of parameter %s must be None on an option-typed (or value-typed) parameter' % p)
        env = {}
        for p, t in spec.closure + spec.params:
            env[self.var(p, fn)] = t
        for dec in fn.decorator_list:
            if not (isinstance(dec, ast.Name) and dec.id == 'property'):
                self.fail(fn, 'unsupported decorator')

        def k_top(env2, ind2):
            if spec.ret == UNIT:
                return '%sOk tt\n' % ('  ' * ind2)
            if spec.ret == TRUTH or (isinstance(spec.ret, tuple) and spec.ret[0] == 'option'):
                return '%sOk %s\n' % ('  ' * ind2, self.coerce('None', NONE, spec.ret, fn))     # implicit `return None`
            self.fail(fn, 'the function can fall off its end (implicit return None)')

        def ret_top(t, ty, node):
            return 'Ok %s' % self.coerce(t, ty, spec.ret, node)
        body = self.block(list(fn.body), env, k_top, ret_top, 1)
        used = set(self.used)
        spec.used_attrs = [a_ for a_, _ in spec.self_attrs if a_ in used]
        order = [t_.get('param') for t_ in spec.templates]
        spec.used_tparams = sorted(self.used_tpl, key=lambda x_: order.index(x_[0]))
        spec.used_vops_ = list(self.used_vops)
        params = []
        for tv in spec.tparams:
            params.append('{%s : Type}' % tv)
        for tv in spec.tparams:
            if tv in spec.eqs:
                params.append('(%s : %s -> %s -> bool)' % (spec.eqs[tv], tv, tv))
        for ext in sorted(spec.externals):
            if ext in self.used_ext:
                name, targs, tret = spec.externals[ext]
                params.append('(%s : %s)' % (self.var(name, fn), ' -> '.join(self.ctype(t) for t in targs + [tret])))
        for tv in spec.tparams:
            for opk, opn in sorted(spec.vops.get(tv, {}).items()):
                if opn in self.used_vops:
                    params.append('(%s : %s -> bnd -> res %s)' % (self.var(opn, fn), tv, tv))
        for pn, sig in spec.used_tparams:
            params.append('(%s : %s)' % (self.var(pn, fn), sig))
        for a_, t in spec.self_attrs:
            if a_ in used:
                params.append('(self_%s : %s)' % (a_, self.ctype(t)))
        for p, t in spec.closure + spec.params:
            params.append('(%s : %s)' % (p, self.ctype(t)))
        if spec.returns_inner:
            inner = self.registry[(spec.cls, spec.name + '.' + spec.returns_inner)]
            if inner.ret != spec.ret:
                self.fail(fn, 'declared result type differs from the one of the returned inner function')
            for p, t in inner.params:
                params.append('(%s : %s)' % (p, self.ctype(t)))
        spec.lineno = fn.lineno
        return '(* %s:%d %s%s *)\nDefinition %s %s : res %s :=\n%s.\n' % (
            spec.rel, fn.lineno, (spec.cls + '.') if spec.cls else '', spec.name + (('.' + spec.inner) if spec.inner else ''),
            spec.coq_name, ' '.join(params), self.ctype(spec.ret), body.rstrip('\n'))


PRELUDE = ('From Coq Require Import Arith.\n'
           'From DV Require Import Common.Res Common.Str Common.PyOps2.\n'
           'Local Open Scope nat_scope.\nLocal Open Scope list_scope.\nLocal Open Scope res_scope.\n\n')


def translate_all(src, specs, extra_prelude=''):
    """Translate the declared functions in order; later ones may call earlier methods of the same class."""
    registry, out = {}, [PRELUDE.rstrip('\n') + '\n' + extra_prelude + '\n']
    for spec in specs:
        if spec.prop:
            from astlib import find_class
            cands = [st for st in find_class(src.tree(spec.rel), spec.cls).body
                     if isinstance(st, ast.FunctionDef) and st.name == spec.name
                     and any(isinstance(d, ast.Name) and d.id == 'property' for d in st.decorator_list)]
            if len(cands) != 1:
                raise TableError('expected exactly one @property getter %s.%s, found %d' % (spec.cls, spec.name, len(cands)))
            fn = cands[0]
        else:
            fn = find_func(src.tree(spec.rel), spec.name, spec.cls)
        if spec.inner:
            inner = [n for n in fn.body if isinstance(n, ast.FunctionDef) and n.name == spec.inner]
            if len(inner) != 1:
                raise TableError('%s: expected exactly one inner function %s' % (spec.name, spec.inner))
            # the variables the inner function closes over must be assigned in the outer function or be its parameters
            outer_names = set(x.arg for x in fn.args.args) | set(Tr.assigned([s_ for s_ in fn.body if s_ is not inner[0]]))
            for c, _ in spec.closure:
                if c not in outer_names:
                    raise TableError('%s: closure variable %s is not defined in %s' % (spec.inner, c, spec.name))
            free = set(n.id for n in ast.walk(inner[0]) if isinstance(n, ast.Name) and isinstance(n.ctx, ast.Load))
            bound = set(x.arg for x in inner[0].args.args) | set(Tr.assigned(inner[0].body))
            extra = free - bound - set(c for c, _ in spec.closure) - set(['len', 'int', 'min', 'max', 'range', 'all', 'ValueError',
                                                                           'IndexError', 'KeyError', 'TypeError'])
            if extra:
                raise TableError('%s: undeclared free variables %s' % (spec.inner, sorted(extra)))
            fn = inner[0]
        out.append(Tr(spec, fn, registry).translate() + '\n')
        registry[(spec.cls, spec.name + (('.' + spec.inner) if spec.inner else ''))] = spec
    return ''.join(out)
