"""Mini translator Python -> Gallina for the two TM-string functions (dcmstack.dcm_time_to_sec,
extract.tm_to_seconds).  It accepts ONLY this statement/expression vocabulary and aborts on anything
else (fail-closed):
  statements:  x = <expr> | x += <expr> | if <name> > <int>: <one assignment> | return float(<name>)
  expressions: name | int const | int(<e>) | float(<e>) | len(<name>) | <name>.replace(<str>, <str>)
               | <name>[a:b] (constant non-negative bounds, either may be omitted) | <e> * <e> | <e> + <e>
Numeric variables are translated to the dynamic type `pynum` (int or float) of Common/PyOps.v, so
Python's int -> float promotion by `+=` is preserved.  Every int()/float() call becomes a monadic bind.
The hand model (coq/Time/Model.v) is then PROVED equal to the generated definitions (coq/Time/SrcEq.v),
so an edit of either Python function inside the vocabulary re-checks the C20 theorems against what the
code says now, and an edit outside it aborts the translation."""
import ast
from astlib import *
WHAT = "dcmstack.dcm_time_to_sec, extract.tm_to_seconds (function bodies, translated statement by statement)"


class Tr:
    def __init__(self, fn):
        self.fn = fn
        self.tmp = 0
        self.types = {}      # python variable -> 'str' | 'nat' | 'num'
        self.binds = []      # pending monadic binds for the statement being translated

    def fail(self, node, why):
        raise TableError('%s: line %s: %s' % (self.fn.name, getattr(node, 'lineno', '?'), why))

    def fresh(self):
        self.tmp += 1
        return 't%d' % self.tmp

    def expr(self, e):
        """returns (coq term, type)"""
        if isinstance(e, ast.Name):
            if e.id not in self.types:
                self.fail(e, 'unknown variable %s' % e.id)
            return e.id, self.types[e.id]
        if isinstance(e, ast.Constant) and isinstance(e.value, int) and not isinstance(e.value, bool):
            return '(PI %s)' % cz(e.value), 'num'
        if isinstance(e, ast.Call) and isinstance(e.func, ast.Name) and len(e.args) == 1 and not e.keywords:
            a, ta = self.expr(e.args[0])
            if e.func.id == 'int' and ta == 'str':
                t = self.fresh(); self.binds.append((t, 'py_int %s' % a)); return '(PI %s)' % t, 'num'
            if e.func.id == 'float' and ta == 'str':
                t = self.fresh(); self.binds.append((t, 'py_float %s' % a)); return '(PF %s)' % t, 'num'
            if e.func.id == 'len' and ta == 'str':
                return '(length %s)' % a, 'nat'
            self.fail(e, 'unsupported call %s(%s)' % (e.func.id, ta))
        if isinstance(e, ast.Call) and isinstance(e.func, ast.Attribute) and e.func.attr == 'replace' and len(e.args) == 2 and not e.keywords:
            a, ta = self.expr(e.func.value)
            if ta != 'str' or not all(isinstance(x, ast.Constant) and isinstance(x.value, str) for x in e.args):
                self.fail(e, 'replace needs a string receiver and two string literals')
            return '(str_replace %s %s %s)' % (a, cstr(e.args[0].value), cstr(e.args[1].value)), 'str'
        if isinstance(e, ast.Subscript) and isinstance(e.slice, ast.Slice) and e.slice.step is None:
            a, ta = self.expr(e.value)
            if ta != 'str':
                self.fail(e, 'slice of a non-string')
            def bound(b):
                if b is None:
                    return 'None'
                if isinstance(b, ast.Constant) and isinstance(b.value, int) and b.value >= 0:
                    return '(Some %s)' % cnat(b.value)
                self.fail(e, 'slice bound is not a non-negative integer literal')
            return '(py_slice %s %s %s)' % (bound(e.slice.lower), bound(e.slice.upper), a), 'str'
        if isinstance(e, ast.BinOp) and isinstance(e.op, (ast.Mult, ast.Add)):
            a, ta = self.expr(e.left)
            b, tb = self.expr(e.right)
            if ta != 'num' or tb != 'num':
                self.fail(e, 'arithmetic on non-numbers')
            return '(%s %s %s)' % ('py_mul' if isinstance(e.op, ast.Mult) else 'py_add', a, b), 'num'
        self.fail(e, 'unsupported expression %s' % ast.dump(e)[:80])

    def assign(self, st):
        """x = e | x += e  -> (target, coq term with binds wrapped, type)"""
        self.binds = []
        if isinstance(st, ast.Assign) and len(st.targets) == 1 and isinstance(st.targets[0], ast.Name):
            tgt = st.targets[0].id
            term, ty = self.expr(st.value)
        elif isinstance(st, ast.AugAssign) and isinstance(st.op, ast.Add) and isinstance(st.target, ast.Name):
            tgt = st.target.id
            if self.types.get(tgt) != 'num':
                self.fail(st, '+= on a non-number')
            rhs, ty = self.expr(st.value)
            if ty != 'num':
                self.fail(st, '+= with a non-number')
            term = '(py_add %s %s)' % (tgt, rhs)
        else:
            self.fail(st, 'unsupported statement')
        return tgt, term, ty, list(self.binds)

    def translate(self):
        fn = self.fn
        if len(fn.args.args) != 1 or fn.args.vararg or fn.args.kwarg or fn.args.defaults:
            self.fail(fn, 'expected exactly one positional parameter')
        param = fn.args.args[0].arg
        self.types[param] = 'str'
        body = list(fn.body)
        if body and isinstance(body[0], ast.Expr) and isinstance(body[0].value, ast.Constant) and isinstance(body[0].value.value, str):
            body = body[1:]      # docstring
        lines = []
        if not body or not isinstance(body[-1], ast.Return):
            self.fail(fn, 'function must end with a return')
        for st in body[:-1]:
            if isinstance(st, (ast.Assign, ast.AugAssign)):
                tgt, term, ty, binds = self.assign(st)
                for t, rhs in binds:
                    lines.append('do %s <- %s;' % (t, rhs))
                lines.append('let %s := %s in' % (tgt, term))
                self.types[tgt] = ty
            elif isinstance(st, ast.If) and not st.orelse and len(st.body) == 1:
                c = st.test
                if not (isinstance(c, ast.Compare) and len(c.ops) == 1 and isinstance(c.ops[0], ast.Gt) and isinstance(c.left, ast.Name)
                        and self.types.get(c.left.id) == 'nat' and isinstance(c.comparators[0], ast.Constant)
                        and isinstance(c.comparators[0].value, int) and c.comparators[0].value >= 0):
                    self.fail(st, 'condition must be <nat variable> > <int literal>')
                tgt, term, ty, binds = self.assign(st.body[0])
                if self.types.get(tgt) != ty:
                    self.fail(st, 'conditional assignment must keep the variable kind')
                inner = ' '.join('do %s <- %s;' % b for b in binds) + ' Ok %s' % term
                lines.append('do %s <- (if Nat.ltb %s %s then %s else Ok %s);' % (tgt, cnat(c.comparators[0].value), c.left.id, inner.strip(), tgt))
            else:
                self.fail(st, 'unsupported statement')
        ret = body[-1].value
        if not (isinstance(ret, ast.Call) and isinstance(ret.func, ast.Name) and ret.func.id == 'float' and len(ret.args) == 1
                and isinstance(ret.args[0], ast.Name) and self.types.get(ret.args[0].id) == 'num'):
            self.fail(body[-1], 'return must be float(<number variable>)')
        lines.append('Ok (py_to_float %s).' % ret.args[0].id)
        return param, lines


def emit(src):
    out = 'From DV Require Import Common.Res Common.Str Common.F64 Common.PyNum Common.PyOps.\nLocal Open Scope res_scope.\n\n'
    for rel, name in (('src/dcmstack/dcmstack.py', 'dcm_time_to_sec'), ('src/dcmstack/extract.py', 'tm_to_seconds')):
        fn = find_func(src.tree(rel), name)
        param, lines = Tr(fn).translate()
        out += '(* %s:%d %s *)\nDefinition %s_src (%s : str) : res fval :=\n  %s\n\n' % (rel, fn.lineno, name, name, param, '\n  '.join(lines))
    return out
