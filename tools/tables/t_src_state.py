"""The single-key MUTATORS of DcmMetaExtension (dcmmeta.py), TRANSLATED into Gallina in STATE-PASSING style (translator and
vocabulary: tools/tables/py2coq.py; primitives: coq/Common/PyOps2.v, PyOps2Dyn.v).

The state is the content dictionary  self._content : dyn  (Coq variable st__), threaded through every statement; a function
that changes it returns  res (result * state).  Stores go through the class dictionaries:
    self.get_class_dict(C)[k] = v   ->  st__ <- dyn_set2 st__ (fst C) (snd C) k v        del self.get_class_dict(C)[k]  ->  dyn_del2
(get_class_dict is checked to be exactly `base, sub = classification; return self._content[base][sub]`).
The HEADER is not part of the state: self.shape / self.n_slices / self.classifications and the class tables are typed
parameters as in t_src_ext.py, and get_valid_classes / get_multiplicity / _get_const_period / is_constant / is_repeating are
the translations of coq/Generated/T_src_ext.v (imported).
Translated: get_classification, get_class_dict, get_values_and_class, get_values, get_keys, _get_changed_class (readers of the state),
_change_class, _simplify (state-changing), _global_slice_subset, _copy_slice, _copy_sample, get_subset (stage C: two instances),
_insert_slice, _insert_non_slice, _insert_sample, _insert (stage D: the content of `other` is threaded too) and from_sequence
(a class method over a list of instances).
coq/Ext/SrcEqState.v, SrcEqSubset.v, SrcEqSample.v, SrcEqGetSubset.v, SrcEqInsert.v, SrcEqInsertAll.v, SrcEqFromSeq.v prove that on
contents that hold the per-key states of the model they compute what the per-key functions of Ext/Model.v compute."""
from astlib import *      # noqa: F401,F403
from py2coq import Fn, translate_all, NAT, BOOL, STR, DYN, UNIT, OPAQUE, OBJ, LIST, OPT, PAIR, DICT, CNAME, TOKEN

WHAT = ("dcmmeta.DcmMetaExtension.get_classification, get_class_dict, get_values_and_class, _get_changed_class, _change_class, "
        "_simplify, get_subset, _copy_slice, _copy_sample, _insert*, from_sequence (state-passing translation by tools/tables/py2coq.py)")

SRC = 'src/dcmstack/dcmmeta.py'
CLS = 'DcmMetaExtension'
ATTRS = [('classifications', LIST(CNAME)), ('shape', LIST(NAT)), ('slice_dim', OPT(NAT)), ('n_slices', OPT(NAT)),
         ('affine', OPAQUE), ('reorient_transform', OPAQUE),
         ('_preserving_changes', DICT(OPT(CNAME), LIST(CNAME))), ('_const_tests', DICT(OPT(CNAME), LIST(CNAME))),
         ('_repeat_tests', DICT(OPT(CNAME), LIST(CNAME)))]
# the slice normal (a property: None without a slice dimension, else a row of the affine) is numeric data outside the translation:
# a token, None-able, compared only by np.allclose
ATTRS_N = ATTRS + [('slice_normal', OPT(TOKEN))]
HDR = ['classifications', 'shape', 'n_slices']
IMPORTS = {
    'self.get_valid_classes': dict(coq='get_valid_classes_src', attrs=['classifications', 'shape'], params=[], ret=LIST(CNAME)),
    'self.get_multiplicity': dict(coq='get_multiplicity_src', attrs=HDR, params=[CNAME], ret=NAT),
    'is_constant': dict(coq='is_constant_src jv_eqb', attrs=[], params=[LIST(DYN), OPT(NAT)], ret=BOOL),
    'is_repeating': dict(coq='is_repeating_src jv_eqb', attrs=[], params=[LIST(DYN), NAT], ret=BOOL),
}


def specs():
    def fn(coq, name, ret, params=(), **kw):
        return Fn(coq, SRC, name, ret, list(params), cls=CLS, self_attrs=ATTRS, state='_content', imports=IMPORTS, **kw)
    return [
        fn('get_classification_st', 'get_classification', OPT(CNAME), [('key', STR)]),
        fn('get_class_dict_st', 'get_class_dict', DYN, [('classification', CNAME)], alias_path=True),
        fn('get_values_and_class_st', 'get_values_and_class', PAIR(DYN, OPT(CNAME)), [('key', STR)], returns_stored='pair'),
        fn('get_changed_class_st', '_get_changed_class', DYN, [('key', STR), ('new_class', CNAME), ('slice_dim', OPT(NAT))]),
        fn('change_class_st', '_change_class', UNIT, [('key', STR), ('new_class', CNAME)], mutates=True),
        # the period, for a source class that may still be None as far as the types know
        Fn('get_const_period_o', SRC, '_get_const_period', OPT(NAT), [('src_cls', OPT(CNAME)), ('dest_cls', CNAME)], cls=CLS,
           self_attrs=ATTRS, imports=IMPORTS),
        fn('simplify_st', '_simplify', BOOL, [('key', STR)], mutates=True),
        # stage C: the subset operations (two instances: self is changed, `other` is read)
        fn('global_slice_subset_st', '_global_slice_subset', DYN, [('key', STR), ('sample_base', STR), ('idx', NAT)]),
        fn('copy_slice_st', '_copy_slice', UNIT, [('other', OBJ), ('src_class', CNAME), ('idx', NAT)], mutates=True),
        fn('copy_sample_st', '_copy_sample', UNIT, [('other', OBJ), ('src_class', CNAME), ('sample_base', STR), ('idx', NAT)], mutates=True),
        fn('get_subset_st', 'get_subset', DYN, [('dim', NAT), ('idx', NAT)], while_fuel='len(result_shape)',
           new_object=dict(src='self.make_empty(_0, _1, _2, _3)', attrs={'shape': 0, 'affine': 1, 'reorient_transform': 2, 'slice_dim': 3},
                           content='make_empty_content', content_args=['shape', 'slice_dim'],
                           content_sig='(list nat) -> (option nat) -> res jv',
                           derived={'n_slices': ('n_slices_src', ['shape', 'slice_dim'])})),
        # stage D: the insertion of one key of `other` (two instances; lists of the state are extended in place)
        fn('get_values_st', 'get_values', DYN, [('key', STR)], returns_stored='value'),
        fn('get_changed_class_o', '_get_changed_class', DYN, [('key', STR), ('new_class', OPT(CNAME)), ('slice_dim', OPT(NAT))]),
        fn('insert_slice_st', '_insert_slice', UNIT, [('key', STR), ('other', OBJ)], mutates=True, alias_vars=['local_vals']),
        fn('insert_non_slice_st', '_insert_non_slice', UNIT, [('key', STR), ('other', OBJ)], mutates=True),
        fn('insert_sample_st', '_insert_sample', UNIT, [('key', STR), ('other', OBJ), ('sample_base', STR)], mutates=True,
           alias_vars=['local_vals']),
        # _insert(dim, other): per-slice meta data of `other` is set aside and put back (its content is threaded, not returned)
        fn('change_class_o', '_change_class', UNIT, [('key', STR), ('new_class', OPT(CNAME))], mutates=True),
        fn('get_keys_st', 'get_keys', LIST(STR)),
        Fn('insert_st', SRC, '_insert', UNIT, [('dim', NAT), ('other', OBJ)], cls=CLS, self_attrs=ATTRS_N, state='_content', imports=IMPORTS,
           mutates=True, mutable_objs=['other'], local_dicts={'other_slc_meta': DICT(CNAME, DYN)}),
        # from_sequence(klass, seq, dim, affine, slice_dim): a list of instances; the result is made by make_empty (content and slice
        # normal token: parameters), the bookkeeping of affine / reorient_transform is numeric data outside the translation
        Fn('from_sequence_st', SRC, 'from_sequence', DYN, [('seq', LIST(OBJ)), ('dim', NAT), ('affine', OPT(OPAQUE)), ('slice_dim', OPT(NAT))],
           cls=CLS, self_attrs=ATTRS_N, state='_content', imports=IMPORTS, classmethod=True, while_fuel='dim + 1',
           opaque_vars=['affine', 'reorient_transform'],
           new_object=dict(src='self.make_empty(_0, _1, _2, _3)', attrs={'shape': 0, 'affine': 1, 'reorient_transform': 2, 'slice_dim': 3},
                           content='make_empty_content', content_args=['shape', 'slice_dim'],
                           content_sig='(list nat) -> (option nat) -> res jv',
                           derived={'n_slices': ('n_slices_src', ['shape', 'slice_dim'])},
                           derived_params={'slice_normal': ('make_empty_normal', ['slice_dim'], '(option nat) -> res (option nat)')},
                           # result.shape = v goes through the property setter (checked on the source); the header entries of the
                           # content (dcmmeta_shape ..) are not part of the translated state
                           setters={'shape': dict(check='(3 <= len(value) < 6)', err='ValueError')})),
    ]


def emit(src):
    return translate_all(src, specs(), extra_prelude='From DV Require Import Common.Jv Common.PyOps2Dyn Generated.T_src_ext.\n')
