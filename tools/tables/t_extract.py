"""Tables of src/dcmstack/extract.py used by the C15 model (coq/Extract/Model.v).

Everything is read from the AST (never imported) and the *shape* of every function that carries a
constant is checked, so that an edit which changes the meaning of a rule (not just a number) aborts the
translation instead of silently producing a table for different code (fail closed)."""
import ast
from astlib import *  # noqa: F401,F403

WHAT = ("extract.ignore_private / ignore_pixel_data / ignore_overlay_data / ignore_color_lut_data (constants), "
        "default_ignore_rules, unpack_vr_map, default_conversions (VR -> converter name), "
        "csa_image_trans, csa_series_trans, default_translators, utils.unicode_str")

SRC = 'src/dcmstack/extract.py'
UTILS = 'src/dcmstack/utils.py'
RULE_NAMES = ('ignore_private', 'ignore_pixel_data', 'ignore_overlay_data', 'ignore_color_lut_data')
CONVERTERS = ('float', 'int', 'str', 'get_text', 'unicode_str')


def _dump(n):
    return ast.dump(n)


def _is_attr_chain(node, chain):
    """node is  a.b.c  for chain ['a','b','c']"""
    for name in reversed(chain[1:]):
        if not (isinstance(node, ast.Attribute) and node.attr == name):
            return False
        node = node.value
    return isinstance(node, ast.Name) and node.id == chain[0]


def _int(node, what):
    v = lit(node)
    if not isinstance(v, int) or isinstance(v, bool) or v < 0:
        raise TableError('%s: expected a non-negative integer literal, got %r' % (what, v))
    return v


def _single_return(fn):
    """The function body must be (docstring)? + one `return <expr>`; returns <expr>."""
    body = list(fn.body)
    if body and isinstance(body[0], ast.Expr) and isinstance(body[0].value, ast.Constant) and isinstance(body[0].value.value, str):
        body = body[1:]
    if len(body) != 1 or not isinstance(body[0], ast.Return) or body[0].value is None:
        raise TableError('%s: expected a body consisting of a single return statement' % fn.name)
    return body[0].value


def _one_arg(fn):
    a = fn.args
    if len(a.args) != 1 or a.vararg or a.kwarg or a.kwonlyargs or a.defaults or fn.decorator_list:
        raise TableError('%s: expected exactly one plain parameter and no decorators' % fn.name)
    return a.args[0].arg


def _tag_call(node, what):
    """pydicom.tag.Tag(<int>, <int>)  ->  (group, elem)"""
    if not (isinstance(node, ast.Call) and _is_attr_chain(node.func, ['pydicom', 'tag', 'Tag'])
            and len(node.args) == 2 and not node.keywords):
        raise TableError('%s: expected pydicom.tag.Tag(<int>, <int>)' % what)
    g, e = _int(node.args[0], what), _int(node.args[1], what)
    if g > 0xffff or e > 0xffff:
        raise TableError('%s: tag component out of range' % what)
    return g, e


def _cmp(node, what):
    if not (isinstance(node, ast.Compare) and len(node.ops) == 1 and len(node.comparators) == 1):
        raise TableError('%s: expected a single comparison' % what)
    return node.left, node.ops[0], node.comparators[0]


def _overlay(tree):
    fn = find_func(tree, 'ignore_overlay_data')
    p = _one_arg(fn)
    e = _single_return(fn)
    if not (isinstance(e, ast.BoolOp) and isinstance(e.op, ast.And) and len(e.values) == 2):
        raise TableError('ignore_overlay_data: expected  <group test> and <elem test>')
    l, op, r = _cmp(e.values[0], fn.name)
    if not (isinstance(op, ast.Eq) and isinstance(l, ast.BinOp) and isinstance(l.op, ast.BitAnd)
            and _is_attr_chain(l.left, [p, 'tag', 'group'])):
        raise TableError('ignore_overlay_data: expected  %s.tag.group & <mask> == <group>' % p)
    mask, grp = _int(l.right, fn.name), _int(r, fn.name)
    l2, op2, r2 = _cmp(e.values[1], fn.name)
    if not (isinstance(op2, ast.Eq) and _is_attr_chain(l2, [p, 'tag', 'elem'])):
        raise TableError('ignore_overlay_data: expected  %s.tag.elem == <elem>' % p)
    return mask, grp, _int(r2, fn.name)


def _group_elems(tree, fname):
    """return (elem.tag.group == <g> and elem.tag.elem in (<e>, ...))  ->  (g, [e, ...])"""
    fn = find_func(tree, fname)
    p = _one_arg(fn)
    e = _single_return(fn)
    if not (isinstance(e, ast.BoolOp) and isinstance(e.op, ast.And) and len(e.values) == 2):
        raise TableError('%s: expected  <group test> and <elem test>' % fname)
    l, op, r = _cmp(e.values[0], fn.name)
    if not (isinstance(op, ast.Eq) and _is_attr_chain(l, [p, 'tag', 'group'])):
        raise TableError('%s: expected  %s.tag.group == <group>' % (fname, p))
    grp = _int(r, fn.name)
    l2, op2, r2 = _cmp(e.values[1], fn.name)
    if not (isinstance(op2, ast.In) and _is_attr_chain(l2, [p, 'tag', 'elem']) and isinstance(r2, (ast.Tuple, ast.List, ast.Set))):
        raise TableError('%s: expected  %s.tag.elem in (<elems>)' % (fname, p))
    elems = [_int(x, fn.name) for x in r2.elts]
    if not elems:
        raise TableError('%s: empty element list' % fname)
    if grp > 0xffff or any(x > 0xffff for x in elems):
        raise TableError('%s: tag component out of range' % fname)
    return grp, elems


def _private(tree):
    """if elem.tag.group % <m> == <r>: return True ; return False"""
    fn = find_func(tree, 'ignore_private')
    p = _one_arg(fn)
    body = list(fn.body)
    if body and isinstance(body[0], ast.Expr) and isinstance(body[0].value, ast.Constant):
        body = body[1:]
    ok = (len(body) == 2 and isinstance(body[0], ast.If) and not body[0].orelse and len(body[0].body) == 1
          and isinstance(body[0].body[0], ast.Return) and isinstance(body[0].body[0].value, ast.Constant)
          and body[0].body[0].value.value is True
          and isinstance(body[1], ast.Return) and isinstance(body[1].value, ast.Constant) and body[1].value.value is False)
    if not ok:
        raise TableError('ignore_private: expected  if <test>: return True / return False')
    l, op, r = _cmp(body[0].test, fn.name)
    if not (isinstance(op, ast.Eq) and isinstance(l, ast.BinOp) and isinstance(l.op, ast.Mod)
            and _is_attr_chain(l.left, [p, 'tag', 'group'])):
        raise TableError('ignore_private: expected  %s.tag.group %% <m> == <r>' % p)
    m, rem = _int(l.right, fn.name), _int(r, fn.name)
    if m == 0:
        raise TableError('ignore_private: modulus 0')
    return m, rem


def _names_tuple(tree, name, allowed, what):
    node = module_assign(tree, name)
    if not isinstance(node, (ast.Tuple, ast.List)):
        raise TableError('%s: expected a tuple/list display of names' % name)
    out = []
    for e in node.elts:
        if not isinstance(e, ast.Name):
            raise TableError('%s: element is not a plain name: %s' % (name, _dump(e)[:80]))
        if e.id not in allowed:
            raise TableError('%s: unknown %s %r (known: %s)' % (name, what, e.id, ', '.join(sorted(allowed))))
        out.append(e.id)
    if len(set(out)) != len(out):
        raise TableError('%s: duplicated entry' % name)
    return out


def _translator(tree, name):
    node = module_assign(tree, name)
    if not (isinstance(node, ast.Call) and isinstance(node.func, ast.Name) and node.func.id == 'Translator'
            and len(node.args) == 4 and not node.keywords):
        raise TableError('%s: expected Translator(<name>, <tag>, <creator>, <function>)' % name)
    tname, creator = lit(node.args[0]), lit(node.args[2])
    if not isinstance(tname, str) or not isinstance(creator, str):
        raise TableError('%s: translator name and private creator must be string literals' % name)
    g, e = _tag_call(node.args[1], name)
    if not isinstance(node.args[3], ast.Name):
        raise TableError('%s: translation function is not a plain name' % name)
    find_func(tree, node.args[3].id)
    return tname, (g, e), creator, node.args[3].id


def _check_translator_type(tree):
    node = module_assign(tree, 'Translator')
    ok = (isinstance(node, ast.Call) and isinstance(node.func, ast.Name) and node.func.id == 'namedtuple'
          and len(node.args) == 2 and lit(node.args[0]) == 'Translator'
          and list(lit(node.args[1])) == ['name', 'tag', 'priv_creator', 'trans_func'])
    if not ok:
        raise TableError("Translator: expected namedtuple('Translator', ['name','tag','priv_creator','trans_func'])")


def _unicode_str_is_str(src):
    """utils.unicode_str must be `unicode if PY2 else str` (so that on Python 3 it is the builtin str)."""
    node = module_assign(src.tree(UTILS), 'unicode_str')
    ok = (isinstance(node, ast.IfExp) and isinstance(node.test, ast.Name) and node.test.id == 'PY2'
          and isinstance(node.body, ast.Name) and node.body.id == 'unicode'
          and isinstance(node.orelse, ast.Name) and node.orelse.id == 'str')
    if not ok:
        raise TableError('utils.unicode_str: expected  unicode if PY2 else str')
    t = src.tree(SRC)
    imported = False
    for st in t.body:
        if isinstance(st, ast.ImportFrom) and st.module == 'utils' and st.level == 1:
            for a in st.names:
                if a.name == 'unicode_str' and a.asname in (None, 'unicode_str'):
                    imported = True
    if not imported:
        raise TableError('extract.py: expected  from .utils import ... unicode_str ...')


def emit(src):
    t = src.tree(SRC)
    # every rule name must be defined exactly once and not rebound at module level
    for r in RULE_NAMES:
        find_func(t, r)
    pgrp, pelems = _group_elems(t, 'ignore_pixel_data')
    omask, ogrp, oelem = _overlay(t)
    lgrp, lelems = _group_elems(t, 'ignore_color_lut_data')
    pm, pr = _private(t)
    rules = _names_tuple(t, 'default_ignore_rules', set(RULE_NAMES), 'ignore rule')

    unpack = dict_items_in_order(module_assign(t, 'unpack_vr_map'))
    for k, v in unpack:
        if not isinstance(k, str) or not isinstance(v, str):
            raise TableError('unpack_vr_map: keys and values must be strings')
    if len(set(k for k, _ in unpack)) != len(unpack):
        raise TableError('unpack_vr_map: duplicated key')

    cnode = module_assign(t, 'default_conversions')
    if not isinstance(cnode, ast.Dict):
        raise TableError('default_conversions: expected a dict display')
    convs = []
    for k, v in zip(cnode.keys, cnode.values):
        if k is None:
            raise TableError('default_conversions: ** expansion')
        kk = lit(k)
        if not isinstance(kk, str):
            raise TableError('default_conversions: key is not a string')
        if not isinstance(v, ast.Name) or v.id not in CONVERTERS:
            raise TableError('default_conversions[%r]: converter is not one of %s' % (kk, ', '.join(CONVERTERS)))
        convs.append((kk, v.id))
    if len(set(k for k, _ in convs)) != len(convs):
        raise TableError('default_conversions: duplicated key')
    # the converter names must mean what the model assumes: builtins, or the module's own get_text
    find_func(t, 'get_text')
    find_func(t, 'is_ascii')
    for nm in ('float', 'int', 'str'):
        for st in ast.walk(t):
            if isinstance(st, (ast.FunctionDef, ast.ClassDef)) and st.name == nm:
                raise TableError('builtin %s is shadowed in extract.py' % nm)
            if isinstance(st, ast.Assign) and any(isinstance(x, ast.Name) and x.id == nm for x in st.targets):
                raise TableError('builtin %s is rebound in extract.py' % nm)
    _unicode_str_is_str(src)

    _check_translator_type(t)
    trans_names = _names_tuple(t, 'default_translators', {'csa_image_trans', 'csa_series_trans'}, 'translator')
    trs = [_translator(t, n) for n in trans_names]

    out = []
    out.append('From DV Require Import Common.Str.\n')
    out.append('(* ignore_pixel_data: group == g and elem in (...) *)')
    out.append('Definition pixel_group : N := %s.' % cN(pgrp))
    out.append('Definition pixel_elems : list N := %s.' % clist(cN(x) for x in pelems))
    out.append('(* ignore_overlay_data: group & mask == group0 and elem == elem0 *)')
    out.append('Definition overlay_mask : N := %s.' % cN(omask))
    out.append('Definition overlay_group : N := %s.' % cN(ogrp))
    out.append('Definition overlay_elem : N := %s.' % cN(oelem))
    out.append('(* ignore_color_lut_data: group == g and elem in (...) *)')
    out.append('Definition lut_group : N := %s.' % cN(lgrp))
    out.append('Definition lut_elems : list N := %s.' % clist(cN(x) for x in lelems))
    out.append('(* ignore_private: group mod m == r *)')
    out.append('Definition private_mod : N := %s.' % cN(pm))
    out.append('Definition private_rem : N := %s.' % cN(pr))
    out.append('(* default_ignore_rules, by function name, in source order *)')
    out.append('Definition default_ignore_rule_names : list str := %s.' % clist(cstr(r) for r in rules))
    out.append('(* unpack_vr_map: VR -> struct format character *)')
    out.append('Definition unpack_vr_map : list (str * str) := %s.' % clist(cpair(cstr(k), cstr(v)) for k, v in unpack))
    out.append('(* default_conversions: VR -> name of the converter (float, int, str, get_text, unicode_str = str on Python 3) *)')
    out.append('Definition default_conversion_names : list (str * str) := %s.' % clist(cpair(cstr(k), cstr(v)) for k, v in convs))
    out.append('(* default_translators in order: (name, (tag group, tag elem), private creator, translation function name) *)')
    out.append('Definition default_translator_table : list (str * (N * N) * str * str) := %s.'
               % clist('(%s, (%s, %s), %s, %s)' % (cstr(n), cN(g), cN(e), cstr(c), cstr(f)) for n, (g, e), c, f in trs))
    return '\n'.join(out) + '\n'
