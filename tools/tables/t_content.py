"""Tables behind DcmMetaExtension.check_valid (property C10), translated from the Python AST (parse only).

Emits coq/Generated/T_content.v:
  req_base_keys_map : per version (in SOURCE order) the key as  (repr text of the float, exact binary value as Q)
                      and the required top-level key names (sorted: the source object is a set);
  meta_version, dcm_meta_ecode;
  classifications   : DcmMetaExtension.classifications in source order, as pairs of names;
  vc_take_3d / vc_take_4d / vc_take_5d / vc_last_5d : the slice bounds used by get_valid_classes
                      (classifications[:a], [:b], [:c] + [-d:]).
Fail closed: anything that is not exactly of the expected literal form raises TableError."""
import ast
from fractions import Fraction
from astlib import *   # noqa: F401,F403

WHAT = ("dcmmeta._req_base_keys_map, _meta_version, dcm_meta_ecode, DcmMetaExtension.classifications, "
        "the classification slices of DcmMetaExtension.get_valid_classes")

SRC = 'src/dcmstack/dcmmeta.py'
CLS = 'DcmMetaExtension'


def _num_key(node):
    """A dict key / module constant that must be a plain int or float literal -> (repr text as float, exact Fraction)."""
    if not (isinstance(node, ast.Constant) and isinstance(node.value, (int, float)) and not isinstance(node.value, bool)):
        raise TableError('expected a numeric literal at line %s' % getattr(node, 'lineno', '?'))
    f = float(node.value)
    if f != f or f in (float('inf'), float('-inf')) or Fraction(f) != Fraction(node.value):
        raise TableError('numeric literal at line %s is not exactly representable' % getattr(node, 'lineno', '?'))
    return repr(f), Fraction(f)


def _verkey(node):
    tok, q = _num_key(node)
    return cpair(cstr(tok), cq(q))


def _str_set(node):
    """set((<str literals>))  /  set([..])  /  {..}  -> sorted list of distinct strings."""
    if isinstance(node, ast.Call) and isinstance(node.func, ast.Name) and node.func.id in ('set', 'frozenset') \
            and len(node.args) == 1 and not node.keywords:
        node = node.args[0]
    if not isinstance(node, (ast.Tuple, ast.List, ast.Set)):
        raise TableError('expected a literal set of key names at line %s' % getattr(node, 'lineno', '?'))
    vals = []
    for e in node.elts:
        if not (isinstance(e, ast.Constant) and isinstance(e.value, str)):
            raise TableError('required key name is not a string literal at line %s' % getattr(e, 'lineno', '?'))
        vals.append(e.value)
    if len(set(vals)) != len(vals):
        raise TableError('duplicate required key name at line %s' % getattr(node, 'lineno', '?'))
    return sorted(vals)


def _slice_bounds(func):
    """get_valid_classes: the subscripts  self.classifications[a:b]  in source order."""
    out = []
    for n in ast.walk(func):
        if (isinstance(n, ast.Subscript) and isinstance(n.value, ast.Attribute)
                and n.value.attr == 'classifications' and isinstance(n.slice, ast.Slice)):
            if n.slice.step is not None:
                raise TableError('unexpected step in classifications slice at line %d' % n.lineno)
            lo = None if n.slice.lower is None else lit(n.slice.lower)
            if lo == 0 and not isinstance(lo, bool):
                lo = None           # classifications[0:2] is classifications[:2]
            hi = None if n.slice.upper is None else lit(n.slice.upper)
            out.append((n.lineno, n.col_offset, lo, hi))
    out.sort()
    return [(lo, hi) for _, _, lo, hi in out]


def emit(src):
    t = src.tree(SRC)

    # _req_base_keys_map
    node = module_assign(t, '_req_base_keys_map')
    if not isinstance(node, ast.Dict) or not node.keys:
        raise TableError('_req_base_keys_map is not a non-empty dict display')
    rows, seen = [], set()
    for k, v in zip(node.keys, node.values):
        if k is None:
            raise TableError('_req_base_keys_map uses ** unpacking')
        tok, q = _num_key(k)
        if q in seen:
            raise TableError('_req_base_keys_map: duplicate version key %s' % tok)
        seen.add(q)
        rows.append(cpair(_verkey(k), clist(cstr(x) for x in _str_set(v))))

    ver = _verkey(module_assign(t, '_meta_version'))
    ecode = module_assign(t, 'dcm_meta_ecode')
    if not (isinstance(ecode, ast.Constant) and isinstance(ecode.value, int) and not isinstance(ecode.value, bool)):
        raise TableError('dcm_meta_ecode is not an integer literal')

    # classifications
    cl = class_assign(t, CLS, 'classifications')
    if not isinstance(cl, ast.Tuple) or not cl.elts:
        raise TableError('classifications is not a non-empty tuple display')
    pairs = []
    for e in cl.elts:
        if not (isinstance(e, ast.Tuple) and len(e.elts) == 2
                and all(isinstance(x, ast.Constant) and isinstance(x.value, str) for x in e.elts)):
            raise TableError('classification at line %s is not a (base, sub) pair of string literals' % getattr(e, 'lineno', '?'))
        pairs.append((e.elts[0].value, e.elts[1].value))
    if len(set(pairs)) != len(pairs):
        raise TableError('duplicate classification')

    # get_valid_classes slices: [:a] (3-D), [:b] (4-D), [:c] + [-d:] (5-D with shape[3] == 1)
    sl = _slice_bounds(find_func(t, 'get_valid_classes', CLS))
    if len(sl) != 4 or any(lo is not None for lo, _ in sl[:3]) or sl[3][1] is not None:
        raise TableError('get_valid_classes: unexpected classification slices %r' % (sl,))
    a, b, c, d = sl[0][1], sl[1][1], sl[2][1], sl[3][0]
    for x in (a, b, c):
        if not (isinstance(x, int) and not isinstance(x, bool) and 0 <= x <= 64):
            raise TableError('get_valid_classes: unexpected upper bound %r' % (x,))
    if not (isinstance(d, int) and not isinstance(d, bool) and -64 <= d < 0):
        raise TableError('get_valid_classes: unexpected lower bound %r' % (d,))

    out = []
    out.append('(* version key: (repr text of the Python float, its exact binary value) *)')
    out.append('Definition verkey := (list N * Q)%type.\n')
    out.append('Definition req_base_keys_map : list (verkey * list (list N)) :=\n  %s.\n' % clist(rows))
    out.append('Definition meta_version : verkey := %s.\n' % ver)
    out.append('Definition dcm_meta_ecode : Z := %s.\n' % cz(ecode.value))
    out.append('Definition classifications : list (list N * list N) :=\n  %s.\n'
               % clist(cpair(cstr(x), cstr(y)) for x, y in pairs))
    out.append('(* get_valid_classes: classifications[:vc_take_3d], [:vc_take_4d], [:vc_take_5d] + [-vc_last_5d:] *)')
    out.append('Definition vc_take_3d : nat := %s.' % cnat(a))
    out.append('Definition vc_take_4d : nat := %s.' % cnat(b))
    out.append('Definition vc_take_5d : nat := %s.' % cnat(c))
    out.append('Definition vc_last_5d : nat := %s.' % cnat(-d))
    return '\n'.join(out) + '\n'
