"""Class tables of DcmMetaExtension, translated from the Python AST (parse only).

Emits  coq/Generated/T_classes.v  with a cls-free encoding: a classification is a pair of names
(`cname := (list N * list N)`, code points of the base and sub class strings).  Ext/Classes.v decodes
the names into the inductive `cls`; Ext/TableFacts.v re-checks by computation every fact that the
proofs use, so an edit of any of these literals in the sources re-checks or breaks them."""
import ast
from astlib import *   # noqa: F401,F403

WHAT = ("dcmmeta.DcmMetaExtension.classifications, _const_tests, _repeat_tests, _preserving_changes, the "
        "dest-class tuple literals inside _copy_slice / _copy_sample / _insert_slice, the class slices of "
        "get_valid_classes, _req_base_keys_map, _meta_version, dcm_meta_ecode")

SRC = 'src/dcmstack/dcmmeta.py'
CLS = 'DcmMetaExtension'


def _is_cname(x):
    return isinstance(x, tuple) and len(x) == 2 and all(isinstance(s, str) for s in x)


def cname(x):
    if not _is_cname(x):
        raise TableError('expected a (base, sub) pair of strings, got %r' % (x,))
    return cpair(cstr(x[0]), cstr(x[1]))


def cname_list(xs):
    if not isinstance(xs, (tuple, list)):
        raise TableError('expected a tuple of classifications, got %r' % (xs,))
    return clist(cname(x) for x in xs)


def _for_tuples(func):
    """The literal tuples iterated by `for <v> in (<literal tuple>):` inside func, in source order."""
    out = []
    for n in ast.walk(func):
        if isinstance(n, ast.For) and isinstance(n.iter, ast.Tuple):
            out.append((n.lineno, lit(n.iter)))
    out.sort()
    return [t for _, t in out]


def _slice_bounds(func):
    """get_valid_classes: the subscripts  self.classifications[a:b]  in source order, as (lower, upper)
    with None for an omitted bound (negative literals allowed)."""
    out = []
    for n in ast.walk(func):
        if (isinstance(n, ast.Subscript) and isinstance(n.value, ast.Attribute)
                and n.value.attr == 'classifications' and isinstance(n.slice, ast.Slice)):
            if n.slice.step is not None:
                raise TableError('unexpected step in classifications slice at line %d' % n.lineno)
            lo = None if n.slice.lower is None else lit(n.slice.lower)
            if lo == 0:          # x[0:b] is x[:b]
                lo = None
            hi = None if n.slice.upper is None else lit(n.slice.upper)
            out.append((n.lineno, n.col_offset, lo, hi))
    out.sort()
    return [(lo, hi) for _, _, lo, hi in out]


def emit(src):
    t = src.tree(SRC)
    classifications = lit(class_assign(t, CLS, 'classifications'))
    const_tests = dict_items_in_order(class_assign(t, CLS, '_const_tests'))
    repeat_tests = dict_items_in_order(class_assign(t, CLS, '_repeat_tests'))
    preserving = dict_items_in_order(class_assign(t, CLS, '_preserving_changes'))
    if len(set(k for k, _ in const_tests)) != len(const_tests) or len(set(k for k, _ in repeat_tests)) != len(repeat_tests) \
            or len(set(k for k, _ in preserving)) != len(preserving):
        raise TableError('duplicate key in a class table')

    cs = _for_tuples(find_func(t, '_copy_slice', CLS))
    if len(cs) != 2 or not all(_is_cname(x) for tup in cs for x in tup):
        raise TableError('_copy_slice: expected exactly two `for classes in (<tuple of classes>)` loops, found %r' % (cs,))
    csm = _for_tuples(find_func(t, '_copy_sample', CLS))
    if len(csm) != 1 or not all(_is_cname(x) for x in csm[0]):
        raise TableError('_copy_sample: expected exactly one literal dest-class loop, found %r' % (csm,))
    isl = _for_tuples(find_func(t, '_insert_slice', CLS))
    if len(isl) != 1 or not all(isinstance(x, str) for x in isl[0]):
        raise TableError('_insert_slice: expected exactly one `for dest_base in (<names>)` loop, found %r' % (isl,))

    # get_valid_classes: [:2] (3-D), [:4] (4-D), [:2] + [-2:] (5-D with shape[3] == 1); the full tuple otherwise
    sl = _slice_bounds(find_func(t, 'get_valid_classes', CLS))
    if len(sl) != 4 or any(lo is not None for lo, _ in sl[:3]) or sl[3][1] is not None:
        raise TableError('get_valid_classes: unexpected classification slices %r' % (sl,))
    n = len(classifications)

    def upto(hi):
        if not isinstance(hi, int):
            raise TableError('get_valid_classes: non-integer bound %r' % (hi,))
        return hi if hi >= 0 else max(0, n + hi)
    vc3, vc4, vc5a = upto(sl[0][1]), upto(sl[1][1]), upto(sl[2][1])
    vc5b = upto(sl[3][0])       # [-2:]  == skipn (n-2)

    req = dict_items_in_order(module_assign(t, '_req_base_keys_map'))
    ver = float_lit_exact(module_assign(t, '_meta_version'))
    ecode = lit(module_assign(t, 'dcm_meta_ecode'))
    if not isinstance(ecode, int):
        raise TableError('dcm_meta_ecode is not an integer literal')

    out = []
    out.append('Definition cname := (list N * list N)%type.   (* (base class, sub class) as code points *)\n')
    out.append('Definition classifications : list cname :=\n  %s.\n' % cname_list(classifications))
    out.append('Definition const_tests : list (cname * list cname) :=\n  %s.\n'
               % clist(cpair(cname(k), cname_list(v)) for k, v in const_tests))
    out.append('Definition repeat_tests : list (cname * list cname) :=\n  %s.\n'
               % clist(cpair(cname(k), cname_list(v)) for k, v in repeat_tests))
    out.append('Definition preserving_changes : list (option cname * list cname) :=\n  %s.\n'
               % clist(cpair(copt(k, cname), cname_list(v)) for k, v in preserving))
    out.append('(* _copy_slice: destination search order when the source base class is global / vector *)\n')
    out.append('Definition copy_slice_global_dests : list cname := %s.\n' % cname_list(cs[0]))
    out.append('Definition copy_slice_vector_dests : list cname := %s.\n' % cname_list(cs[1]))
    out.append('(* _copy_sample: destination search order when a samples class is indexed on its own base *)\n')
    out.append('Definition copy_sample_dests : list cname := %s.\n' % cname_list(csm[0]))
    out.append('(* _insert_slice: base classes tried (with sub class slices) when a constant starts to vary *)\n')
    out.append('Definition insert_slice_bases : list (list N) := %s.\n' % clist(cstr(x) for x in isl[0]))
    out.append('(* get_valid_classes: classifications[:a] for 3-D, [:b] for 4-D, [:c] ++ skipn d for 5-D with shape[3] = 1 *)\n')
    out.append('Definition valid_take_3d : nat := %s.\nDefinition valid_take_4d : nat := %s.\n' % (cnat(vc3), cnat(vc4)))
    out.append('Definition valid_take_5d : nat := %s.\nDefinition valid_skip_5d : nat := %s.\n' % (cnat(vc5a), cnat(vc5b)))
    out.append('Definition req_base_keys_map : list (Q * list (list N)) :=\n  %s.\n'
               % clist(cpair(cq(float_lit_exact(ast.Constant(k))), clist(cstr(x) for x in sorted(v))) for k, v in req))
    out.append('Definition meta_version : Q := %s.\n' % cq(ver))
    out.append('Definition dcm_meta_ecode : Z := %s.\n' % cz(ecode))
    return '\n'.join(out)
