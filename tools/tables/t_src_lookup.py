"""The lookups of NiftiWrapper (dcmmeta.py), TRANSLATED into typed Gallina (translator and vocabulary: tools/tables/py2coq.py;
primitives: coq/Common/PyOps2.v):  meta_valid, get_meta, __getitem__.

Everything these methods READ from the wrapped image and from the extension is external and becomes a parameter:
  self.nii_img.shape                      img_shape : list nat          self.meta_ext.shape          meta_shape : list nat
  <header>.get_dim_info()[2]              img_slice_dim : option nat    self.meta_ext.slice_dim      meta_slice_dim : option nat
  <header>.get_n_slices()                 img_n_slices : nat            self.meta_ext.n_slices       meta_n_slices : option nat
  self.nii_img.affine[d, :3]              img_affine_row3 d : list Q    self.meta_ext.slice_normal   meta_slice_normal : list Q
  self.meta_ext.get_values_and_class(k)   meta_values_and_class k : V * option (str * str)
  self.meta_ext.get_class_dict(c)         meta_class_dict c : dict str -> V
  np.allclose(a, b, atol=<literal>)       Seq.allclose rtol_default <the literal, exact> a b   (the exact-Q model of Ext/Seq.v)
(self.nii_img.header itself is opaque; meta_slice_normal is only read after the `slice_dim is None` test, so it is an array.)
Values: V is the type of meta data values (None included: `default=None`); `values[i]` on a value is the parameter
vindex : V -> bnd -> res V.  Voxel indices are Python ints of either sign (Z).
coq/Ext/SrcEqLookup.v proves Ext.Model.meta_valid / get_meta / getitem equal to these definitions and states how the
model's img / hdr / ext records provide the parameters."""
from astlib import *      # noqa: F401,F403
from py2coq import Fn, translate_all, NAT, INT, BOOL, TRUTH, STR, QNUM, OPAQUE, FLOATLIT, LIST, OPT, PAIR, DICT, CNAME

WHAT = ("dcmmeta.NiftiWrapper.meta_valid, get_meta, __getitem__ (function bodies, translated statement by statement by "
        "tools/tables/py2coq.py)")

SRC = 'src/dcmstack/dcmmeta.py'
CLS = 'NiftiWrapper'


def templates():
    return [
        dict(src='self.nii_img.header', holes=[], ret=OPAQUE, param=None, fmt='tt'),
        dict(src='self.nii_img.shape', holes=[], ret=LIST(NAT), param='img_shape'),
        dict(src='self.meta_ext.shape', holes=[], ret=LIST(NAT), param='meta_shape'),
        dict(src='_0.get_dim_info()[2]', holes=[OPAQUE], ret=OPT(NAT), param='img_slice_dim'),
        dict(src='self.meta_ext.slice_dim', holes=[], ret=OPT(NAT), param='meta_slice_dim'),
        dict(src='_0.get_n_slices()', holes=[OPAQUE], ret=NAT, param='img_n_slices'),
        dict(src='self.meta_ext.n_slices', holes=[], ret=OPT(NAT), param='meta_n_slices'),
        dict(src='self.nii_img.affine[_0, :3]', holes=[NAT], ret=LIST(QNUM), param='img_affine_row3'),
        dict(src='self.meta_ext.slice_normal', holes=[], ret=LIST(QNUM), param='meta_slice_normal'),
        dict(src='np.allclose(_0, _1, atol=_2)', holes=[LIST(QNUM), LIST(QNUM), FLOATLIT], ret=BOOL, param=None,
             fmt='(allclose rtol_default {2} {0} {1})'),
        dict(src='self.meta_ext.get_values_and_class(_0)', holes=[STR], ret=PAIR('V', OPT(CNAME)), param='meta_values_and_class'),
        dict(src='self.meta_ext.get_class_dict(_0)', holes=[CNAME], ret=DICT(STR, 'V'), param='meta_class_dict'),
    ]


def specs():
    return [
        Fn('meta_valid_src', SRC, 'meta_valid', TRUTH, [('classification', CNAME)], cls=CLS, templates=templates()),
        Fn('get_meta_src', SRC, 'get_meta', 'V', [('key', STR), ('index', OPT(LIST(INT))), ('default', 'V')], cls=CLS,
           templates=templates(), tparams=('V',), vops={'V': {'index': 'vindex'}}),
        Fn('getitem_src', SRC, '__getitem__', 'V', [('key', STR)], cls=CLS, templates=templates(), tparams=('V',)),
    ]


def emit(src):
    return translate_all(src, specs(), extra_prelude='From DV Require Import Ext.Seq.\n')
