"""Check driver:  ./check Cnn [--tier quick|thorough] [--replay file]

Pipeline (DESIGN.md section 2.5):
  translator -> make Props/Cnn.vo -> Print Assumptions per theorem -> hygiene grep
  -> correspondence (implementation vs. model inside Coq) -> property oracle on the implementation
  -> verdict, replay file, evidence file.
Exit 0 = property held on everything explored; exit 1 + "VIOLATION property=<id> replay=<path>".
"""
import sys, os, json, time, re, random, hashlib, subprocess, importlib, argparse, fcntl, glob, shutil
from concurrent.futures import ThreadPoolExecutor

VERIF = os.path.dirname(os.path.dirname(os.path.abspath(__file__)))
COQ_MAIN = os.path.join(VERIF, 'coq')
# A tagged run (VERIF_RUN_TAG, used for mutation self-tests and seeded changes beside other runs) works on a
# PRIVATE copy of the Coq tree, so that regenerated tables / rebuilt .vo files never disturb the shared tree.
_TAG = os.environ.get('VERIF_RUN_TAG', '')
COQ = os.path.join(VERIF, 'work', 'coq_' + _TAG) if _TAG else COQ_MAIN
REPO = os.environ.get('DCMSTACK_REPO', '/repo')
PY = '/venv/bin/python'
NCPU = int(os.environ.get('VERIF_JOBS', '16'))
FORBIDDEN = r'\bAdmitted\b|\badmit\b|\bAxiom\b|\bAxioms\b|\bParameter\b|\bParameters\b|\bConjecture\b|Unset\s+Guard|Unset\s+Positivity|Unset\s+Universe|bypass_check|type-in-type|impredicative-set|\bAdmit\s+Obligations\b|\bgive_up\b'


def sh(cmd, timeout, cwd=None, env=None, inp=None):
    try:
        p = subprocess.run(cmd, shell=isinstance(cmd, str), cwd=cwd, env=env, input=inp,
                           stdout=subprocess.PIPE, stderr=subprocess.STDOUT, timeout=timeout, text=True)
        return p.returncode, p.stdout
    except subprocess.TimeoutExpired as e:
        out = e.stdout if isinstance(e.stdout, str) else (e.stdout or b'').decode('utf-8', 'replace')
        return 124, (out or '') + '\n[timeout after %ss]' % timeout


class Lock:
    def __init__(self, name):
        os.makedirs(os.path.join(VERIF, 'work'), exist_ok=True)
        self.path = os.path.join(VERIF, 'work', name)

    def __enter__(self):
        self.f = open(self.path, 'w')
        fcntl.flock(self.f, fcntl.LOCK_EX)

    def __exit__(self, *a):
        fcntl.flock(self.f, fcntl.LOCK_UN)
        self.f.close()


# ---------------------------------------------------------------------------- Coq build

def coq_files():
    out = []
    for root, dirs, files in os.walk(COQ):
        dirs.sort()
        for f in sorted(files):
            if f.endswith('.v'):
                out.append(os.path.relpath(os.path.join(root, f), COQ))
    return sorted(out)


def ensure_makefile():
    proj = '-Q . DV\n' + '\n'.join(coq_files()) + '\n'
    pp = os.path.join(COQ, '_CoqProject')
    old = open(pp).read() if os.path.exists(pp) else None
    if old != proj or not os.path.exists(os.path.join(COQ, 'Makefile')):
        open(pp, 'w').write(proj)
        rc, out = sh('coq_makefile -f _CoqProject -o Makefile', 120, cwd=COQ)
        if rc != 0:
            raise RuntimeError('coq_makefile failed: ' + out)


def private_tree():
    if COQ == COQ_MAIN:
        return
    os.makedirs(COQ, exist_ok=True)
    with Lock('.build.lock'):      # do not copy while someone is writing .vo files
        rc, out = sh(['rsync', '-a', '--delete', '--exclude', '.lia.cache', '--exclude', '.nia.cache', '--exclude', '.nra.cache',
                      COQ_MAIN + '/', COQ + '/'], 900)
    if rc != 0:
        raise RuntimeError('cannot create the private Coq tree: ' + out)


def regen_tables():
    private_tree()
    return sh([PY, os.path.join(VERIF, 'tools', 'gen_tables.py'), '--repo', REPO, '--out', os.path.join(COQ, 'Generated')], 120)


def make_targets(targets, timeout=2400):
    lock = '.build.lock' if COQ == COQ_MAIN else '.build.lock.' + _TAG
    # fast path: nothing to rebuild -> no need to queue behind other people's long builds
    if os.path.exists(os.path.join(COQ, 'Makefile')) and os.path.exists(os.path.join(COQ, '_CoqProject')):
        proj = '-Q . DV\n' + '\n'.join(coq_files()) + '\n'
        if open(os.path.join(COQ, '_CoqProject')).read() == proj:
            rc, out = sh(['make', '-C', COQ, '-q'] + targets, 300)
            if rc == 0:
                return 0, 'up to date'
    with Lock(lock):
        ensure_makefile()
        return sh(['make', '-C', COQ, '-j%d' % NCPU] + targets, timeout)


def coqc(path, timeout=900):
    return sh('ulimit -s unlimited 2>/dev/null; exec coqc -q -Q %s DV %s' % (COQ, path), timeout, cwd=os.path.dirname(path))


def dep_closure(rels):
    """Transitive closure of the DV modules required by the given .v files (relative to coq/)."""
    seen, todo = set(), list(rels)
    while todo:
        rel = todo.pop()
        if rel in seen or not os.path.exists(os.path.join(COQ, rel)):
            continue
        seen.add(rel)
        txt = re.sub(r'\(\*.*?\*\)', ' ', open(os.path.join(COQ, rel)).read(), flags=re.S)
        for m in re.finditer(r'\bFrom\s+DV\s+Require\s+(?:Import\b|Export\b)?\s*(.*?)\.(?=\s|$)', txt, re.S):
            for mod in m.group(1).split():
                todo.append(mod.replace('.', '/') + '.v')
        for m in re.finditer(r'(?<!DV\s)\bRequire\s+(?:Import\b|Export\b)?\s*(.*?)\.(?=\s|$)', txt, re.S):
            for mod in m.group(1).split():
                if mod.startswith('DV.'):
                    todo.append(mod[3:].replace('.', '/') + '.v')
    return sorted(seen)


def hygiene(only=None):
    bad = []
    rx = re.compile(FORBIDDEN)
    for rel in (coq_files() if only is None else only):
        txt = open(os.path.join(COQ, rel)).read()
        # strip comments (non-nested approximation is enough: nested comments only make us stricter)
        stripped = re.sub(r'\(\*.*?\*\)', ' ', txt, flags=re.S)
        for i, line in enumerate(stripped.split('\n'), 1):
            if rx.search(line):
                bad.append('%s:%d: %s' % (rel, i, line.strip()[:120]))
        # Variable/Hypothesis/Context outside a Section
        depth = 0
        for i, line in enumerate(stripped.split('\n'), 1):
            s = line.strip()
            if re.match(r'(Section|Module\s+Type)\b', s):
                depth += 1
            elif re.match(r'End\b', s) and depth > 0:
                depth -= 1
            elif depth == 0 and re.match(r'(Variable|Variables|Hypothesis|Hypotheses|Context)\b', s):
                bad.append('%s:%d: %s outside a section' % (rel, i, s.split()[0]))
    return bad


def check_assumptions(pid, props_files, theorems, allowed, work):
    """One tiny file per theorem: Check + Print Assumptions.  Returns (results, failures)."""
    imports = ''.join('Require Import DV.%s.\n' % f[:-2].replace('/', '.') for f in props_files)
    jobs = []
    for th in theorems:
        p = os.path.join(work, 'assum_%s.v' % th)
        open(p, 'w').write('%sCheck %s.\nPrint Assumptions %s.\n' % (imports, th, th))
        jobs.append((th, p))
    res, fails = {}, []
    with ThreadPoolExecutor(NCPU) as ex:
        outs = list(ex.map(lambda j: coqc(j[1], 600), jobs))
    for (th, p), (rc, out) in zip(jobs, outs):
        if rc != 0:
            fails.append('theorem %s: not found or does not check: %s' % (th, out.strip()[-400:]))
            continue
        m = re.search(r'(Closed under the global context|Axioms:.*)$', out, re.S)
        stmt = out[:m.start()].strip() if m else out.strip()
        axioms = []
        if not m:
            fails.append('theorem %s: no Print Assumptions output' % th)
        elif m.group(1).startswith('Axioms:'):
            body = m.group(1)[len('Axioms:'):]
            axioms = re.findall(r'^([A-Za-z_][\w\.\']*)\s*:', body, re.M)
            for a in axioms:
                if a not in allowed and a.split('.')[-1] not in allowed:
                    fails.append('theorem %s depends on axiom %s (not in the allowed list)' % (th, a))
        res[th] = {'statement': re.sub(r'\s+', ' ', stmt)[:1500], 'axioms': axioms}
    return res, fails


# ---------------------------------------------------------------------------- parts / implementation

class Part:
    FIELDS = ['NAME', 'CORR_REQUIRE', 'CORR_CASE_TYPE', 'CORR_CHECK', 'SHARD', 'gen_cases', 'run_impl',
              'coq_case', 'oracle', 'signature', 'nontrivial', 'shrink', 'RULE', 'IMPL_TIMEOUT', 'IMPL_JOBS', 'CORR_SHOW']

    def __init__(self, obj, idx):
        self.idx = idx
        for f in self.FIELDS:
            setattr(self, f, getattr(obj, f, None))
        self.NAME = self.NAME or 'main'
        self.SHARD = self.SHARD or 250


def get_parts(plugin):
    objs = getattr(plugin, 'PARTS', None)
    if objs is None:
        objs = [plugin] if hasattr(plugin, 'gen_cases') else []
    return [Part(o, i) for i, o in enumerate(objs)]


def impl_batch(modname, part, cases, work, tag='impl'):
    """Run the real implementation on the cases in sub-processes; returns the list of observations."""
    if not cases:
        return []
    jobs = part.IMPL_JOBS or NCPU
    n = max(1, min(jobs, (len(cases) + 7) // 8))
    chunks = [cases[i::n] for i in range(n)]
    env = dict(os.environ, PYTHONPATH=VERIF, DCMSTACK_REPO=REPO, PYTHONHASHSEED='0', DCMSTACK_VERIF='1',
               VERIF_WORK=work, OMP_NUM_THREADS='1', OPENBLAS_NUM_THREADS='1')

    def run(i):
        fi = os.path.join(work, '%s_%s_in_%d.json' % (tag, part.NAME, i))
        fo = os.path.join(work, '%s_%s_out_%d.json' % (tag, part.NAME, i))
        json.dump(chunks[i], open(fi, 'w'))
        if os.path.exists(fo):
            os.remove(fo)
        to = (part.IMPL_TIMEOUT or 20) * len(chunks[i]) + 120
        rc, out = sh([PY, '-m', 'vlib.implrun', modname, str(part.idx), fi, fo, str(part.IMPL_TIMEOUT or 20)], to, cwd=VERIF, env=env)
        if rc != 0 or not os.path.exists(fo):
            return [{'crash': 'HarnessFailure', 'msg': out[-800:]} for _ in chunks[i]]
        r = json.load(open(fo))
        os.remove(fi)
        os.remove(fo)
        return r
    with ThreadPoolExecutor(n) as ex:
        outs = list(ex.map(run, range(n)))
    res = [None] * len(cases)
    for i in range(n):
        for j, o in enumerate(outs[i]):
            res[i + j * n] = o
    return res


def model_batch(part, cases, obs, work, tag='corr'):
    """Writes shards of Coq cases (inputs + implementation observations), evaluates the model inside
    Coq and returns (list of mismatching case indices, list of harness errors)."""
    if not part.CORR_CHECK or not cases:
        return [], []
    shard = part.SHARD
    files = []
    lits, errs0, bad0 = [], [], []
    for i, (c, o) in enumerate(zip(cases, obs)):
        try:
            lits.append(part.coq_case(c, o))
        except Exception as e:     # typically: the implementation crashed and the observation has no Coq rendering
            lits.append(None)
            bad0.append(i)
            if len(errs0) < 3:
                errs0.append('case %d has no Coq rendering (%s: %s); implementation observation: %s' % (i, type(e).__name__, e, json.dumps(o, default=str)[:300]))
    keep = [i for i in range(len(cases)) if lits[i] is not None]
    for k in range(0, len(keep), shard):
        p = os.path.join(work, '%s_%s_%d.v' % (tag, part.NAME, k // shard))
        with open(p, 'w') as f:
            f.write('From Coq Require Import List ZArith NArith QArith Bool.\nImport ListNotations.\n')
            f.write('From DV Require Import Common.Res Common.CorrBase.\n')
            f.write(part.CORR_REQUIRE + '\n')
            f.write('Definition cases : list (%s) := [\n' % part.CORR_CASE_TYPE)
            f.write(';\n'.join(lits[i] for i in keep[k:k + shard]))
            f.write('\n].\nEval vm_compute in (mismatches (%s) cases).\n' % part.CORR_CHECK)
        files.append((k, p))
    with ThreadPoolExecutor(NCPU) as ex:
        outs = list(ex.map(lambda kp: coqc(kp[1], 1200), files))
    bad, errs = list(bad0), []
    for (k, p), (rc, out) in zip(files, outs):
        m = re.search(r'=\s*\[(.*?)\]\s*:\s*list nat', out, re.S)
        if rc != 0 or not m:
            errs.append('%s: %s' % (os.path.basename(p), out.strip()[-600:]))
            continue
        body = m.group(1).strip()
        if body:
            bad += [keep[k + int(x)] for x in re.findall(r'\d+', body)]
        for ext in ('.vo', '.vok', '.vos', '.glob'):
            q = p[:-2] + ext
            if os.path.exists(q):
                os.remove(q)
        aux = os.path.join(os.path.dirname(p), '.' + os.path.basename(p)[:-2] + '.aux')
        if os.path.exists(aux):
            os.remove(aux)
    return sorted(bad), errs


def model_show(part, case, obs, work):
    if not part.CORR_SHOW:
        return None
    try:
        lit = part.coq_case(case, obs)
    except Exception as e:
        return 'the implementation observation has no Coq rendering (%s: %s)' % (type(e).__name__, e)
    p = os.path.join(work, 'show_%s.v' % part.NAME)
    with open(p, 'w') as f:
        f.write('From Coq Require Import List ZArith NArith QArith Bool.\nImport ListNotations.\n')
        f.write('From DV Require Import Common.Res Common.CorrBase.\n' + part.CORR_REQUIRE + '\n')
        f.write('Eval vm_compute in (%s (%s)).\n' % (part.CORR_SHOW, lit))
    rc, out = coqc(p, 300)
    return out.strip()[-3000:]


# ---------------------------------------------------------------------------- known findings

def known_open(pid):
    out = []
    p = os.path.join(VERIF, 'known-findings.txt')
    if os.path.exists(p):
        for line in open(p):
            m = re.match(r'open:\s+property=(\S+)\s+sig=(\S+)\s+(.*)', line.strip())
            if m and m.group(1) == pid:
                out.append((m.group(2), m.group(3)))
    return out


# ---------------------------------------------------------------------------- the check

def case_hash(c):
    return hashlib.sha1(json.dumps(c, sort_keys=True, default=str).encode()).hexdigest()


def load_corpus(pid, part):
    d = os.path.join(VERIF, 'corpus', pid)
    out = []
    for p in sorted(glob.glob(os.path.join(d, '*.json'))):
        j = json.load(open(p))
        if j.get('part', 'main') == part.NAME:
            out.append(j['case'])
    return out


def shrink_case(modname, part, case, obs, msg, work, budget=40):
    if not part.shrink:
        return case, obs, msg
    rounds = 0
    while rounds < budget:
        rounds += 1
        cands = list(part.shrink(case))[:64]
        if not cands:
            break
        cobs = impl_batch(modname, part, cands, work, tag='shrink')
        nxt = None
        for c, o in zip(cands, cobs):
            m = part.oracle(c, o)
            if m:
                nxt = (c, o, m)
                break
        if not nxt:
            break
        case, obs, msg = nxt
    return case, obs, msg


def run_check(pid, tier, seed, replay=None):
    t0 = time.time()
    modname = 'props.' + pid.lower()
    plugin = importlib.import_module(modname)
    tag = os.environ.get('VERIF_RUN_TAG', '')
    work = os.path.join(VERIF, 'work', pid + ('_' + tag if tag else ''))
    if not replay:
        shutil.rmtree(work, ignore_errors=True)
    os.makedirs(work, exist_ok=True)
    parts = get_parts(plugin)
    broken = []          # (kind, name, text)
    log = []

    # 1. translator
    rc, out = regen_tables()
    log.append(out.strip())
    translator_out = out if rc != 0 else None

    # 2. proof obligations
    props_files = plugin.COQ_PROPS if isinstance(plugin.COQ_PROPS, (list, tuple)) else [plugin.COQ_PROPS]
    props_file = props_files[0]
    theorems = list(plugin.THEOREMS)
    allowed = list(getattr(plugin, 'ALLOWED_AXIOMS', []))
    extra_targets = [t for t in getattr(plugin, 'COQ_EXTRA_TARGETS', [])]
    for part in parts:       # the modules the correspondence shards import must be up to date as well
        for mod in re.findall(r'\b[A-Za-z_]\w*(?:\.[A-Za-z_]\w*)+', part.CORR_REQUIRE or ''):
            rel = mod.replace('.', '/') + '.v'
            if os.path.exists(os.path.join(COQ, rel)) and rel + 'o' not in extra_targets:
                extra_targets.append(rel + 'o')
    rc, out = make_targets([f + 'o' for f in props_files] + extra_targets)
    build_ok = rc == 0
    if not build_ok:
        m = re.findall(r'File "([^"]+)", line (\d+).*?\n(Error:.*?)(?=\nmake|\Z)', out, re.S)
        name = m[0][0] if m else props_file
        broken.append(('broken-obligation', name, out.strip()[-2500:]))
    assum, discharged = {}, 0
    if build_ok:
        assum, fails = check_assumptions(pid, props_files, theorems, allowed, work)
        for f in fails:
            broken.append(('broken-obligation', f.split(':')[0], f))
        bad_th = set(re.match(r'theorem (\S+?):? ', f).group(1).rstrip(':') for f in fails if f.startswith('theorem '))
        discharged = len([t for t in theorems if t in assum and t not in bad_th])
    coqchk_report = None
    if build_ok and tier == 'thorough' and replay is None:
        # independent re-check of the compiled theorem files and everything they depend on
        mods = ' '.join('DV.' + f[:-2].replace('/', '.') for f in props_files)
        rc2, out2 = sh('coqchk -silent -o -Q %s DV %s' % (COQ, mods), 3000, cwd=COQ)
        m2 = re.search(r'CONTEXT SUMMARY.*', out2, re.S)
        coqchk_report = re.sub(r'\s+', ' ', m2.group(0))[:1500] if m2 else out2.strip()[-800:]
        ax = re.search(r'\* Axioms:(.*?)\* Constants/Inductives relying on type-in-type:(.*?)\* Constants/Inductives relying on unsafe \(co\)fixpoints:(.*?)\* Inductives whose positivity is assumed:(.*)', out2, re.S)
        if rc2 != 0 or not ax:
            broken.append(('broken-obligation', 'coqchk', out2.strip()[-1200:]))
        else:
            axioms = [a.strip() for a in ax.group(1).strip().split('\n') if a.strip() and a.strip() != '<none>']
            bad_ax = [a for a in axioms if a.split()[0] not in allowed and a.split()[0].split('.')[-1] not in allowed]
            for extra in ax.groups()[1:]:
                if extra.strip() != '<none>':
                    bad_ax.append('unsafe: ' + extra.strip()[:200])
            for a in bad_ax:
                broken.append(('broken-obligation', 'coqchk', 'coqchk reports %s' % a))
    closure = dep_closure(list(props_files) + [t[:-1] for t in extra_targets])
    if translator_out is not None:
        # tables this property depends on: those named by the plugin plus every Generated/T_x.v in the dependency closure
        mine = set(getattr(plugin, 'TABLES', None) or [])
        mine |= set('t_' + os.path.basename(f)[2:-2] for f in closure if f.startswith('Generated/T_'))
        errs = re.findall(r'^TABLE-ERROR (\S+): (.*)$', translator_out, re.M)
        errs = [e for e in errs if e[0] in mine]
        if errs or not re.search(r'^TABLE-ERROR', translator_out, re.M):
            broken.insert(0, ('translator-abort', 'tools/gen_tables.py',
                              (translator_out.strip() if not errs else '\n'.join('%s: %s' % e for e in errs))[-1500:]))
    hyg = hygiene(closure)
    for h in hyg:
        broken.append(('broken-obligation', 'hygiene', h))
    elsewhere = [h for h in hygiene() if h not in hyg]
    if elsewhere:
        print('note: forbidden constructs in files this property does not depend on (reported by their own checks / setup.sh): %s' % '; '.join(elsewhere[:3]))

    # 3. correspondence + oracle, per part
    rng_master = random.Random(seed)
    stats = []
    oracle_fail, corr_bad, samples = [], [], []
    total_eval, distinct = 0, set()
    for part in parts:
        rng = random.Random(rng_master.getrandbits(64))
        if replay is not None:
            if replay.get('part', 'main') != part.NAME or 'case' not in replay:
                continue
            cases = [replay['case']]
        else:
            cases = load_corpus(pid, part) + list(part.gen_cases(rng, tier))
        tcase = time.time()
        obs = impl_batch(modname, part, cases, work)
        timpl = time.time() - tcase
        harness_crash = [i for i, o in enumerate(obs) if isinstance(o, dict) and o.get('crash') == 'HarnessFailure']
        if harness_crash:
            broken.append(('broken-correspondence', part.NAME, 'implementation runner failed: ' + obs[harness_crash[0]]['msg']))
        tm = time.time()
        bad, errs = ([], [])
        if build_ok:
            bad, errs = model_batch(part, cases, obs, work)
        tmodel = time.time() - tm
        for e in errs:
            broken.append(('broken-correspondence', part.NAME, 'model evaluation failed: ' + e))
        for i in bad:
            corr_bad.append((part, cases[i], obs[i]))
        kinds = {}
        for i, (c, o) in enumerate(zip(cases, obs)):
            kinds[c.get('kind', '?')] = kinds.get(c.get('kind', '?'), 0) + 1
            if part.oracle:
                try:
                    msg = part.oracle(c, o)
                except Exception as e:   # an oracle that cannot judge is a harness fault, reported loudly
                    msg = None
                    broken.append(('broken-correspondence', part.NAME, 'oracle raised %s: %s' % (type(e).__name__, e)))
                if msg:
                    oracle_fail.append((part, c, o, msg))
            nt = part.nontrivial(c, o) if part.nontrivial else True
            if nt:
                distinct.add(part.NAME + case_hash(c))
        total_eval += len(cases)
        errkinds = {}
        for o in obs:
            if isinstance(o, dict) and ('err' in o or 'crash' in o):
                k = o.get('err') or ('crash:' + o.get('crash'))
                errkinds[k] = errkinds.get(k, 0) + 1
        stats.append({'part': part.NAME, 'cases': len(cases), 'kinds': kinds, 'impl_error_kinds': errkinds,
                      'model_mismatches': len(bad), 'impl_s': round(timpl, 1), 'model_s': round(tmodel, 1)})
        for c, o in list(zip(cases, obs))[:2] + list(zip(cases, obs))[-1:]:
            samples.append({'part': part.NAME, 'case': c, 'impl_obs': o})

    # 4. verdict
    known = known_open(pid)
    known_hits, new_fail = {}, []
    for part, c, o, msg in oracle_fail:
        sig = part.signature(c, o, msg) if part.signature else 'any'
        hit = [k for k in known if k[0] == sig]
        if hit:
            known_hits.setdefault(sig, hit[0][1])
        else:
            new_fail.append((part, c, o, msg, sig))
    for sig, what in sorted(known_hits.items()):
        print('KNOWN-FINDING: property=%s %s (sig=%s)' % (pid, what, sig))
    # a known finding declared open must still be *seen* by the plugin's own reproducer, if it has one
    for sig, what in known:
        if sig not in known_hits and getattr(plugin, 'KNOWN_REPRO', {}).get(sig):
            print('KNOWN-FINDING: property=%s %s (sig=%s)' % (pid, what, sig))

    violation = None
    rp = os.path.join(work, 'replay_%s_%d.json' % (tier, seed))
    if new_fail:
        part, c, o, msg, sig = min(new_fail, key=lambda x: len(json.dumps(x[1], default=str)))
        c, o, msg = shrink_case(modname, part, c, o, msg, work)
        rec = {'property': pid, 'kind': 'failing-input', 'part': part.NAME, 'seed': seed, 'tier': tier, 'case': c,
               'impl_obs': o, 'oracle_message': msg, 'signature': sig, 'n_failing_inputs': len(new_fail),
               'also_broken': [b[:2] for b in broken][:10]}
        if build_ok:
            rec['model_obs'] = model_show(part, c, o, work)
        json.dump(rec, open(rp, 'w'), indent=1, default=str)
        violation = (rp, '')
    elif corr_bad or broken:
        # SEARCH for a concrete failing input: fresh random cases through the oracle only
        found = None
        if replay is None:
            for rnd in range(1, 4):
                for part in parts:
                    if not part.oracle:
                        continue
                    cs = list(part.gen_cases(random.Random(seed * 7919 + rnd * 104729 + part.idx), 'quick' if tier == 'quick' else 'thorough'))
                    ob = impl_batch(modname, part, cs, work, tag='search')
                    for c, o in zip(cs, ob):
                        try:
                            msg = part.oracle(c, o)
                        except Exception:
                            msg = None
                        if msg and not [k for k in known if part.signature and k[0] == part.signature(c, o, msg)]:
                            found = (part, c, o, msg)
                            break
                    if found:
                        break
                if found:
                    break
        if found:
            part, c, o, msg = found
            c, o, msg = shrink_case(modname, part, c, o, msg, work)
            rec = {'property': pid, 'kind': 'failing-input', 'part': part.NAME, 'seed': seed, 'tier': tier, 'case': c,
                   'impl_obs': o, 'oracle_message': msg, 'found_by': 'search after a broken obligation/correspondence',
                   'broken': [list(b) for b in broken][:10]}
            json.dump(rec, open(rp, 'w'), indent=1, default=str)
            violation = (rp, '')
        else:
            rec = {'property': pid, 'seed': seed, 'tier': tier}
            if corr_bad:
                part, c, o = corr_bad[0]
                rec.update({'kind': 'broken-correspondence', 'part': part.NAME, 'case': c, 'impl_obs': o,
                            'correspondence': '%s.%s on part %s' % (part.CORR_REQUIRE, part.CORR_CHECK, part.NAME),
                            'n_disagreements': len(corr_bad),
                            'model_obs': model_show(part, c, o, work) if build_ok else None,
                            'note': 'model and implementation disagree on this input; the property oracle found no input on which the property itself fails'})
            else:
                rec.update({'kind': broken[0][0], 'theorem': broken[0][1], 'text': broken[0][2]})
            rec['broken'] = [list(b) for b in broken][:10]
            json.dump(rec, open(rp, 'w'), indent=1, default=str)
            violation = (rp, ' no-failing-input-found')

    # 5. evidence
    wall = time.time() - t0
    tb = list(getattr(plugin, 'TRUSTED_BASE', []))
    ev = {
        'property_id': pid, 'tier': tier, 'seed': seed, 'level': 'proof',
        'coverage': {
            'obligations': len(theorems), 'discharged': discharged,
            'checker_cmd': 'make -C coq %s && coqc (Check + Print Assumptions per theorem); forbidden-construct grep over coq/' % ' '.join(f + 'o' for f in props_files),
            'trusted_base': ['Coq 8.16.1 kernel + vm_compute (no native_compute)',
                             'tools/gen_tables.py + tools/tables/*.py (literal tables translated from the Python AST on every run)',
                             'correspondence harness vlib/*.py + props/%s.py (generators, implementation runner, Coq literal printer)' % pid.lower()] + tb,
            'theorems': assum,
            'coqchk': coqchk_report,
            'evaluations': total_eval, 'distinct_nontrivial': len(distinct),
            'rule': getattr(plugin, 'RULE', '') or '; '.join(filter(None, [p.RULE for p in parts])),
            'samples': samples[:6],
            'correspondence': stats,
            'model_impl_disagreements': len(corr_bad), 'oracle_failures_new': len(new_fail),
            'oracle_failures_known': len(oracle_fail) - len(new_fail),
            'broken_obligations': [list(b[:2]) for b in broken],
            'exhaustive': False,
        },
        'assumptions': list(getattr(plugin, 'ASSUMPTIONS', [])),
        'wall_s': round(wall, 1),
        'violations': 1 if violation else 0,
    }
    if replay is None:
        os.makedirs(os.path.join(VERIF, 'evidence'), exist_ok=True)
        json.dump(ev, open(os.path.join(VERIF, 'evidence', pid + '.json'), 'w'), indent=1, default=str)
    print('%s tier=%s seed=%d: theorems %d/%d, cases %d (%d distinct non-trivial), model/impl disagreements %d, oracle failures %d new / %d known, %.0fs'
          % (pid, tier, seed, discharged, len(theorems), total_eval, len(distinct), len(corr_bad), len(new_fail), len(oracle_fail) - len(new_fail), wall))
    for b in broken[:5]:
        print('  broken: %s %s: %s' % (b[0], b[1], b[2].strip().split('\n')[-1][:300]))
    if violation:
        print('VIOLATION property=%s replay=%s%s' % (pid, violation[0], violation[1]))
        return 1
    return 0


def main(argv=None):
    ap = argparse.ArgumentParser()
    ap.add_argument('prop')
    ap.add_argument('--tier', default=os.environ.get('VERIF_TIER', 'quick'), choices=['quick', 'thorough'])
    ap.add_argument('--replay')
    ap.add_argument('--seed', type=int, default=int(os.environ.get('VERIF_SEED', '0') or 0))
    a = ap.parse_args(argv)
    pid = a.prop.upper()
    replay = None
    if a.replay:
        replay = json.load(open(a.replay))
        a.seed = replay.get('seed', a.seed)
    sys.path.insert(0, VERIF)
    # two runs of the same property (and tag) share a work directory: serialise them instead of letting one wipe the other
    with Lock('.run.%s%s.lock' % (pid, '_' + _TAG if _TAG else '')):
        return run_check(pid, a.tier, a.seed, replay)


if __name__ == '__main__':
    sys.exit(main())
