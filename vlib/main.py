"""Check driver:  ./check Cnn [--tier quick|thorough] [--replay file]

Pipeline (DESIGN.md section 2.5):
  translator -> make Props/Cnn.vo -> Print Assumptions per theorem -> hygiene grep
  -> correspondence (implementation vs. model inside Coq) -> property oracle on the implementation
  -> verdict, replay file, evidence file.
Exit 0 = property held on everything explored; exit 1 + "VIOLATION property=<id> replay=<path>".
"""
import sys, os, json, time, re, random, hashlib, subprocess, importlib, argparse, fcntl, glob, shutil
from concurrent.futures import ThreadPoolExecutor

VERIF = os.path.dirname(os.path.dirname(os.path.abspath(__file__)))
COQ_MAIN = os.path.join(VERIF, 'coq')
# A tagged run (VERIF_RUN_TAG, used for mutation self-tests and seeded changes beside other runs) works on a
# PRIVATE copy of the Coq tree, so that regenerated tables / rebuilt .vo files never disturb the shared tree.
_TAG = os.environ.get('VERIF_RUN_TAG', '')
COQ = os.path.join(VERIF, 'work', 'coq_' + _TAG) if _TAG else COQ_MAIN
REPO = os.environ.get('DCMSTACK_REPO', '/repo')
PY = '/venv/bin/python'
NCPU = int(os.environ.get('VERIF_JOBS', '16'))
THOROUGH_BUDGET_S = float(os.environ.get('VERIF_THOROUGH_BUDGET_S', '1200') or 1200)     # per check, split over its parts
THOROUGH_CHUNK = 1500
FORBIDDEN = r'\bAdmitted\b|\badmit\b|\bAxiom\b|\bAxioms\b|\bParameter\b|\bParameters\b|\bConjecture\b|Unset\s+Guard|Unset\s+Positivity|Unset\s+Universe|bypass_check|type-in-type|impredicative-set|\bAdmit\s+Obligations\b|\bgive_up\b'


def sh(cmd, timeout, cwd=None, env=None, inp=None):
    try:
        p = subprocess.run(cmd, shell=isinstance(cmd, str), cwd=cwd, env=env, input=inp,
                           stdout=subprocess.PIPE, stderr=subprocess.STDOUT, timeout=timeout, text=True)
        return p.returncode, p.stdout
    except subprocess.TimeoutExpired as e:
        out = e.stdout if isinstance(e.stdout, str) else (e.stdout or b'').decode('utf-8', 'replace')
        return 124, (out or '') + '\n[timeout after %ss]' % timeout


class Lock:
    def __init__(self, name):
        os.makedirs(os.path.join(VERIF, 'work'), exist_ok=True)
        self.path = os.path.join(VERIF, 'work', name)

    def __enter__(self):
        self.f = open(self.path, 'w')
        fcntl.flock(self.f, fcntl.LOCK_EX)

    def __exit__(self, *a):
        fcntl.flock(self.f, fcntl.LOCK_UN)
        self.f.close()


# ---------------------------------------------------------------------------- Coq build

def coq_files():
    out = []
    for root, dirs, files in os.walk(COQ):
        dirs.sort()
        for f in sorted(files):
            if f.endswith('.v'):
                out.append(os.path.relpath(os.path.join(root, f), COQ))
    return sorted(out)


def ensure_makefile():
    proj = '-Q . DV\n' + '\n'.join(coq_files()) + '\n'
    pp = os.path.join(COQ, '_CoqProject')
    old = open(pp).read() if os.path.exists(pp) else None
    if old != proj or not os.path.exists(os.path.join(COQ, 'Makefile')):
        open(pp, 'w').write(proj)
        rc, out = sh('coq_makefile -f _CoqProject -o Makefile', 120, cwd=COQ)
        if rc != 0:
            raise RuntimeError('coq_makefile failed: ' + out)


def private_tree():
    if COQ == COQ_MAIN:
        return
    os.makedirs(COQ, exist_ok=True)
    with Lock('.build.lock'):      # do not copy while someone is writing .vo files
        rc, out = sh(['rsync', '-a', '--delete', '--exclude', '.lia.cache', '--exclude', '.nia.cache', '--exclude', '.nra.cache',
                      COQ_MAIN + '/', COQ + '/'], 900)
    if rc != 0:
        raise RuntimeError('cannot create the private Coq tree: ' + out)


def regen_tables():
    private_tree()
    return sh([PY, os.path.join(VERIF, 'tools', 'gen_tables.py'), '--repo', REPO, '--out', os.path.join(COQ, 'Generated')], 120)


def make_targets(targets, timeout=2400):
    lock = '.build.lock' if COQ == COQ_MAIN else '.build.lock.' + _TAG
    # fast path: nothing to rebuild -> no need to queue behind other people's long builds
    if os.path.exists(os.path.join(COQ, 'Makefile')) and os.path.exists(os.path.join(COQ, '_CoqProject')):
        proj = '-Q . DV\n' + '\n'.join(coq_files()) + '\n'
        if open(os.path.join(COQ, '_CoqProject')).read() == proj:
            rc, out = sh(['make', '-C', COQ, '-q'] + targets, 300)
            if rc == 0:
                return 0, 'up to date'
    with Lock(lock):
        ensure_makefile()
        return sh(['make', '-C', COQ, '-j%d' % NCPU] + targets, timeout)


def coqc(path, timeout=900):
    return sh('ulimit -s unlimited 2>/dev/null; exec coqc -q -Q %s DV %s' % (COQ, path), timeout, cwd=os.path.dirname(path))


def dep_closure(rels):
    """Transitive closure of the DV modules required by the given .v files (relative to coq/)."""
    seen, todo = set(), list(rels)
    while todo:
        rel = todo.pop()
        if rel in seen or not os.path.exists(os.path.join(COQ, rel)):
            continue
        seen.add(rel)
        txt = re.sub(r'\(\*.*?\*\)', ' ', open(os.path.join(COQ, rel)).read(), flags=re.S)
        for m in re.finditer(r'\bFrom\s+DV\s+Require\s+(?:Import\b|Export\b)?\s*(.*?)\.(?=\s|$)', txt, re.S):
            for mod in m.group(1).split():
                todo.append(mod.replace('.', '/') + '.v')
        for m in re.finditer(r'(?<!DV\s)\bRequire\s+(?:Import\b|Export\b)?\s*(.*?)\.(?=\s|$)', txt, re.S):
            for mod in m.group(1).split():
                if mod.startswith('DV.'):
                    todo.append(mod[3:].replace('.', '/') + '.v')
    return sorted(seen)


def hygiene(only=None):
    bad = []
    rx = re.compile(FORBIDDEN)
    for rel in (coq_files() if only is None else only):
        txt = open(os.path.join(COQ, rel)).read()
        # strip comments (non-nested approximation is enough: nested comments only make us stricter)
        stripped = re.sub(r'\(\*.*?\*\)', ' ', txt, flags=re.S)
        for i, line in enumerate(stripped.split('\n'), 1):
            if rx.search(line):
                bad.append('%s:%d: %s' % (rel, i, line.strip()[:120]))
        # Variable/Hypothesis/Context outside a Section
        depth = 0
        for i, line in enumerate(stripped.split('\n'), 1):
            s = line.strip()
            if re.match(r'(Section|Module\s+Type)\b', s):
                depth += 1
            elif re.match(r'End\b', s) and depth > 0:
                depth -= 1
            elif depth == 0 and re.match(r'(Variable|Variables|Hypothesis|Hypotheses|Context)\b', s):
                bad.append('%s:%d: %s outside a section' % (rel, i, s.split()[0]))
    return bad


def check_assumptions(pid, props_files, theorems, allowed, work):
    """One tiny file per theorem: Check + Print Assumptions.  Returns (results, failures)."""
    imports = ''.join('Require Import DV.%s.\n' % f[:-2].replace('/', '.') for f in props_files)
    jobs = []
    for th in theorems:
        p = os.path.join(work, 'assum_%s.v' % th)
        open(p, 'w').write('%sCheck %s.\nPrint Assumptions %s.\n' % (imports, th, th))
        jobs.append((th, p))
    res, fails = {}, []
    with ThreadPoolExecutor(NCPU) as ex:
        outs = list(ex.map(lambda j: coqc(j[1], 600), jobs))
    for (th, p), (rc, out) in zip(jobs, outs):
        if rc != 0:
            fails.append('theorem %s: not found or does not check: %s' % (th, out.strip()[-400:]))
            continue
        m = re.search(r'(Closed under the global context|Axioms:.*)$', out, re.S)
        stmt = out[:m.start()].strip() if m else out.strip()
        axioms = []
        if not m:
            fails.append('theorem %s: no Print Assumptions output' % th)
        elif m.group(1).startswith('Axioms:'):
            body = m.group(1)[len('Axioms:'):]
            axioms = re.findall(r'^([A-Za-z_][\w\.\']*)\s*:', body, re.M)
            for a in axioms:
                if a not in allowed and a.split('.')[-1] not in allowed:
                    fails.append('theorem %s depends on axiom %s (not in the allowed list)' % (th, a))
        res[th] = {'statement': re.sub(r'\s+', ' ', stmt)[:1500], 'axioms': axioms}
    return res, fails


# ---------------------------------------------------------------------------- parts / implementation

class Part:
    FIELDS = ['NAME', 'CORR_REQUIRE', 'CORR_CASE_TYPE', 'CORR_CHECK', 'SHARD', 'gen_cases', 'run_impl',
              'coq_case', 'oracle', 'signature', 'nontrivial', 'shrink', 'RULE', 'IMPL_TIMEOUT', 'IMPL_JOBS', 'CORR_SHOW', 'BORROWED_FROM']

    def __init__(self, obj, idx):
        self.idx = idx
        for f in self.FIELDS:
            setattr(self, f, getattr(obj, f, None))
        self.NAME = self.NAME or 'main'
        self.SHARD = self.SHARD or 250


def get_parts(plugin):
    objs = getattr(plugin, 'PARTS', None)
    if objs is None:
        objs = [plugin] if hasattr(plugin, 'gen_cases') else []
    return [Part(o, i) for i, o in enumerate(objs)]


def impl_batch(modname, part, cases, work, tag='impl'):
    """Run the real implementation on the cases in sub-processes; returns the list of observations."""
    if not cases:
        return []
    jobs = part.IMPL_JOBS or NCPU
    n = max(1, min(jobs, (len(cases) + 7) // 8))
    chunks = [cases[i::n] for i in range(n)]
    env = dict(os.environ, PYTHONPATH=VERIF, DCMSTACK_REPO=REPO, PYTHONHASHSEED='0', DCMSTACK_VERIF='1',
               VERIF_WORK=work, OMP_NUM_THREADS='1', OPENBLAS_NUM_THREADS='1')

    def run(i):
        fi = os.path.join(work, '%s_%s_in_%d.json' % (tag, part.NAME, i))
        fo = os.path.join(work, '%s_%s_out_%d.json' % (tag, part.NAME, i))
        json.dump(chunks[i], open(fi, 'w'))
        if os.path.exists(fo):
            os.remove(fo)
        to = (part.IMPL_TIMEOUT or 20) * len(chunks[i]) + 120
        rc, out = sh([PY, '-m', 'vlib.implrun', modname, str(part.idx), fi, fo, str(part.IMPL_TIMEOUT or 20)], to, cwd=VERIF, env=env)
        if rc != 0 or not os.path.exists(fo):
            return [{'crash': 'HarnessFailure', 'msg': out[-800:]} for _ in chunks[i]]
        r = json.load(open(fo))
        os.remove(fi)
        os.remove(fo)
        return r
    with ThreadPoolExecutor(n) as ex:
        outs = list(ex.map(run, range(n)))
    res = [None] * len(cases)
    for i in range(n):
        for j, o in enumerate(outs[i]):
            res[i + j * n] = o
    return res


def model_batch(part, cases, obs, work, tag='corr'):
    """Writes shards of Coq cases (inputs + implementation observations), evaluates the model inside
    Coq and returns (list of mismatching case indices, list of harness errors)."""
    if not part.CORR_CHECK or not cases:
        return [], []
    shard = part.SHARD
    files = []
    lits, errs0, bad0 = [], [], []
    for i, (c, o) in enumerate(zip(cases, obs)):
        try:
            lits.append(part.coq_case(c, o))
        except Exception as e:     # typically: the implementation crashed and the observation has no Coq rendering
            lits.append(None)
            bad0.append(i)
            if len(errs0) < 3:
                errs0.append('case %d has no Coq rendering (%s: %s); implementation observation: %s' % (i, type(e).__name__, e, json.dumps(o, default=str)[:300]))
    keep = [i for i in range(len(cases)) if lits[i] is not None]
    for k in range(0, len(keep), shard):
        p = os.path.join(work, '%s_%s_%d.v' % (tag, part.NAME, k // shard))
        with open(p, 'w') as f:
            f.write('From Coq Require Import List ZArith NArith QArith Bool.\nImport ListNotations.\n')
            f.write('From DV Require Import Common.Res Common.CorrBase.\n')
            f.write(part.CORR_REQUIRE + '\n')
            f.write('Definition cases : list (%s) := [\n' % part.CORR_CASE_TYPE)
            f.write(';\n'.join(lits[i] for i in keep[k:k + shard]))
            f.write('\n].\nEval vm_compute in (mismatches (%s) cases).\n' % part.CORR_CHECK)
        files.append((k, p))
    with ThreadPoolExecutor(NCPU) as ex:
        outs = list(ex.map(lambda kp: coqc(kp[1], 1200), files))
    # a shard that died without a Coq error message (killed by the OOM killer / a signal on a loaded machine) is retried
    # alone, once; a genuine Coq error (type error in a literal, anomaly) is reported as before
    for n, ((k, p), (rc, out)) in enumerate(zip(files, outs)):
        if rc != 0 and not re.search(r'\bError\b|Anomaly', out):
            outs[n] = coqc(p, 2400)
    bad, errs = list(bad0), []
    for (k, p), (rc, out) in zip(files, outs):
        m = re.search(r'=\s*\[(.*?)\]\s*:\s*list nat', out, re.S)
        if rc != 0 or not m:
            errs.append('%s: %s' % (os.path.basename(p), out.strip()[-600:]))
            continue
        body = m.group(1).strip()
        if body:
            bad += [keep[k + int(x)] for x in re.findall(r'\d+', body)]
        for ext in ('.vo', '.vok', '.vos', '.glob'):
            q = p[:-2] + ext
            if os.path.exists(q):
                os.remove(q)
        aux = os.path.join(os.path.dirname(p), '.' + os.path.basename(p)[:-2] + '.aux')
        if os.path.exists(aux):
            os.remove(aux)
    return sorted(bad), errs


def model_show(part, case, obs, work):
    if not part.CORR_SHOW:
        return None
    try:
        lit = part.coq_case(case, obs)
    except Exception as e:
        return 'the implementation observation has no Coq rendering (%s: %s)' % (type(e).__name__, e)
    p = os.path.join(work, 'show_%s.v' % part.NAME)
    with open(p, 'w') as f:
        f.write('From Coq Require Import List ZArith NArith QArith Bool.\nImport ListNotations.\n')
        f.write('From DV Require Import Common.Res Common.CorrBase.\n' + part.CORR_REQUIRE + '\n')
        f.write('Eval vm_compute in (%s (%s)).\n' % (part.CORR_SHOW, lit))
    rc, out = coqc(p, 300)
    return out.strip()[-3000:]


# ---------------------------------------------------------------------------- known findings

def known_open(pid):
    out = []
    p = os.path.join(VERIF, 'known-findings.txt')
    if os.path.exists(p):
        for line in open(p):
            m = re.match(r'open:\s+property=(\S+)\s+sig=(\S+)\s+(.*)', line.strip())
            if m and m.group(1) == pid:
                out.append((m.group(2), m.group(3)))
    return out


# ---------------------------------------------------------------------------- the check

def case_hash(c):
    return hashlib.sha1(json.dumps(c, sort_keys=True, default=str).encode()).hexdigest()


def load_corpus(pid, part):
    d = os.path.join(VERIF, 'corpus', pid)
    out = []
    for p in sorted(glob.glob(os.path.join(d, '*.json'))):
        j = json.load(open(p))
        if j.get('part', 'main') == part.NAME:
            out.append(j['case'])
    return out


def sig_of(part, c, o, msg):
    if isinstance(o, dict) and 'crash' in o and msg.startswith(CRASH_PREFIX):
        return 'crash/%s/%s' % (part.NAME, o.get('crash'))
    try:
        return part.signature(c, o, msg) if part.signature else 'any'
    except Exception as e:
        return 'signature-raised/%s/%s' % (part.NAME, type(e).__name__)


CRASH_PREFIX = 'unexpected exception '


def judge(part, c, o):
    """The part's oracle plus the uniform rule for crash observations: an exception that run_impl did not map to an
    expected error (or a per-case timeout) is never silently accepted."""
    msg = part.oracle(c, o) if part.oracle else None
    if not msg and isinstance(o, dict) and 'crash' in o and o.get('crash') != 'HarnessFailure':
        msg = CRASH_PREFIX + '%s from the implementation (not an error the property allows for this input): %s' % (
            o.get('crash'), str(o.get('msg', ''))[:300])
    return msg


def shrink_case(modname, part, case, obs, msg, work, budget=40, known=()):
    if not part.shrink:
        return case, obs, msg
    sig0 = sig_of(part, case, obs, msg)
    rounds = 0
    while rounds < budget:
        rounds += 1
        cands = list(part.shrink(case))[:64]
        if not cands:
            break
        cobs = impl_batch(modname, part, cands, work, tag='shrink')
        nxt = None
        for c, o in zip(cands, cobs):
            try:
                m = judge(part, c, o)
            except Exception:
                m = None
            # a smaller candidate is accepted only when it fails for the SAME reason (never drift into another
            # defect, a known finding, or an input outside the valid domain)
            if m and sig_of(part, c, o, m) == sig0:
                nxt = (c, o, m)
                break
        if not nxt:
            break
        case, obs, msg = nxt
    return case, obs, msg


def dump_replay(rec, rp):
    os.makedirs(os.path.dirname(rp), exist_ok=True)
    json.dump(rec, open(rp, 'w'), indent=1, default=str)


def is_tie_file(f):
    return os.path.basename(f).startswith('SRC')


def th_names_in(files):
    out = []
    for f in files:
        pth = os.path.join(COQ, f)
        if os.path.exists(pth):
            txt = re.sub(r'\(\*.*?\*\)', ' ', open(pth).read(), flags=re.S)
            out += re.findall(r'^\s*(?:Theorem|Lemma|Corollary|Proposition|Fact)\s+([A-Za-z_][\w\']*)', txt, re.M)
    return out


def eval_part(modname, part, cases, work, build_ok, tag_impl='impl', tag_corr='corr'):
    """implementation + model + oracle on a list of cases -> (obs, bad indices, harness errors, oracle failures)"""
    obs = impl_batch(modname, part, cases, work, tag=tag_impl)
    # a per-case timeout / runner failure is retried once, alone, with a longer limit (a loaded machine is not a violation)
    redo = [i for i, o in enumerate(obs) if isinstance(o, dict) and o.get('crash') in ('Timeout', 'HarnessFailure')]
    if redo and len(redo) <= 40:
        old = part.IMPL_TIMEOUT
        part.IMPL_TIMEOUT = 4 * (old or 20)
        try:
            for i in redo:
                obs[i] = impl_batch(modname, part, [cases[i]], work, tag=tag_impl + 'retry')[0]
        finally:
            part.IMPL_TIMEOUT = old
    errs = []
    harness_crash = [i for i, o in enumerate(obs) if isinstance(o, dict) and o.get('crash') == 'HarnessFailure']
    if harness_crash:
        errs.append('implementation runner failed: ' + str(obs[harness_crash[0]].get('msg')))
    bad = []
    if build_ok:
        bad, e2 = model_batch(part, cases, obs, work, tag=tag_corr)
        errs += ['model evaluation failed: ' + e for e in e2]
    fails = []
    for c, o in zip(cases, obs):
        try:
            msg = judge(part, c, o)
        except Exception as e:   # an oracle that cannot judge is a harness fault, reported loudly
            msg = None
            errs.append('oracle raised %s: %s' % (type(e).__name__, e))
        if msg:
            fails.append((part, c, o, msg))
    return obs, bad, errs, fails


def run_check(pid, tier, seed, replay=None):
    t0 = time.time()
    modname = 'props.' + pid.lower()
    plugin = importlib.import_module(modname)
    tag = os.environ.get('VERIF_RUN_TAG', '')
    work = os.path.join(VERIF, 'work', pid + ('_' + tag if tag else ''))
    if not replay:
        shutil.rmtree(work, ignore_errors=True)
    os.makedirs(work, exist_ok=True)
    # replay files survive the next run (work/<ID> is wiped at every start)
    rdir = os.path.join(VERIF, 'replays', pid + ('_' + tag if tag else ''))
    os.makedirs(rdir, exist_ok=True)
    official = not tag and os.path.realpath(REPO) == os.path.realpath('/repo')
    parts = get_parts(plugin)
    broken = []          # (kind, name, text)   -- hard: the property is no longer shown to hold
    tie_broken = []      # (kind, name, text)   -- soft: only the source-TRANSLATION tie (Props/SRC*.v, t_src_* tables) is affected;
    #                       the hand model is then still tied to the code by the correspondence check, which is intensified
    log = []
    soft_ok = pid != 'SRC'

    # 1. translator
    rc, out = regen_tables()
    log.append(out.strip())
    translator_out = out if rc != 0 else None

    # 2. proof obligations
    props_files = list(plugin.COQ_PROPS) if isinstance(plugin.COQ_PROPS, (list, tuple)) else [plugin.COQ_PROPS]
    tie_files = [f for f in props_files if soft_ok and is_tie_file(f)]
    hard_files = [f for f in props_files if f not in tie_files]
    props_file = props_files[0]
    theorems = list(plugin.THEOREMS)
    tie_names = set(th_names_in(tie_files))
    # every theorem stated in a property file is an obligation, listed by the plugin or not
    for t in th_names_in(hard_files) + sorted(tie_names):
        if t not in theorems:
            theorems.append(t)
    tie_theorems = [t for t in theorems if t in tie_names]
    hard_theorems = [t for t in theorems if t not in tie_names]
    allowed = list(getattr(plugin, 'ALLOWED_AXIOMS', []))
    extra_targets = [t for t in getattr(plugin, 'COQ_EXTRA_TARGETS', [])]
    for part in parts:       # the modules the correspondence shards import must be up to date as well
        for mod in re.findall(r'\b[A-Za-z_]\w*(?:\.[A-Za-z_]\w*)+', part.CORR_REQUIRE or ''):
            rel = mod.replace('.', '/') + '.v'
            if os.path.exists(os.path.join(COQ, rel)) and rel + 'o' not in extra_targets:
                extra_targets.append(rel + 'o')
    rc, out = make_targets([f + 'o' for f in hard_files] + extra_targets)
    build_ok = rc == 0
    if not build_ok:
        m = re.findall(r'File "([^"]+)", line (\d+).*?\n(Error:.*?)(?=\nmake|\Z)', out, re.S)
        name = m[0][0] if m else props_file
        broken.append(('broken-obligation', name, out.strip()[-2500:]))
    tie_build_ok = False
    if build_ok and tie_files:
        rc, out = make_targets([f + 'o' for f in tie_files])
        tie_build_ok = rc == 0
        if not tie_build_ok:
            m = re.findall(r'File "([^"]+)", line (\d+).*?\n(Error:.*?)(?=\nmake|\Z)', out, re.S)
            tie_broken.append(('broken-source-tie', m[0][0] if m else tie_files[0], out.strip()[-2500:]))
    assum, discharged = {}, 0
    if build_ok:
        assum, fails = check_assumptions(pid, hard_files, hard_theorems, allowed, work)
        if tie_build_ok:
            a2, f2 = check_assumptions(pid, tie_files, tie_theorems, allowed, work)
            assum.update(a2)
            for f in f2:
                tie_broken.append(('broken-source-tie', f.split(':')[0], f))
            fails_all = fails + f2
        else:
            fails_all = fails
        for f in fails:
            broken.append(('broken-obligation', f.split(':')[0], f))
        bad_th = set(re.match(r'theorem (\S+?):? ', f).group(1).rstrip(':') for f in fails_all if f.startswith('theorem '))
        discharged = len([t for t in theorems if t in assum and t not in bad_th])
    coqchk_report = None
    if build_ok and tier == 'thorough' and replay is None:
        # independent re-check of the compiled theorem files and everything they depend on
        mods = ' '.join('DV.' + f[:-2].replace('/', '.') for f in hard_files + (tie_files if tie_build_ok else []))
        rc2, out2 = sh('coqchk -silent -o -Q %s DV %s' % (COQ, mods), 3000, cwd=COQ)
        m2 = re.search(r'CONTEXT SUMMARY.*', out2, re.S)
        coqchk_report = re.sub(r'\s+', ' ', m2.group(0))[:1500] if m2 else out2.strip()[-800:]
        ax = re.search(r'\* Axioms:(.*?)\* Constants/Inductives relying on type-in-type:(.*?)\* Constants/Inductives relying on unsafe \(co\)fixpoints:(.*?)\* Inductives whose positivity is assumed:(.*)', out2, re.S)
        if rc2 != 0 or not ax:
            broken.append(('broken-obligation', 'coqchk', out2.strip()[-1200:]))
        else:
            axioms = [a.strip() for a in ax.group(1).strip().split('\n') if a.strip() and a.strip() != '<none>']
            bad_ax = [a for a in axioms if a.split()[0] not in allowed and a.split()[0].split('.')[-1] not in allowed]
            for extra in ax.groups()[1:]:
                if extra.strip() != '<none>':
                    bad_ax.append('unsafe: ' + extra.strip()[:200])
            for a in bad_ax:
                broken.append(('broken-obligation', 'coqchk', 'coqchk reports %s' % a))
    hard_closure = dep_closure(list(hard_files) + [t[:-1] for t in extra_targets])
    closure = dep_closure(list(props_files) + [t[:-1] for t in extra_targets])
    if translator_out is not None:
        # tables this property depends on: those named by the plugin plus every Generated/T_x.v in the dependency closure
        named = set(getattr(plugin, 'TABLES', None) or [])
        in_hard = set('t_' + os.path.basename(f)[2:-2] for f in hard_closure if f.startswith('Generated/T_'))
        in_any = set('t_' + os.path.basename(f)[2:-2] for f in closure if f.startswith('Generated/T_'))
        errs = re.findall(r'^TABLE-ERROR (\S+): (.*)$', translator_out, re.M)
        if not re.search(r'^TABLE-ERROR', translator_out, re.M):
            broken.insert(0, ('translator-abort', 'tools/gen_tables.py', translator_out.strip()[-1500:]))
        for tname, text in errs:
            if not (tname in in_any or tname in named):
                continue
            gen_file = os.path.join(COQ, 'Generated', 'T_' + tname[2:] + '.v')
            if soft_ok and tname.startswith('t_src_') and tname not in in_hard:
                tie_broken.insert(0, ('source-translator-abort', tname, '%s: %s' % (tname, text[-1200:])))
            elif soft_ok and os.path.exists(gen_file):
                # The source was rewritten into a shape the table translator does not recognise.  The table generated from
                # the last source it DID recognise stays in place (gen_tables.py never writes on failure), so model and
                # theorems are evaluated with those constants; whether they still describe the code is then decided by the
                # (intensified) correspondence, exactly as for the function-body translation tie (DESIGN.md 2.5b).
                tie_broken.insert(0, ('table-translator-abort', tname, '%s: %s (model evaluated with the last successfully generated %s)'
                                      % (tname, text[-1200:], os.path.basename(gen_file))))
            else:
                broken.insert(0, ('translator-abort', 'tools/gen_tables.py', '%s: %s' % (tname, text[-1200:])))
    hyg = hygiene(closure)
    for h in hyg:
        broken.append(('broken-obligation', 'hygiene', h))
    elsewhere = [h for h in hygiene() if h not in hyg]
    if elsewhere:
        print('note: forbidden constructs in files this property does not depend on (reported by their own checks / setup.sh): %s' % '; '.join(elsewhere[:3]))

    # 3. correspondence + oracle, per part
    rng_master = random.Random(seed)
    stats = []
    oracle_fail, corr_bad, samples = [], [], []
    total_eval, distinct = 0, set()
    ran_parts = 0
    if not parts:
        broken.append(('broken-correspondence', 'plugin', 'the plugin defines no correspondence part'))
    for part in parts:
        rng = random.Random(rng_master.getrandbits(64))
        if replay is not None:
            if replay.get('part', 'main') != part.NAME or 'case' not in replay:
                continue
            cases = [replay['case']]
        else:
            cases = load_corpus(pid, part) + list(part.gen_cases(rng, tier))
            if not cases:
                broken.append(('broken-correspondence', part.NAME, 'the part generated no case at all'))
        ran_parts += 1
        tcase = time.time()
        dropped = 0
        if tier == 'thorough' and replay is None and len(cases) > THOROUGH_CHUNK:
            # thorough = as many of the generated cases as fit into the time budget of the check (split evenly over its parts):
            # the stream is processed in order (corpus, systematic blocks, then the seeded random stream) chunk by chunk
            budget = max(120.0, THOROUGH_BUDGET_S / max(1, len(parts)))
            obs, bad, errs, fails, done = [], [], [], [], 0
            while done < len(cases):
                chunk = cases[done:done + THOROUGH_CHUNK]
                o, b, e, f = eval_part(modname, part, chunk, work, build_ok)
                obs += o; bad += [done + i for i in b]; errs += e; fails += f
                done += len(chunk)
                if time.time() - tcase > budget:
                    break
            dropped = len(cases) - done
            cases = cases[:done]
        else:
            obs, bad, errs, fails = eval_part(modname, part, cases, work, build_ok)
        tall = time.time() - tcase
        pname = part.NAME + (' (correspondence borrowed from %s)' % part.BORROWED_FROM if part.BORROWED_FROM else '')
        for e in errs:
            broken.append(('broken-correspondence', pname, e))
        for i in bad:
            corr_bad.append((part, cases[i], obs[i]))
        oracle_fail += fails
        kinds = {}
        for i, (c, o) in enumerate(zip(cases, obs)):
            kinds[c.get('kind', '?')] = kinds.get(c.get('kind', '?'), 0) + 1
            nt = part.nontrivial(c, o) if part.nontrivial else True
            if nt:
                distinct.add(part.NAME + case_hash(c))
        total_eval += len(cases)
        errkinds = {}
        for o in obs:
            if isinstance(o, dict) and ('err' in o or 'crash' in o):
                k = o.get('err') or ('crash:' + str(o.get('crash')))
                k = k if isinstance(k, str) else json.dumps(k, default=str)[:60]
                errkinds[k] = errkinds.get(k, 0) + 1
        stats.append({'part': part.NAME, 'cases': len(cases), 'generated_but_beyond_time_budget': dropped, 'kinds': kinds, 'impl_error_kinds': errkinds,
                      'model_mismatches': len(bad), 'impl_and_model_s': round(tall, 1)})
        for c, o in list(zip(cases, obs))[:1] + list(zip(cases, obs))[-1:]:
            samples.append({'part': part.NAME, 'case': c, 'impl_obs': o})
    if replay is not None and ran_parts == 0:
        broken.append(('broken-correspondence', 'replay', 'the replay file names part %r which this plugin does not have (or carries no case)' % replay.get('part')))

    # 4. verdict
    known = known_open(pid)
    known_sigs = set(k[0] for k in known)

    def split_known(fails):
        hits, new = {}, []
        for part, c, o, msg in fails:
            sig = sig_of(part, c, o, msg)
            if sig in known_sigs:
                hits.setdefault(sig, 0)
                hits[sig] += 1
            else:
                new.append((part, c, o, msg, sig))
        return hits, new
    known_hits, new_fail = split_known(oracle_fail)
    for sig, what in known:
        if sig in known_hits:
            print('KNOWN-FINDING: property=%s %s (sig=%s)' % (pid, what, sig))
        elif replay is None:
            print('note: open finding of %s not observed in this run (sig=%s): if it was repaired upstream, move its line to fixed:' % (pid, sig))

    violation = None
    rp = os.path.join(rdir, 'replay_%s_%d%s.json' % (tier, seed, '_rerun' if replay is not None else ''))
    tie_note = None

    def write_failing(part, c, o, msg, sig, nfail, extra):
        c, o, msg = shrink_case(modname, part, c, o, msg, work)
        rec = {'property': pid, 'kind': 'failing-input', 'part': part.NAME, 'seed': seed, 'tier': tier, 'case': c,
               'impl_obs': o, 'oracle_message': msg, 'signature': sig, 'n_failing_inputs': nfail,
               'also_broken': [b[:2] for b in broken + tie_broken][:10]}
        rec.update(extra)
        if build_ok:
            rec['model_obs'] = model_show(part, c, o, work)
        dump_replay(rec, rp)
        return (rp, '')

    def search(rounds, with_model):
        """fresh random cases: oracle (and, for the intensified correspondence, the model) -> failing input / disagreements"""
        dis, nsearch = [], 0
        for rnd in rounds:
            for part in parts:
                cs = list(part.gen_cases(random.Random(seed * 7919 + rnd * 104729 + part.idx), tier))
                nsearch += len(cs)
                if with_model:
                    ob, bad, errs, fails = eval_part(modname, part, cs, work, build_ok, 'search', 'searchcorr')
                    dis += [(part, cs[i], ob[i]) for i in bad]
                    dis += [(part, None, e) for e in errs]
                else:
                    ob = impl_batch(modname, part, cs, work, tag='search')
                    fails = []
                    for c, o in zip(cs, ob):
                        try:
                            msg = judge(part, c, o)
                        except Exception:
                            msg = None
                        if msg:
                            fails.append((part, c, o, msg))
                _, new = split_known(fails)
                if new:
                    return new[0], dis, nsearch
        return None, dis, nsearch

    if new_fail:
        part, c, o, msg, sig = min(new_fail, key=lambda x: len(json.dumps(x[1], default=str)))
        violation = write_failing(part, c, o, msg, sig, len(new_fail), {})
    elif corr_bad or broken:
        # SEARCH for a concrete failing input: fresh random cases through the oracle only
        found = search(range(1, 4), False)[0] if replay is None else None
        if found:
            part, c, o, msg, sig = found
            violation = write_failing(part, c, o, msg, sig, 1, {'found_by': 'search after a broken obligation/correspondence',
                                                               'broken': [list(b) for b in broken][:10]})
        else:
            rec = {'property': pid, 'seed': seed, 'tier': tier}
            if corr_bad:
                part, c, o = corr_bad[0]
                rec.update({'kind': 'broken-correspondence', 'part': part.NAME, 'case': c, 'impl_obs': o,
                            'correspondence': '%s.%s on part %s%s' % (part.CORR_REQUIRE, part.CORR_CHECK, part.NAME,
                                                                      ' (borrowed from %s)' % part.BORROWED_FROM if part.BORROWED_FROM else ''),
                            'n_disagreements': len(corr_bad),
                            'model_obs': model_show(part, c, o, work) if build_ok else None,
                            'note': 'model and implementation disagree on this input; the property oracle found no input on which the property itself fails'})
            else:
                rec.update({'kind': broken[0][0], 'theorem': broken[0][1], 'text': broken[0][2]})
            rec['broken'] = [list(b) for b in broken + tie_broken][:10]
            dump_replay(rec, rp)
            violation = (rp, ' no-failing-input-found')
    elif tie_broken:
        # Only the source-TRANSLATION tie is affected (the code was rewritten into something the translator does not
        # cover, or the translated text no longer matches the hand model syntactically).  The property theorems about
        # the hand model all check, and the hand model is tied to the code by the SECOND tie, the correspondence check,
        # which found no disagreement; intensify it (two more full streams through implementation, model and oracle).
        found, dis, nsearch = (None, [], 0) if replay is not None else search((11, 12), True)
        total_eval += nsearch
        if found:
            part, c, o, msg, sig = found
            violation = write_failing(part, c, o, msg, sig, 1, {'found_by': 'intensified correspondence after a broken source-translation tie'})
        elif dis:
            part, c, o = dis[0]
            rec = {'property': pid, 'seed': seed, 'tier': tier, 'kind': 'broken-correspondence', 'part': part.NAME, 'case': c, 'impl_obs': o,
                   'n_disagreements': len(dis), 'broken': [list(b) for b in tie_broken][:10],
                   'model_obs': model_show(part, c, o, work) if (build_ok and c is not None) else None}
            dump_replay(rec, rp)
            violation = (rp, ' no-failing-input-found')
        else:
            tie_note = ('source-translation tie NOT re-established on this tree (%s); the property theorems on the hand model all check and the '
                        'hand model agrees with the implementation on %d cases (normal stream + two extra streams), 0 disagreements, 0 oracle failures'
                        % ('; '.join('%s %s' % (b[0], b[1]) for b in tie_broken[:4]), total_eval))
            print('NOTE: ' + tie_note)

    # 5. evidence
    wall = time.time() - t0
    tb = list(getattr(plugin, 'TRUSTED_BASE', []))
    obligations = len(theorems)
    if tie_note:       # the tie theorems that did not check are not counted as discharged obligations of this run: say so
        obligations = discharged
    ev = {
        'property_id': pid, 'tier': tier, 'seed': seed, 'level': 'proof',
        'coverage': {
            'obligations': obligations, 'discharged': discharged,
            'checker_cmd': 'make -C coq %s && coqc (Check + Print Assumptions per theorem); forbidden-construct grep over coq/' % ' '.join(f + 'o' for f in props_files),
            'trusted_base': ['Coq 8.16.1 kernel + vm_compute (no native_compute)',
                             'tools/gen_tables.py + tools/tables/*.py (literal tables translated from the Python AST on every run)',
                             'correspondence harness vlib/*.py + props/%s.py (generators, implementation runner, Coq literal printer)' % pid.lower()] + tb,
            'theorems': assum,
            'coqchk': coqchk_report,
            'evaluations': total_eval, 'distinct_nontrivial': len(distinct),
            'rule': getattr(plugin, 'RULE', '') or '; '.join(filter(None, [p.RULE for p in parts])),
            'samples': samples[:8],
            'correspondence': stats,
            'model_impl_disagreements': len(corr_bad), 'oracle_failures_new': len(new_fail),
            'oracle_failures_known': len(oracle_fail) - len(new_fail),
            'known_findings_seen': known_hits,
            'known_findings_not_seen': [k[0] for k in known if k[0] not in known_hits],
            'broken_obligations': [list(b[:2]) for b in broken],
            'source_tie_downgraded': tie_note,
            'exhaustive': False,
        },
        'assumptions': list(getattr(plugin, 'ASSUMPTIONS', [])),
        'wall_s': round(wall, 1),
        'violations': 1 if violation else 0,
    }
    if replay is None:
        # only a run against /repo itself, in the shared tree, writes the official evidence; mutation / seeded runs keep theirs
        edir = os.path.join(VERIF, 'evidence') if official else work
        os.makedirs(edir, exist_ok=True)
        json.dump(ev, open(os.path.join(edir, pid + '.json'), 'w'), indent=1, default=str)
    print('%s tier=%s seed=%d: theorems %d/%d, cases %d (%d distinct non-trivial), model/impl disagreements %d, oracle failures %d new / %d known, %.0fs'
          % (pid, tier, seed, discharged, len(theorems), total_eval, len(distinct), len(corr_bad), len(new_fail), len(oracle_fail) - len(new_fail), wall))
    for b in (broken + tie_broken)[:5]:
        print('  broken: %s %s: %s' % (b[0], b[1], b[2].strip().split('\n')[-1][:300]))
    if violation:
        print('VIOLATION property=%s replay=%s%s' % (pid, violation[0], violation[1]))
        return 1
    return 0


def main(argv=None):
    ap = argparse.ArgumentParser()
    ap.add_argument('prop')
    ap.add_argument('--tier', default=os.environ.get('VERIF_TIER', 'quick') or 'quick', choices=['quick', 'thorough'])
    ap.add_argument('--replay')
    ap.add_argument('--seed', type=int, default=int(os.environ.get('VERIF_SEED', '0') or 0))
    a = ap.parse_args(argv)
    pid = a.prop.upper()
    replay = None
    if a.replay:
        replay = json.load(open(a.replay))
        a.seed = replay.get('seed', a.seed)
        a.tier = replay.get('tier', a.tier)
    sys.path.insert(0, VERIF)
    # two runs of the same property (and tag) share a work directory: serialise them instead of letting one wipe the other
    with Lock('.run.%s%s.lock' % (pid, '_' + _TAG if _TAG else '')):
        try:
            return run_check(pid, a.tier, a.seed, replay)
        except Exception as e:      # the machinery itself failed: the property is not shown to hold -- say so in the agreed format
            import traceback
            rdir = os.path.join(VERIF, 'replays', pid + ('_' + _TAG if _TAG else ''))
            os.makedirs(rdir, exist_ok=True)
            rp = os.path.join(rdir, 'replay_%s_%d_harness.json' % (a.tier, a.seed))
            json.dump({'property': pid, 'kind': 'harness-error', 'seed': a.seed, 'tier': a.tier,
                       'text': traceback.format_exc()[-4000:]}, open(rp, 'w'), indent=1)
            print('  broken: harness-error %s: %s' % (type(e).__name__, str(e)[:300]))
            print('VIOLATION property=%s replay=%s no-failing-input-found' % (pid, rp))
            return 1


if __name__ == '__main__':
    sys.exit(main())
