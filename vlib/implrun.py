"""Sub-process that runs the REAL implementation (imported from $DCMSTACK_REPO/src) on a batch of cases.
usage: python -m vlib.implrun <plugin module> <part index> <in.json> <out.json> <per-case timeout s>"""
import sys, os, json, signal, importlib, warnings, traceback


class CaseTimeout(BaseException):      # BaseException: a plugin's broad `except Exception` must not swallow the per-case alarm
    pass


def _alarm(sig, frm):
    raise CaseTimeout()


def main():
    modname, pidx, fin, fout, tmo = sys.argv[1], int(sys.argv[2]), sys.argv[3], sys.argv[4], int(sys.argv[5])
    repo = os.environ.get('DCMSTACK_REPO', '/repo')
    src = os.path.join(repo, 'src')
    if not os.path.isdir(os.path.join(src, 'dcmstack')):
        raise SystemExit('implementation tree not found: %s (DCMSTACK_REPO=%s)' % (src, repo))
    sys.path.insert(0, src)
    import dcmstack as _d
    if not os.path.realpath(_d.__file__).startswith(os.path.realpath(src) + os.sep):
        raise SystemExit('refusing to run: dcmstack was imported from %s, not from %s' % (_d.__file__, src))
    warnings.simplefilter('ignore')
    plugin = importlib.import_module(modname)
    parts = getattr(plugin, 'PARTS', None) or [plugin]
    part = parts[pidx]
    cases = json.load(open(fin))
    signal.signal(signal.SIGALRM, _alarm)
    out = []
    for c in cases:
        signal.alarm(tmo)
        try:
            o = part.run_impl(c)
        except CaseTimeout:
            o = {'crash': 'Timeout', 'msg': 'implementation did not finish within %ds' % tmo}
        except BaseException as e:   # run_impl is expected to map the exceptions it knows about itself
            o = {'crash': type(e).__name__, 'msg': (str(e) + ' | ' + traceback.format_exc()[-600:])}
        finally:
            signal.alarm(0)
        out.append(o)
    json.dump(out, open(fout, 'w'), default=str)


if __name__ == '__main__':
    main()
