"""Printers from Python values to Coq literals (text).  Used by table translators and by the
correspondence harness.  Every printer is total on its stated domain and raises otherwise."""
from fractions import Fraction


def cnat(n):
    assert isinstance(n, int) and not isinstance(n, bool) and 0 <= n < 100000, n
    return '%d%%nat' % n


def cN(n):
    assert isinstance(n, int) and not isinstance(n, bool) and n >= 0, n
    return '%d%%N' % n


def cz(i):
    assert isinstance(i, int) and not isinstance(i, bool), i
    return '(%d)%%Z' % i


def cbool(b):
    assert isinstance(b, bool), b
    return 'true' if b else 'false'


def clist(items):
    items = list(items)
    return '[' + '; '.join(items) + ']'


def copt(x, pr):
    return 'None' if x is None else '(Some %s)' % pr(x)


def cpair(a, b):
    return '(%s, %s)' % (a, b)


def cstr(s):
    """Python str -> [list N] of code points."""
    assert isinstance(s, str), s
    if not s:
        return '(@nil N)'
    return '[' + '; '.join('%d' % ord(c) for c in s) + ']%N'


def cbytes(b):
    assert isinstance(b, (bytes, bytearray))
    if not b:
        return '(@nil N)'
    return '[' + '; '.join('%d' % c for c in b) + ']%N'


def cq(x):
    """Exact rational (int, Fraction, or a float taken at its exact binary value) -> Q literal."""
    if isinstance(x, float):
        x = Fraction(x)
    x = Fraction(x)
    return '(%d # %d)%%Q' % (x.numerator, x.denominator)


def cjv(o, float_tok=repr):
    """JSON-representable Python value -> [jv] literal (DV.Common.Jv)."""
    if o is None:
        return 'JNull'
    if isinstance(o, bool):
        return '(JBool %s)' % cbool(o)
    if isinstance(o, int):
        return '(JInt %s)' % cz(o)
    if isinstance(o, float):
        return '(JNum %s)' % cstr(float_tok(o))
    if isinstance(o, str):
        return '(JStr %s)' % cstr(o)
    if isinstance(o, (list, tuple)):
        return '(JArr %s)' % clist(cjv(x, float_tok) for x in o)
    if isinstance(o, dict):
        return '(JObj %s)' % clist(cpair(cstr(k), cjv(v, float_tok)) for k, v in o.items())
    raise TypeError('not JSON representable: %r' % (o,))
