"""C18 — grouping partitions the readable image files and isolates faulty ones.

One case = a pool of REAL files written with pydicom into a work directory (several synthetic series that
differ in SeriesInstanceUID / SeriesNumber / ProtocolName / ImageOrientationPatient beyond or within the
5e-5 tolerance, plus faulty files: garbage bytes, truncated DICOM, text, zero-length, missing path,
pixel-less data set, incongruent image, colliding image) and several path lists over that pool (shuffles,
the fault at different positions, warn / strict mode).  For every list the real parse_and_group (and, for
the stack kind, parse_and_stack) is run.  The Coq model receives the per-file read result (pydicom.dcmread
+ extractor, obtained here the same way the code does it) and must reproduce the observation exactly.
The oracle judges the implementation's result from the generator's ground truth only."""
import os, sys, json, hashlib, shutil, warnings
from fractions import Fraction
from vlib.coqlit import *

ID = "C18"
COQ_PROPS = "Props/C18.v"
THEOREMS = ["C18_partition", "C18_classes", "C18_permutation", "C18_skip", "C18_skip_strict",
            "C18_stack", "C18_stack_strict", "C18_parse_and_stack_isolation", "C18_key_is_member_value",
            "C18_stack_real", "C18_parse_and_stack_isolation_real", "C18_parse_and_stack_isolation_exact",
            "C18_parse_and_stack_isolation_exact_real", "C18_parse_and_stack_isolation_refuted"]
ALLOWED_AXIOMS = []
TRUSTED_BASE = [
    "reading a path (pydicom.dcmread) and the meta data extractor are INPUTS of the model: one read result per path "
    "(Fault class | attribute names + meta.get), obtained by the plugin with the same calls the code makes",
    "Python ==/hash on None/int/str/tuple-of-float = Group.Model.gval_eqb; np.allclose(a, b, atol) = |a-b| <= atol + 1e-5*|b| "
    "elementwise in exact rationals with numpy broadcasting of 1-d shapes (numpy's default rtol is a constant of the model)",
    "DicomStack.add_dcm is a Section variable (state -> file -> state * exception); in the correspondence it is the real "
    "add_dcm sampled at the points the run visits; C18_stack_real / C18_parse_and_stack_isolation_real instantiate it with the Stack "
    "model's add_dcm (coq/Stack/Model.v), transactional by C11's lemma",
]
ASSUMPTIONS = [
    "group-by values are None, int, str or a list of floats (no NaN/inf, no nested lists, no bare floats)",
    "orientation differences are not within 1e-7 of the tolerance (5e-5 + 1e-5*|b|), so float64 and exact arithmetic agree",
    "sorted(): when two full keys are incomparable (None against a value at the first differing position) the model raises "
    "TypeError; CPython does so only if its sort compares that pair - generators produce such keys only with <= 2 groups; such "
    "lists (missing attributes) and orientations of different lengths are outside the property and only judged when a result is returned",
    "C18_classes / C18_permutation: closeness restricted to the values present is an equivalence (reflexive, symmetric, "
    "transitive), i.e. orientation clusters are separated by more than the tolerance; file payloads are pairwise distinct",
    "what is compared with the implementation: raised vs not raised (no exception class), member sets, every key entry against the "
    "members' own values (== for some member in the model check, every member in the oracle), number of warnings of the call (any "
    "origin, minus those pydicom/the extractor issue for the same files alone) >= the number of skipped/refused files; the order of "
    "the returned dict is not compared",
    "C18_parse_and_stack_isolation: a group may lose all its files (it is then absent from the result, fix F27); a group that keeps a "
    "file must keep its first file (otherwise the key's representative of a tolerance-compared value changes); the conclusion is an "
    "equality of (key, stack) sets, not of dict order",
]
RULE = ("file pools of 2-14 files: 1-4 series x 1-4 images (stack kind: slices x time points) differing in UID / number / protocol / "
        "orientation (other plane, or a zero component shifted by 2e-4..1e-3 = beyond tolerance; jitter <= 3e-5 inside a series), plus "
        "1-3 faulty files (garbage, text, empty, missing, truncated, pixel-less - also pixel-less with a malformed DS value, or under a user extractor that needs an image attribute, so that extraction WOULD raise: still skipped as non-image in both modes -, and BIT ROT: a valid file with intact preamble/magic damaged "
        "in the VR / length fields of element headers (dcmread raises) or in a data element so that dcmread succeeds lazily and the extractor raises, an open undefined-length sequence, a cut inside a header, a deflated transfer "
        "syntax - kept when pydicom.dcmread raises, exception class recorded in the kind); per pool 4-9 path lists: two shuffles without faults, each fault at first / last / random positions in warn "
        "mode, strict lists with the fault in the middle and as the FIRST path. Tolerance kind: orientation values 3e-5..2e-4 apart "
        "(4.9e-5 / 5.2e-5 next to the documented tolerance), truth from the documented rule. Stack refusals: other Rows/Columns, PixelSpacing "
        "or orientation (group_by without the orientation) not close to the reference, ordinate outside abs_ordering (get_ordinate raises), "
        "repeated (time, position); 15% of the pools with force=True. Extra kinds: closeness chains a~b~c with a!~c, asymmetric pairs (|b| large), missing attributes "
        "(None keys), orientation of other lengths (broadcast), custom group_by = any ordering of any non-empty subset of the default keys "
        "(half of them with the tolerance-compared key first) and custom close_tests; the order of the returned groups is observed. Non-trivial = at least two groups or "
        "at least one fault / refusal in some list")

PIX = ('PixelData', 'FloatPixelData', 'DoubleFloatPixelData')
CAND_ATTRS = PIX          # exactly the attributes is_image may probe (probing another one decodes it)
DEFAULT_GROUP = ('SeriesInstanceUID', 'SeriesNumber', 'ProtocolName', 'ImageOrientationPatient')
DEFAULT_CLOSE = ('ImageOrientationPatient',)
FAULT_KINDS = ('garbage', 'trunc', 'text', 'empty', 'missing', 'nopix', 'bitrot', 'bitrot', 'bitrotx', 'bitrotx', 'bitroti', 'nopixbad', 'nopixbad')
MUST_RAISE = ('garbage', 'text', 'empty', 'missing', 'bitrot', 'bitrotx', 'bitroti')          # strict mode has to raise on these
ERR_ENUM = ('EValue', 'EIndex', 'EKey', 'EType', 'EAttr', 'EIncongruent', 'ECollision', 'ENonImage', 'ECrash')


# ------------------------------------------------------------------------------------------------ files

def _mk_ds(sp):
    import numpy as np
    from pydicom.dataset import Dataset, FileMetaDataset
    from pydicom.uid import ExplicitVRLittleEndian
    inst = sp['id'] + 1
    ds = Dataset()
    ds.file_meta = FileMetaDataset()
    ds.file_meta.TransferSyntaxUID = ExplicitVRLittleEndian
    ds.file_meta.MediaStorageSOPClassUID = '1.2.840.10008.5.1.4.1.1.4'
    ds.file_meta.MediaStorageSOPInstanceUID = '1.2.3.%d' % inst
    ds.SOPClassUID = '1.2.840.10008.5.1.4.1.1.4'
    ds.SOPInstanceUID = '1.2.3.%d' % inst
    if sp.get('uid') is not None:
        ds.SeriesInstanceUID = sp['uid']
    if sp.get('num') is not None:
        ds.SeriesNumber = sp['num']
    if sp.get('prot') is not None:
        ds.ProtocolName = sp['prot']
    rows, cols = sp.get('rows', 2), sp.get('cols', 2)
    ds.Rows, ds.Columns = rows, cols
    ds.PixelSpacing = [str(x) for x in sp.get('ps', ('1.0', '1.0'))]
    if sp.get('iop') is not None:
        ds.ImageOrientationPatient = [str(x) for x in sp['iop']]
    ds.ImagePositionPatient = [float(x) for x in sp.get('ipp', (0, 0, 0))]
    ds.InstanceNumber = inst
    if sp.get('acq') is not None:
        ds.AcquisitionNumber = sp['acq']
    if sp.get('tr') is not None:
        ds.RepetitionTime = float(sp['tr'])
    if sp.get('ped') is not None:
        ds.InPlanePhaseEncodingDirection = sp['ped']
    ds.BitsAllocated, ds.BitsStored, ds.HighBit = 16, 12, 11
    ds.PixelRepresentation, ds.SamplesPerPixel = 0, 1
    ds.PhotometricInterpretation = 'MONOCHROME2'
    if sp['kind'] == 'nopixbad':
        ds.PatientWeight = '70.0'          # patched to a non-numeric text after writing
    if sp['kind'] not in ('nopix', 'nopixbad'):
        ds.PixelData = (np.arange(rows * cols, dtype=np.uint16) + inst).tobytes()
    return ds


def _write_files(files, wd):
    """-> list of paths indexed by file id"""
    paths = []
    for sp in files:
        p = os.path.join(wd, 'f%02d_%s.dcm' % (sp['id'], sp['kind']))
        k = sp['kind']
        if k in ('img', 'nopix'):
            _mk_ds(sp).save_as(p, enforce_file_format=True)
        elif k == 'nopixbad':
            # a data set without pixels whose DS element PatientWeight holds 'ab.c': it reads, but its elements cannot all
            # be converted (the extractor raises on it) - still only a non-image data set
            import io
            buf = io.BytesIO()
            _mk_ds(sp).save_as(buf, enforce_file_format=True)
            raw = buf.getvalue()
            pat = b'\x10\x00\x30\x10DS\x04\x0070.0'
            assert raw.count(pat) == 1
            open(p, 'wb').write(raw.replace(pat, b'\x10\x00\x30\x10DS\x04\x00ab.c'))
        elif k == 'trunc':
            q = p + '.full'
            _mk_ds(dict(sp, kind='img')).save_as(q, enforce_file_format=True)
            raw = open(q, 'rb').read()
            os.remove(q)
            pix = raw.find(b'\xe0\x7f\x10\x00')
            assert pix > 150
            cut = 133 + int(sp['cut'] * (pix - 134))       # somewhere between the preamble and the pixel data element
            open(p, 'wb').write(raw[:cut])
        elif k in ('bitrot', 'bitrotx', 'bitroti'):
            open(p, 'wb').write(_rot_apply(_rot_ref(), sp['damage']))
        elif k == 'garbage':
            open(p, 'wb').write(bytes((i * 37 + sp['id']) % 256 for i in range(700)))
        elif k == 'text':
            open(p, 'w').write('this is not a DICOM file\n' * 12)
        elif k == 'empty':
            open(p, 'wb').close()
        elif k == 'missing':
            pass
        else:
            raise ValueError(k)
        paths.append(p)
    return paths


# ---- bit rot: a valid file (preamble and DICM magic intact) damaged so that pydicom.dcmread raises

ROT_REF = {'id': 0, 'kind': 'img', 'uid': '1.2.840.1', 'num': 1, 'prot': 'a', 'iop': ['1', '0', '0', '0', '1', '0'],
           'ipp': [0, 0, 0], 'acq': 1, 'tr': 2000, 'ped': 'ROW'}
_ROT = {}


def _rot_ref():
    if 'raw' not in _ROT:
        import io
        buf = io.BytesIO()
        _mk_ds(ROT_REF).save_as(buf, enforce_file_format=True)
        _ROT['raw'] = buf.getvalue()
    return _ROT['raw']


def _rot_apply(raw, damage):
    b = bytearray(raw)
    for d in damage:
        if d[0] == 'cut':
            b = b[:d[1]]
        elif d[0] == 'splice':
            b = b[:d[1]] + bytearray.fromhex(d[3]) + b[d[1] + d[2]:]
        elif d[1] < len(b):
            b[d[1]] = (b[d[1]] ^ d[2]) if d[0] == 'xor' else d[2]
    return bytes(b)


def _rot_elements(raw):
    """element headers of an explicit VR little endian file (File Meta group and data set)"""
    import struct
    long_vr = (b'OB', b'OW', b'OF', b'SQ', b'UT', b'UN', b'OD', b'OL', b'UC', b'UR', b'OV', b'SV', b'UV')
    out, o = [], 132
    while o + 8 <= len(raw):
        tag = struct.unpack('<HH', raw[o:o + 4])
        vr = raw[o + 4:o + 6]
        if vr in long_vr:
            if o + 12 > len(raw):
                break
            ln, hdr, lo = struct.unpack('<I', raw[o + 8:o + 12])[0], 12, (o + 8, 4)
        else:
            ln, hdr, lo = struct.unpack('<H', raw[o + 6:o + 8])[0], 8, (o + 6, 2)
        out.append({'tag': tag, 'off': o, 'len': ln, 'hdr': hdr, 'lenoff': lo, 'val': o + hdr})
        if ln == 0xFFFFFFFF:
            break
        o += hdr + ln
    return out


def _rot_catalogue():
    """[(damage, exception class)]: every candidate damage (bit flips / overwrites in the VR and length fields of every
    element header, an open undefined-length sequence, cuts inside element headers, a deflated transfer syntax UID, an
    item without terminator) for which pydicom.dcmread of the installed, unchanged pydicom raises; deterministic"""
    if 'cat' in _ROT:
        return _ROT['cat']
    import io, struct
    import pydicom
    raw = _rot_ref()
    els = _rot_elements(raw)
    cands = []
    for e in els:
        o = e['off']
        for i in range(2):
            for bit in range(8):
                cands.append([['xor', o + 4 + i, 1 << bit]])
        for v in (b'ZZ', b'SQ', b'UN', b'OB', b'  ', b'\x00\x00'):
            cands.append([['set', o + 4 + j, v[j]] for j in range(2)])
        lo, ll = e['lenoff']
        for j in range(ll):
            for bit in (0, 3, 7):
                cands.append([['xor', lo + j, 1 << bit]])
        cands.append([['set', lo + j, 0xFF] for j in range(ll)])
        for k in (2, 5, 7, 9, 10):
            if k < e['hdr']:
                cands.append([['cut', o + k]])
        cands.append([['set', o + 4, ord('S')], ['set', o + 5, ord('Q')], ['set', o + 6, 0], ['set', o + 7, 0]] +
                     [['set', o + 8 + j, 0xFF] for j in range(4)])
    ts = [e for e in els if e['tag'] == (2, 16)]
    first_ds = [e for e in els if e['tag'][0] > 2]
    if ts:
        uid = b'1.2.840.10008.1.2.1.99'          # deflated: the data set is not a zlib stream
        cands.append([['splice', ts[0]['val'], ts[0]['len'], uid.hex()],
                      ['splice', ts[0]['lenoff'][0], 2, struct.pack('<H', len(uid)).hex()]])
    if first_ds:
        seq = struct.pack('<HH', 0x0008, 0x1140) + b'SQ\x00\x00' + b'\xff\xff\xff\xff' + struct.pack('<HHI', 0xFFFE, 0xE000, 0xFFFFFFFF)
        cands.append([['splice', first_ds[0]['off'], 0, seq.hex()], ['cut', first_ds[0]['off'] + len(seq) + 100]])
    for e in els:
        for j in range(min(e['len'], 4)):
            cands.append([['xor', e['val'] + j, 0x40]])
    cat, catx, cati = [], [], []
    with warnings.catch_warnings():
        warnings.simplefilter('ignore')
        for dmg in cands:
            b = _rot_apply(raw, dmg)
            if b[128:132] != b'DICM':
                continue
            try:
                ds = pydicom.dcmread(io.BytesIO(b))
            except Exception as e:
                cat.append((dmg, type(e).__module__.split('.')[0] + '.' + type(e).__name__))
                continue
            # read without error (lazy parsing): still an image whose elements cannot all be decoded?  (pydicom only:
            # every extractor has to walk the elements)
            try:
                if not any(hasattr(ds, a) for a in PIX):
                    continue
            except Exception as e:   # the pixel data element itself is damaged: the image test raises
                cati.append((dmg, type(e).__module__.split('.')[0] + '.' + type(e).__name__))
                continue
            try:
                [x.value for x in ds]
            except Exception as e:
                catx.append((dmg, type(e).__module__.split('.')[0] + '.' + type(e).__name__))
    _ROT['cat'], _ROT['catx'], _ROT['cati'] = cat, catx, cati
    return cat


def _rot_pick_x(rng):
    _rot_catalogue()
    return rng.choice(_ROT['catx'])


def _rot_pick_i(rng):
    _rot_catalogue()
    return rng.choice(_ROT['cati'])


def _rot_pick(rng, cls=None):
    cat = _rot_catalogue()
    classes = sorted(set(c for _, c in cat))
    cls = cls or rng.choice(classes)
    dmg, c = rng.choice([x for x in cat if x[1] == cls])
    return dmg, c


def _id_of(path):
    return int(os.path.basename(path)[1:3])


# ------------------------------------------------------------------------------------------------ observation

def _errclass(e):
    import dcmstack
    for cls, name in ((getattr(dcmstack, 'IncongruentImageError', ()), 'EIncongruent'),
                      (getattr(dcmstack, 'ImageCollisionError', ()), 'ECollision'),
                      (getattr(dcmstack, 'NonImageDataSetError', ()), 'ENonImage'),
                      (TypeError, 'EType'), (ValueError, 'EValue'), (AttributeError, 'EAttr'),
                      (KeyError, 'EKey'), (IndexError, 'EIndex')):
        if cls and isinstance(e, cls):
            return name
    return 'ECrash'


def _enc_val(v):
    import pydicom
    if v is None:
        return None
    if isinstance(v, bool):
        raise TypeError('bool group value outside the model domain')
    if isinstance(v, int):
        return {'i': int(v)}
    if isinstance(v, str):
        return {'s': str(v)}
    if isinstance(v, (list, tuple, pydicom.multival.MultiValue)):
        out = []
        for x in v:
            if isinstance(x, bool) or not isinstance(x, (int, float)):
                raise TypeError('non-numeric element in a list valued group key: %r' % (x,))
            x = float(x)
            if x != x or x in (float('inf'), float('-inf')):
                raise TypeError('nan/inf outside the model domain')
            fr = Fraction(x)
            out.append([str(fr.numerator), str(fr.denominator)])
        return {'t': out}
    try:                      # numpy integer etc.
        import numpy as np
        if isinstance(v, np.integer):
            return {'i': int(v)}
    except ImportError:
        pass
    raise TypeError('group value of type %s outside the model domain' % type(v).__name__)


def _read_one(path, keys, force):
    """The read result of one path, obtained with the calls parse_and_group makes (model input).  'fw' = number of
    warnings pydicom / the extractor issue on their own for this file (subtracted from the warnings of a call)."""
    import pydicom
    from dcmstack.extract import default_extractor
    with warnings.catch_warnings(record=True) as ws:
        warnings.simplefilter('always')
        try:
            ds = pydicom.dcmread(path, force=force)
        except Exception as e:
            return {'fault': _errclass(e), 'exc': type(e).__name__, 'fw': len(ws)}
        try:
            attrs = [a for a in CAND_ATTRS if hasattr(ds, a)]
        except Exception as e:           # the image test decodes the pixel data element: a read-level fault
            return {'fault': _errclass(e), 'exc': type(e).__name__, 'stage': 'image-test', 'fw': len(ws)}
        meta = {}
        if not any(a in PIX for a in attrs):
            # does the data set carry the malformed DS text the generator wrote?  (raw element, no conversion)
            try:
                it = ds.get_item((0x0010, 0x1030)) if (0x0010, 0x1030) in ds else None
                v = getattr(it, 'value', None)
                und = v in (b'ab.c', 'ab.c') or str(v) == 'ab.c'
            except Exception:
                und = False
            return {'attrs': attrs, 'meta': meta, 'fw': len(ws), 'undecodable': und}
        if any(a in PIX for a in attrs):
            try:
                m = default_extractor(ds)
            except Exception as e:       # pydicom parses lazily: a damaged element only fails when it is extracted
                return {'attrs': attrs, 'xfault': _errclass(e), 'exc': type(e).__name__, 'fw': len(ws)}
            for k in keys:
                meta[k] = _enc_val(m.get(k))
    return {'attrs': attrs, 'meta': meta, 'fw': len(ws)}


def _adj_warn(ws, reads, order):
    """warnings of one call, whoever's frame they are attributed to, minus the ones reading the same files produces
    without dcmstack (never by message text, never by file name of the emitting frame)"""
    return max(0, len(ws) - sum(reads[i].get('fw', 0) for i in order))


def _needs_iop_extractor(dcm):
    """a user supplied extractor that reads an image attribute directly (legitimate: the extractor is documented to be called
    on image data sets only); same meta data as the default extractor"""
    from dcmstack.extract import default_extractor
    dcm.ImageOrientationPatient
    return default_extractor(dcm)


def _kw(case):
    kw = {}
    if case.get('extractor') == 'needs-iop':
        kw['extractor'] = _needs_iop_extractor
    if case.get('group_by') is not None:
        kw['group_by'] = tuple(case['group_by'])
    if case.get('close') is not None:
        kw['close_tests'] = tuple(case['close'])
    return kw


def _observe_group(case, paths, L, reads):
    import dcmstack
    kw = _kw(case)
    if case.get('force'):
        kw['force'] = True
    with warnings.catch_warnings(record=True) as ws:
        warnings.simplefilter('always')
        try:
            res = dcmstack.parse_and_group([paths[i] for i in L['order']], warn_on_except=L['warn'], **kw)
        except Exception as e:
            return {'err': _errclass(e), 'exc': type(e).__name__}
    groups = []
    for k, g in res.items():
        groups.append({'key': [_enc_val(x) for x in k], 'ids': sorted(_id_of(fn) for _, _, fn in g)})
    groups.sort(key=lambda g: g['ids'])
    return {'groups': groups, 'w': _adj_warn(ws, reads, L['order'])}


def _stack_file_ids(s, nii):
    """ids of the files a DicomStack holds.  The class has no public accessor: the ONE place that reads its state;
    falls back to the public result (InstanceNumber values embedded by to_nifti); None = cannot tell (harness)."""
    try:
        return sorted(int(w.get_meta('InstanceNumber')) - 1 for w, _ in s._files_info)
    except Exception:
        pass
    try:
        from dcmstack.dcmmeta import NiftiWrapper
        ext = NiftiWrapper(nii).meta_ext
        vals, _cls = ext.get_values_and_class('InstanceNumber')
        vals = vals if isinstance(vals, (list, tuple)) else [vals]
        return sorted(set(int(v) - 1 for v in vals))
    except Exception:
        return None


def _stack_summary(st):
    out = []
    for key, s in st.items():
        nii = None
        try:
            nii = s.to_nifti(embed_meta=True)
            h = hashlib.sha1(nii.to_bytes()).hexdigest()
        except Exception as e:
            h = 'err:' + type(e).__name__
        out.append({'ids': _stack_file_ids(s, nii), 'hash': h, 'key': [_enc_val(x) for x in key]})
    out.sort(key=lambda x: x['ids'] if x['ids'] is not None else [-1])
    return out


def _stack_args(S):
    """JSON description -> DicomStack keyword arguments ('abs': abs_ordering of the time DicomOrdering)"""
    import dcmstack
    a = dict(S.get('args') or {})
    out = {}
    if a.get('time_order'):
        out['time_order'] = dcmstack.DicomOrdering(a['time_order'], abs_ordering=a['abs']) if a.get('abs') else a['time_order']
    return out


def _observe_stack(case, paths, S, reads):
    import dcmstack
    kw = {}
    if case.get('group_by') is not None:
        kw['group_by'] = tuple(case['group_by'])
    if case.get('force'):
        kw['force'] = True
    args = _stack_args(S)
    plist = [paths[i] for i in S['order']]
    obs = {}
    # behaviour of add_dcm at the points the run visits (the model's Section variable, sampled)
    table = []
    with warnings.catch_warnings():
        warnings.simplefilter('ignore')
        try:
            groups = dcmstack.parse_and_group(plist, warn_on_except=True, **kw)
        except Exception:
            groups = {}
        for key, g in groups.items():
            s = dcmstack.DicomStack(**args)
            acc = []
            for dcm, meta, fn in g:
                try:
                    s.add_dcm(dcm, meta)
                    out = None
                except Exception as e:
                    out = _errclass(e)
                table.append([list(acc), _id_of(fn), out])
                if out is None:
                    acc.append(_id_of(fn))
    obs['table'] = table
    with warnings.catch_warnings(record=True) as ws:
        warnings.simplefilter('always')
        try:
            st = dcmstack.parse_and_stack(plist, warn_on_except=S['warn'], **dict(kw, **args))
        except Exception as e:
            obs.update({'err': _errclass(e), 'exc': type(e).__name__})
            return obs
    obs['w'] = _adj_warn(ws, reads, S['order'])
    with warnings.catch_warnings():
        warnings.simplefilter('ignore')
        obs['stacks'] = _stack_summary(st)
        # the same input without every file that did not end up in a stack
        if any(s['ids'] is None for s in obs['stacks']):
            obs['harness'] = 'cannot tell which files a DicomStack holds'
            return obs
        kept = set(i for s in obs['stacks'] for i in s['ids'])
        try:
            st2 = dcmstack.parse_and_stack([paths[i] for i in S['order'] if i in kept], warn_on_except=False, **dict(kw, **args))
            obs['without'] = _stack_summary(st2)
        except Exception as e:
            obs['without'] = {'err': type(e).__name__}
    return obs


def run_impl(case):
    import dcmstack  # noqa: F401  (from $DCMSTACK_REPO/src)
    base = os.environ.get('VERIF_WORK') or os.path.join(os.path.dirname(os.path.dirname(os.path.abspath(__file__))), 'work', 'c18_manual')
    wd = os.path.join(base, 'files_%d_%s' % (os.getpid(), hashlib.sha1(json.dumps(case, sort_keys=True).encode()).hexdigest()[:12]))
    shutil.rmtree(wd, ignore_errors=True)
    os.makedirs(wd)
    try:
        paths = _write_files(case['files'], wd)
        import dcmstack.dcmstack as _impl
        keys = list(case.get('group_by') or _impl.default_group_keys)
        with warnings.catch_warnings():
            warnings.simplefilter('ignore')
            reads = [_read_one(p, keys, bool(case.get('force'))) for p in paths]
        return {'reads': reads,
                'lists': [_observe_group(case, paths, L, reads) for L in case['lists']],
                'stacks': [_observe_stack(case, paths, S, reads) for S in case.get('stacks', [])]}
    finally:
        shutil.rmtree(wd, ignore_errors=True)


# ------------------------------------------------------------------------------------------------ Coq literal

def _cgval(v):
    if v is None:
        return 'GNone'
    if 'i' in v:
        return '(GInt %s)' % cz(v['i'])
    if 's' in v:
        return '(GStr %s)' % cstr(v['s'])
    return '(GTup %s)' % clist('(Qcanon.Q2Qc (%s # %s)%%Q)' % (n, d) for n, d in v['t'])


def _cerr(e):
    return e if e in ERR_ENUM else 'ECrash'


def _cread(i, r):
    if 'fault' in r:
        return '(Fault %s)' % _cerr(r['fault'])
    if 'xfault' in r:
        return '(ExtractFault %s %s)' % (clist(cstr(a) for a in r['attrs']), _cerr(r['xfault']))
    return '(Data %s %s (mget %s))' % (clist(cstr(a) for a in r['attrs']), cnat(i),
                                       clist(cpair(cstr(k), _cgval(v)) for k, v in r['meta'].items()))


def _cnats(l):
    return clist(cnat(x) for x in l)


BAD_CASE = ('{| c_group_by := []; c_close := []; c_files := []; c_lists := [{| p_order := []; p_warn := true; '
            'p_obs := GErr ECrash |}]; c_stacks := [] |}')


def coq_case(case, obs):
    if not isinstance(obs, dict) or 'reads' not in obs:
        return BAD_CASE           # the runner crashed: a guaranteed mismatch
    gb = clist(cstr(s) for s in case['group_by']) if case.get('group_by') is not None else 'default_group_keys'
    ct = clist(cstr(s) for s in case['close']) if case.get('close') is not None else 'default_close_keys'
    lists = []
    for L, o in zip(case['lists'], obs['lists']):
        if 'err' in o:
            ob = '(GErr %s)' % _cerr(o['err'])
        else:
            ob = '(GOk %s %s)' % (clist(cpair(clist(_cgval(x) for x in g['key']), _cnats(g['ids'])) for g in o['groups']), cnat(o['w']))
        lists.append('{| p_order := %s; p_warn := %s; p_obs := %s |}' % (_cnats(L['order']), cbool(L['warn']), ob))
    stacks = []
    for S, o in zip(case.get('stacks', []), obs['stacks']):
        if 'harness' in o:
            continue             # reported by the oracle as a harness diagnostic
        if 'err' in o:
            ob = '(SErr %s)' % _cerr(o['err'])
        else:
            ob = '(SOk %s %s)' % (clist(_cnats(s['ids']) for s in o['stacks']), cnat(o['w']))
        tb = clist('(%s, %s, %s)' % (_cnats(a), cnat(f), 'None' if e is None else '(Some %s)' % _cerr(e)) for a, f, e in o['table'])
        stacks.append('{| s_order := %s; s_warn := %s; s_table := %s; s_obs := %s |}' % (_cnats(S['order']), cbool(S['warn']), tb, ob))
    return ('{| c_group_by := %s; c_close := %s;\n   c_files := %s;\n   c_lists := %s;\n   c_stacks := %s |}'
            % (gb, ct,
               clist(_cread(i, r) for i, r in enumerate(obs['reads'])), clist(lists), clist(stacks)))


# ------------------------------------------------------------------------------------------------ oracle

DOC_ATOL = Fraction(5, 100000)      # the tolerance the code documents for orientation / spacing (np.allclose atol)
DOC_RTOL = Fraction(1, 100000)      # numpy's default rtol
FLD = {'SeriesInstanceUID': 'uid', 'SeriesNumber': 'num', 'ProtocolName': 'prot'}


def _fr(x):
    return Fraction(str(x))


def _doc_close(a, b):
    """the documented closeness of a new value a to a reference b, on decimal strings / numbers (generator truth)"""
    return abs(_fr(a) - _fr(b)) <= DOC_ATOL + DOC_RTOL * abs(_fr(b))


def _gb(case):
    return list(case.get('group_by') or DEFAULT_GROUP)


def _ct(case):
    return list(case['close']) if case.get('close') is not None else list(DEFAULT_CLOSE)


def _label(case, sp):
    """ground-truth class of an image file under the case's group_by / close_tests (None: not asserted)"""
    if sp.get('cluster') is None:
        return None
    ct = _ct(case)
    lab = []
    for k in _gb(case):
        if k == 'ImageOrientationPatient':
            if k in ct:
                lab.append(('c', sp['cluster']))
            else:
                lab.append(('x', None if sp.get('iop') is None else tuple(float(x) for x in sp['iop'])))
        else:
            lab.append(sp.get(FLD[k]))      # numbers compared with the tolerance differ by >= 1: the same as exact
    return tuple(lab)


def _dec_val(v):
    """observed key entry -> a Python value (None / int / str / tuple of Fractions); anything else -> ('?', repr)"""
    try:
        if v is None:
            return None
        if isinstance(v, dict) and 'i' in v:
            return int(v['i'])
        if isinstance(v, dict) and 's' in v:
            return str(v['s'])
        if isinstance(v, dict) and 't' in v:
            return tuple(Fraction(int(n), int(d)) for n, d in v['t'])
    except Exception:
        pass
    return ('?', repr(v))


def _key_mismatch(case, key, sp, exact=False):
    """None when entry i of the key is the file's own value of group_by[i] for every i: equal for the exactly compared
    keys; for a tolerance-compared orientation within twice the documented tolerance (the key may be the value of
    another member, every member is within the tolerance of it); `exact`: orientation equal as floats."""
    gb, ct = _gb(case), _ct(case)
    if not isinstance(key, (list, tuple)) or len(key) != len(gb):
        return 'the key has %s entries for %d group_by keys' % (len(key) if isinstance(key, (list, tuple)) else '?', len(gb))
    for i, (k, v) in enumerate(zip(gb, key)):
        got = _dec_val(v)
        if k == 'ImageOrientationPatient':
            want = None if sp.get('iop') is None else tuple(Fraction(float(x)) for x in sp['iop'])
            if want is None or got is None:
                ok = want is None and got is None
            elif not isinstance(got, tuple) or len(got) != len(want) or (got and got[0] == '?'):
                ok = False
            elif k in ct and not exact:
                ok = all(abs(g - w) <= 2 * (DOC_ATOL + DOC_RTOL * max(abs(g), abs(w))) for g, w in zip(got, want))
            else:
                ok = got == want
        else:
            want = sp.get(FLD[k])
            ok = (type(got) is type(want)) and got == want
        if not ok:
            return 'entry %d (%s) is %r, the file has %r' % (i, k, v, sp.get('iop') if k == 'ImageOrientationPatient' else sp.get(FLD.get(k)))
    return None


def _read_mismatch(case, sp, r):
    """abstraction == generator truth: what the plugin read (the model's input) is what the generator wrote"""
    k = sp['kind']
    force = bool(case.get('force'))
    is_fault = 'fault' in r
    has_pix = (not is_fault) and any(a in PIX for a in r.get('attrs', []))
    if k == 'bitrotx' and not force:
        return None if (not is_fault and has_pix and 'xfault' in r) else 'a file with an undecodable element did not fail at extraction'
    if k == 'img':
        if is_fault or not has_pix or 'xfault' in r:
            return 'an image file was not read as an image'
        return _key_mismatch(case, [r['meta'].get(g) for g in _gb(case)], sp, exact=True)
    if k == 'missing':
        return None if is_fault else 'a missing path was read'
    if k == 'nopix':
        return None if (not is_fault and not has_pix) else 'a pixel-less data set was not read as one'
    if k == 'nopixbad':
        return None if (not is_fault and not has_pix and r.get('undecodable')) else 'a pixel-less data set with a malformed value was not read as one'
    if k in ('garbage', 'text', 'empty', 'bitrot', 'bitroti') and not force:
        return None if is_fault else 'a non-DICOM file was read without force'
    return 'an unreadable / truncated file was read as an image' if (has_pix and 'xfault' not in r) else None


def _same_values(case, a, b):
    """identical on every group-by value (as written by the generator)"""
    for k in _gb(case):
        if k == 'ImageOrientationPatient':
            x, y = a.get('iop'), b.get('iop')
            if (x is None) != (y is None) or (x is not None and [float(v) for v in x] != [float(v) for v in y]):
                return False
        elif a.get(FLD[k]) != b.get(FLD[k]):
            return False
    return True


def _pair_problem(case, a, b):
    """a necessary condition for two files of one group: equal on the exactly compared keys, orientation within twice
    the documented tolerance (both are within the tolerance of the representative)"""
    ct = _ct(case)
    for k in _gb(case):
        if k == 'ImageOrientationPatient':
            x, y = a.get('iop'), b.get('iop')
            if x is None or y is None:
                if (x is None) != (y is None):
                    return 'one has no orientation'
                continue
            if len(x) != len(y):
                continue
            if k in ct:
                if any(abs(_fr(p) - _fr(q)) > 2 * (DOC_ATOL + DOC_RTOL * max(abs(_fr(p)), abs(_fr(q)))) for p, q in zip(x, y)):
                    return 'orientations %s / %s differ by more than twice the tolerance' % (x, y)
            elif [float(v) for v in x] != [float(v) for v in y]:
                return 'orientations differ'
        elif a.get(FLD[k]) != b.get(FLD[k]):
            return '%s differs (%r / %r)' % (k, a.get(FLD[k]), b.get(FLD[k]))
    return None


def _keys_related(case, k1, k2):
    """equal on the exactly compared entries, within the documented tolerance (either direction) on the others"""
    gb, ct = _gb(case), list(DEFAULT_CLOSE)        # parse_and_stack does not forward close_tests
    if len(k1) != len(gb) or len(k2) != len(gb):
        return False
    for k, a, b in zip(gb, k1, k2):
        x, y = _dec_val(a), _dec_val(b)
        if k in ct and isinstance(x, tuple) and isinstance(y, tuple) and x and y and x[0] != '?' and y[0] != '?':
            if len(x) != len(y) or not all(abs(p - q) <= DOC_ATOL + DOC_RTOL * max(abs(p), abs(q)) for p, q in zip(x, y)):
                return False
        elif x != y or type(x) is not type(y):
            return False
    return True


def _same_up_to_keys(case, a, b):
    if not isinstance(a, list) or not isinstance(b, list) or len(a) != len(b):
        return False
    bb = {tuple(x['ids']): x for x in b}
    if len(bb) != len(b):
        return False
    for x in a:
        y = bb.get(tuple(x['ids']))
        if y is None or y['hash'] != x['hash'] or not _keys_related(case, x['key'], y['key']):
            return False
    return True


def _certainly_unreadable(case, kind):
    return kind == 'missing' or (kind in MUST_RAISE and not case.get('force'))


def _maybe_unreadable(case, kind):
    return kind == 'trunc' or (kind in MUST_RAISE and bool(case.get('force')))


def _expected_rejects(case, S):
    """independent acceptance rule of a stack (add_dcm as documented), per class in path order: the first accepted image
    is the reference; PixelSpacing / orientation not close to the reference's, or other Rows/Columns -> refused; an
    ordinate outside abs_ordering -> refused; with an explicit time order a repeated (time, position) -> refused"""
    files = case['files']
    a = S.get('args') or {}
    timed = bool(a.get('time_order'))
    absl = a.get('abs')
    ref, seen, rej = {}, {}, []
    for i in S['order']:
        sp = files[i]
        if sp['kind'] != 'img':
            continue
        lab = _label(case, sp)
        seen.setdefault(lab, set())
        r = ref.get(lab)
        if r is not None:
            ps, rps = sp.get('ps', ('1.0', '1.0')), r.get('ps', ('1.0', '1.0'))
            ok = all(_doc_close(x, y) for x, y in zip(ps, rps)) and all(_doc_close(x, y) for x, y in zip(sp['iop'], r['iop']))
            ok = ok and (sp.get('rows', 2), sp.get('cols', 2)) == (r.get('rows', 2), r.get('cols', 2))
            if not ok:
                rej.append(i)
                continue
        if timed and absl and sp.get('acq') not in absl:
            rej.append(i)
            continue
        tup = (sp.get('acq'), tuple(sp.get('ipp', (0, 0, 0))))
        if timed and tup in seen[lab]:
            rej.append(i)
            continue
        seen[lab].add(tup)
        if r is None:
            ref[lab] = sp
    return rej


def oracle(case, obs):
    try:
        return _oracle(case, obs)
    except Exception as e:      # an observation the judging code cannot even read is not a result the property allows
        return 'the result has an unexpected form (%s: %s): %s' % (type(e).__name__, e, json.dumps(obs, default=str)[:300])


def _oracle(case, obs):
    if not isinstance(obs, dict):
        return 'harness: no observation'
    if 'crash' in obs:
        return 'the runner crashed: %s %s' % (obs.get('crash'), str(obs.get('msg'))[:200])
    files = case['files']
    for sp, r in zip(files, obs['reads']):
        mm = _read_mismatch(case, sp, r)
        if mm:
            return 'harness: file %d (%s): %s' % (sp['id'], sp['kind'], mm)
    by_imgset = {}
    for n, (L, o) in enumerate(zip(case['lists'], obs['lists'])):
        kinds = [files[i]['kind'] for i in L['order']]
        img_ids = sorted(i for i in L['order'] if files[i]['kind'] == 'img')
        skipped = [i for i in L['order'] if files[i]['kind'] != 'img']
        must_raise = (not L['warn']) and any(_certainly_unreadable(case, k) for k in kinds)
        may_raise = (not L['warn']) and any(_maybe_unreadable(case, k) for k in kinds)
        if 'err' in o:
            if must_raise or may_raise:
                continue
            if case.get('may_err') and o.get('err') in case['may_err'] and len(img_ids) >= 2:
                continue       # None against a value / orientations of different lengths: outside the property's conditions
            return 'list %d (%s, warn=%s): parse_and_group raised %s although %s' % (
                n, L['order'], L['warn'], o.get('exc'), 'warn_on_except is set' if L['warn'] else 'every file is readable or a non-image data set')
        if must_raise:
            return 'list %d (%s): strict mode did not raise on an unreadable file (%s)' % (n, L['order'], kinds)
        sets = [g['ids'] for g in o['groups']]
        flat = sorted(i for s in sets for i in s)
        if flat != img_ids:
            return 'list %d (%s): not a partition of the readable image files: groups %s, images %s' % (n, L['order'], sets, img_ids)
        if any(not s for s in sets):
            return 'list %d: an empty group' % n
        if o['w'] < len(skipped):
            return 'list %d (%s): %d warnings for %d skipped files' % (n, L['order'], o['w'], len(skipped))
        # every entry of every key against every member's own value
        for g in o['groups']:
            for i in g['ids']:
                mm = _key_mismatch(case, g['key'], files[i])
                if mm:
                    return 'list %d (%s): group key %s is not the tuple of group-by values of its member %d: %s' % (n, L['order'], g['key'], i, mm)
        grp_of = {i: gi for gi, g in enumerate(o['groups']) for i in g['ids']}
        for x in img_ids:
            for y in img_ids:
                if x < y:
                    if grp_of[x] == grp_of[y]:
                        pp = _pair_problem(case, files[x], files[y])
                        if pp:
                            return 'list %d (%s): files %d and %d are in one group but %s' % (n, L['order'], x, y, pp)
                    elif _same_values(case, files[x], files[y]):
                        return 'list %d (%s): files %d and %d have identical group-by values but are in different groups' % (n, L['order'], x, y)
        labs = {i: _label(case, files[i]) for i in img_ids}
        if all(l is not None for l in labs.values()):
            want = {}
            for i in img_ids:
                want.setdefault(labs[i], []).append(i)
            want = sorted(sorted(v) for v in want.values())
            if sorted(sets) != want:
                return 'list %d (%s): groups %s, but the files equal on every key (orientation within tolerance) are %s' % (n, L['order'], sorted(sets), want)
            k = tuple(img_ids)
            if k in by_imgset and by_imgset[k][1] != sorted(sets):
                return 'lists %d and %d contain the same readable image files but are grouped differently: %s vs %s (orders %s / %s)' % (
                    by_imgset[k][0], n, by_imgset[k][1], sorted(sets), case['lists'][by_imgset[k][0]]['order'], L['order'])
            by_imgset.setdefault(k, (n, sorted(sets)))
    for n, (S, o) in enumerate(zip(case.get('stacks', []), obs['stacks'])):
        if 'harness' in o:
            return 'harness: stack list %d: %s' % (n, o['harness'])
        kinds = [files[i]['kind'] for i in S['order']]
        rej = _expected_rejects(case, S)
        skipped = [i for i in S['order'] if files[i]['kind'] != 'img']
        must_raise = (not S['warn']) and (any(_certainly_unreadable(case, k) for k in kinds) or bool(rej))
        may_raise = (not S['warn']) and any(_maybe_unreadable(case, k) for k in kinds)
        if 'err' in o:
            if must_raise or may_raise:
                continue
            return 'stack list %d (%s, warn=%s): parse_and_stack raised %s' % (n, S['order'], S['warn'], o.get('exc'))
        if must_raise:
            return 'stack list %d (%s): strict mode did not raise (unreadable %s, to be refused %s)' % (n, S['order'], kinds, rej)
        in_stacks = sorted(i for s in o['stacks'] for i in s['ids'])
        want_in = sorted(i for i in S['order'] if files[i]['kind'] == 'img' and i not in rej)
        if in_stacks != want_in:
            return 'stack list %d (%s): files in the stacks %s, expected %s (refused: %s)' % (n, S['order'], in_stacks, want_in, rej)
        if o['w'] < len(skipped) + len(rej):
            return 'stack list %d (%s): %d warnings for %d skipped + %d refused files' % (n, S['order'], o['w'], len(skipped), len(rej))
        if any(not x['ids'] for x in o['stacks']):
            return 'stack list %d (%s): the result holds a stack without any file (every file of that group was refused)' % (n, S['order'])
        n_classes = len(set(_label(case, files[i]) for i in want_in))
        if len(o['stacks']) != n_classes:
            return 'stack list %d (%s): %d stacks for %d groups with an accepted file' % (n, S['order'], len(o['stacks']), n_classes)
        for x in o['stacks']:
            for i in x['ids']:
                mm = _key_mismatch(case, x['key'], files[i])
                if mm:
                    return 'stack list %d (%s): stack key %s is not the tuple of group-by values of its file %d: %s' % (n, S['order'], x['key'], i, mm)
        if not _same_up_to_keys(case, o['stacks'], o['without']):
            return ('stack list %d (%s): the result differs from the result of the same list without the skipped / refused files %s: %s vs %s'
                    % (n, S['order'], sorted(set(S['order']) - set(in_stacks)), o['stacks'], o['without']))
    return None


def signature(case, obs, msg):
    if msg.startswith('harness'):
        return 'harness/' + ('stack-files' if 'stack list' in msg else 'read')
    if msg.startswith('the runner crashed'):
        return 'crash/grouping/' + str((obs or {}).get('crash'))
    return case.get('kind', '?') + '/' + ('stack' if msg.startswith('stack') else 'group')


def nontrivial(case, obs):
    """some list returned at least two groups, or returned a result although a file had to be skipped / refused"""
    if not isinstance(obs, dict) or 'lists' not in obs:
        return False
    for o in obs['lists']:
        if len(o.get('groups', [])) >= 2 or ('groups' in o and o.get('w', 0) > 0):
            return True
    for o in obs.get('stacks', []):
        if 'stacks' in o and (o.get('w', 0) > 0 or len(o['stacks']) >= 2):
            return True
    return False


def shrink(case):
    ls, ss = case['lists'], case.get('stacks', [])
    for i in range(len(ls)):
        if len(ls) + len(ss) > 1:
            yield dict(case, lists=ls[:i] + ls[i + 1:])
    for i in range(len(ss)):
        if len(ls) + len(ss) > 1:
            yield dict(case, stacks=ss[:i] + ss[i + 1:])
    used = sorted(set(i for L in ls + ss for i in L['order']))
    for i in used:
        yield dict(case, lists=[dict(L, order=[j for j in L['order'] if j != i]) for L in ls],
                   stacks=[dict(S, order=[j for j in S['order'] if j != i]) for S in ss])


# ------------------------------------------------------------------------------------------------ generator

UIDS = ['1.2.840.1', '1.2.840.2', '1.2.840.10', '1.3.12.2']
NUMS = [1, 2, 3, 10, 11]
PROTS = ['a', 'b', 'a-002', 'T1 mprage', 'ep2d_bold']
PLANES = [[1, 0, 0, 0, 1, 0], [1, 0, 0, 0, 0, -1], [0, 1, 0, 0, 0, -1], [-1, 0, 0, 0, 1, 0]]
FAR = ['0.0002', '0.0005', '0.001', '-0.0003']
JIT = ['0', '0.00001', '0.00002', '0.00003']


def _dec_add(a, b):
    """decimal strings -> decimal string of the exact sum (kept short for the DS value representation)"""
    from decimal import Decimal
    s = format(Decimal(str(a)) + Decimal(str(b)), 'f')
    return s


def _iop(rng, plane, shift, jitter_all):
    """orientation of one file: plane + far shift on component 2 (a zero of every plane used) + jitter"""
    v = [str(x) for x in plane]
    zeros = [i for i, x in enumerate(plane) if x == 0]
    v[zeros[0]] = _dec_add(v[zeros[0]], shift)
    for i in (zeros[1:] if jitter_all else zeros[1:2]):
        v[i] = _dec_add(v[i], rng.choice(JIT))
    return v


def _series(rng, n_series):
    """n distinct series descriptions; neighbours differ in one or more of uid / num / prot / orientation"""
    out = []
    base = {'uid': rng.choice(UIDS), 'num': rng.choice(NUMS), 'prot': rng.choice(PROTS), 'plane': rng.randrange(len(PLANES)), 'shift': '0'}
    out.append(base)
    tries = 0
    while len(out) < n_series and tries < 100:
        tries += 1
        s = dict(rng.choice(out))
        for what in rng.sample(['uid', 'num', 'prot', 'plane', 'shift'], rng.choice([1, 1, 1, 2])):
            if what == 'uid':
                s['uid'] = rng.choice(UIDS)
            elif what == 'num':
                s['num'] = rng.choice(NUMS)
            elif what == 'prot':
                s['prot'] = rng.choice(PROTS)
            elif what == 'plane':
                s['plane'] = rng.randrange(len(PLANES))
            else:
                s['shift'] = rng.choice(FAR)
        if all(any(s[k] != t[k] for k in s) for t in out):
            out.append(s)
    return out


def _cluster_id(s):
    return '%d/%s' % (s['plane'], s['shift'])


def _fault_files(rng, start, n, like):
    out = []
    for j in range(n):
        k = rng.choice(FAULT_KINDS)
        sp = {'id': start + j, 'kind': k}
        if k in ('trunc', 'nopix', 'nopixbad'):
            sp.update({f: like[f] for f in ('uid', 'num', 'prot', 'iop')})
        if k == 'trunc':
            sp['cut'] = rng.choice([0.0, 0.1, 0.35, 0.5, 0.8, 0.99])
        if k == 'bitrot':
            sp['damage'], sp['exc'] = _rot_pick(rng)
        if k == 'bitrotx':
            sp['damage'], sp['exc'] = _rot_pick_x(rng)
        if k == 'bitroti':
            sp['damage'], sp['exc'] = _rot_pick_i(rng)
        out.append(sp)
    return out


def _lists_with_faults(rng, imgs, faults, n_extra):
    """two fault-free shuffles (strict), then every fault at first / last / random positions in warn mode, one strict list"""
    a = list(imgs)
    rng.shuffle(a)
    b = list(imgs)
    rng.shuffle(b)
    lists = [{'order': a, 'warn': False}, {'order': b, 'warn': rng.random() < 0.5}]
    for f in faults:
        poss = {0, len(a)} | set(rng.randrange(len(a) + 1) for _ in range(n_extra))
        for pos in sorted(poss):
            base = a if rng.random() < 0.6 else b
            lists.append({'order': base[:pos] + [f] + base[pos:], 'warn': True})
    if faults:
        o = list(b)
        for f in faults:
            o.insert(rng.randrange(len(o) + 1), f)
        lists.append({'order': o, 'warn': True})
        o2 = list(a)
        o2.insert(rng.randrange(len(o2) + 1), rng.choice(faults))
        lists.append({'order': o2, 'warn': False})
        lists.append({'order': [rng.choice(faults)] + list(b), 'warn': False})      # strict mode, the fault comes first
    return lists


def _gen_mix(rng, custom=False):
    ser = _series(rng, rng.choice([1, 2, 2, 3, 3, 4]))
    files = []
    for s in ser:
        for _ in range(rng.choice([1, 2, 2, 3, 4])):
            files.append({'id': len(files), 'kind': 'img', 'uid': s['uid'], 'num': s['num'], 'prot': s['prot'],
                          'iop': _iop(rng, PLANES[s['plane']], s['shift'], True), 'cluster': _cluster_id(s),
                          'ipp': [0, 0, len(files)]})
    imgs = [f['id'] for f in files]
    faults = _fault_files(rng, len(files), rng.choice([0, 1, 1, 2, 3]), files[0])
    files += faults
    case = {'kind': 'mix', 'files': files, 'lists': _lists_with_faults(rng, imgs, [f['id'] for f in faults], 1), 'stacks': []}
    if custom:
        case['kind'] = 'custom-keys'
        if rng.random() < 0.25:
            gb, ct = rng.choice([
                (['SeriesNumber', 'ProtocolName', 'ImageOrientationPatient'], []),
                (['ImageOrientationPatient', 'ProtocolName'], []),
                (['SeriesInstanceUID', 'SeriesNumber', 'ProtocolName', 'ImageOrientationPatient'], ['ImageOrientationPatient', 'SeriesNumber']),
                (['SeriesNumber', 'ImageOrientationPatient', 'ProtocolName'], ['ImageOrientationPatient', 'SeriesNumber']),
                (['ImageOrientationPatient'], ['ImageOrientationPatient']),
            ])
        else:
            # any ordering of any non-empty subset of the default keys; half of the time the tolerance-compared
            # key comes before the exactly compared ones
            gb = rng.sample(list(DEFAULT_GROUP), rng.choice([1, 2, 2, 3, 3, 4, 4]))
            if 'ImageOrientationPatient' in gb and rng.random() < 0.5:
                gb.remove('ImageOrientationPatient')
                gb.insert(0, 'ImageOrientationPatient')
            ct = None
        case['group_by'] = gb
        if ct is not None:
            case['close'] = ct
    if rng.random() < 0.15:
        case['force'] = True              # parse_and_group(force=True): non-DICOM files become pixel-less data sets
    if rng.random() < 0.2:
        case['extractor'] = 'needs-iop'   # the extractor raises on data sets without ImageOrientationPatient
        for f in case['files']:
            if f['kind'] in ('nopix', 'nopixbad'):
                f['iop'] = None
    return case


def _gen_rot(rng):
    """structurally damaged real DICOM files (magic intact): one exception class of pydicom.dcmread per case"""
    ser = _series(rng, rng.choice([1, 2]))
    files = []
    for s in ser:
        for _ in range(rng.choice([1, 2, 3])):
            files.append({'id': len(files), 'kind': 'img', 'uid': s['uid'], 'num': s['num'], 'prot': s['prot'],
                          'iop': _iop(rng, PLANES[s['plane']], s['shift'], True), 'cluster': _cluster_id(s), 'ipp': [0, 0, len(files)]})
    imgs = [f['id'] for f in files]
    r0 = rng.random()
    if r0 < 0.2:
        dmg, cls = _rot_pick_i(rng)
        faults = [{'id': len(files), 'kind': 'bitroti', 'damage': dmg, 'exc': cls}]
        cls = 'image-test:' + cls
    elif r0 < 0.5:
        dmg, cls = _rot_pick_x(rng)
        faults = [{'id': len(files), 'kind': 'bitrotx', 'damage': dmg, 'exc': cls}]
        if rng.random() < 0.4:
            d2, c2 = _rot_pick_x(rng)
            faults.append({'id': len(files) + 1, 'kind': 'bitrotx', 'damage': d2, 'exc': c2})
        cls = 'extract:' + cls
    else:
        dmg, cls = _rot_pick(rng)
        faults = [{'id': len(files), 'kind': 'bitrot', 'damage': dmg, 'exc': cls}]
        if rng.random() < 0.4:
            d2, _ = _rot_pick(rng, cls)
            faults.append({'id': len(files) + 1, 'kind': 'bitrot', 'damage': d2, 'exc': cls})
    files += faults
    return {'kind': 'bitrot/' + cls, 'files': files, 'lists': _lists_with_faults(rng, imgs, [f['id'] for f in faults], 1), 'stacks': []}


def _gen_chain(rng):
    """closeness that is not an equivalence: a ~ b ~ c but a !~ c; or the asymmetric pair (large |b|)"""
    s = _series(rng, 1)[0]
    files = []
    if rng.random() < 0.5:
        kind = 'chain'
        offs = rng.choice([['0', '0.00004', '0.00008'], ['0', '0.00004', '0.00008', '0.00012'], ['0.00008', '0', '0.00004', '0.00004']])
        for o in offs:
            v = [str(x) for x in PLANES[s['plane']]]
            z = [i for i, x in enumerate(PLANES[s['plane']]) if x == 0][0]
            v[z] = o
            files.append({'id': len(files), 'kind': 'img', 'uid': s['uid'], 'num': s['num'], 'prot': s['prot'], 'iop': v, 'ipp': [0, 0, len(files)]})
    else:
        kind = 'asymmetric'
        for v0 in ['1000000', '1000010.0001'] + (['1000000'] if rng.random() < 0.5 else []):
            files.append({'id': len(files), 'kind': 'img', 'uid': s['uid'], 'num': s['num'], 'prot': s['prot'],
                          'iop': [v0, '0', '0', '0', '1', '0'], 'ipp': [0, 0, len(files)]})
    imgs = [f['id'] for f in files]
    faults = _fault_files(rng, len(files), rng.choice([0, 1]), files[0])
    files += faults
    lists = _lists_with_faults(rng, imgs, [f['id'] for f in faults], 0)
    for _ in range(3):
        o = list(imgs)
        rng.shuffle(o)
        lists.append({'order': o, 'warn': False})
    return {'kind': kind, 'files': files, 'lists': lists, 'stacks': []}


WITHIN = ['0.00003', '0.00004', '0.000045', '0.000049']
BEYOND = ['0.000052', '0.00006', '0.00007', '0.0001', '0.00015', '0.0002']


def _gen_tol(rng):
    """judged cases on both sides of the documented tolerance: orientation values that differ in one component by
    3e-5 .. 2e-4; the truth (which files belong together) is computed here from the documented rule
    |a - b| <= 5e-5 + 1e-5*|b|, required to be an equivalence with a margin of 1e-7 in both directions"""
    s = _series(rng, 1)[0]
    plane = PLANES[s['plane']]
    while True:
        comp = rng.randrange(6)
        base = str(plane[comp])
        sign = rng.choice(['', '-'])
        pat = rng.random()
        if pat < 0.6:
            offs = ['0', sign + rng.choice(WITHIN + BEYOND)]
        elif pat < 0.8:
            offs = ['0', sign + rng.choice(WITHIN), sign + rng.choice(['0.0002', '0.0003'])]
        else:
            offs = ['0', sign + rng.choice(BEYOND), sign + rng.choice(['0.0004', '0.0005'])]
        vals = [_dec_add(base, o) for o in offs]
        ok = True
        close = {}
        for i, a in enumerate(vals):
            for j, b in enumerate(vals):
                d = abs(_fr(a) - _fr(b))
                t = DOC_ATOL + DOC_RTOL * abs(_fr(b))
                if abs(d - t) < Fraction(1, 10**7):
                    ok = False
                close[(i, j)] = d <= t
        n = len(vals)
        ok = ok and all(close[(i, j)] == close[(j, i)] for i in range(n) for j in range(n))
        ok = ok and all((not (close[(i, j)] and close[(j, k)])) or close[(i, k)] for i in range(n) for j in range(n) for k in range(n))
        if ok:
            break
    cl = [min(j for j in range(n) if close[(i, j)]) for i in range(n)]
    files = []
    for i, v in enumerate(vals):
        for _ in range(rng.choice([1, 1, 2])):
            iop = [str(x) for x in plane]
            iop[comp] = v
            files.append({'id': len(files), 'kind': 'img', 'uid': s['uid'], 'num': s['num'], 'prot': s['prot'], 'iop': iop,
                          'cluster': 'tol%d' % cl[i], 'ipp': [0, 0, len(files)]})
    imgs = [f['id'] for f in files]
    faults = _fault_files(rng, len(files), rng.choice([0, 0, 1]), files[0])
    files += faults
    return {'kind': 'tolerance', 'files': files, 'lists': _lists_with_faults(rng, imgs, [f['id'] for f in faults], 0), 'stacks': []}


def _gen_none(rng):
    """missing attributes: None in keys (TypeError from np.allclose / sorted when mixed with values)"""
    s = _series(rng, 2)
    pat = rng.choice(['all-noprot', 'mixed-prot', 'mixed-iop', 'other-uid-noprot', 'all-noiop', 'mixed-num', 'short-iop'])
    files = []

    def add(sd, **over):
        sp = {'id': len(files), 'kind': 'img', 'uid': sd['uid'], 'num': sd['num'], 'prot': sd['prot'],
              'iop': _iop(rng, PLANES[sd['plane']], sd['shift'], True), 'ipp': [0, 0, len(files)]}
        sp.update(over)
        if pat != 'short-iop':
            sp['cluster'] = _cluster_id(sd) if sp['iop'] is not None else 'none'
        files.append(sp)
    n = rng.choice([2, 3])
    if pat == 'all-noprot':
        for _ in range(n):
            add(s[0], prot=None)
    elif pat == 'mixed-prot':
        for j in range(n):
            add(s[0], prot=None if j % 2 else s[0]['prot'])
    elif pat == 'mixed-num':
        for j in range(n):
            add(s[0], num=None if j % 2 else s[0]['num'])
    elif pat == 'mixed-iop':
        for j in range(n):
            add(s[0], iop=None if j % 2 else (files[0]['iop'] if files else _iop(rng, PLANES[s[0]['plane']], s[0]['shift'], True)))
    elif pat == 'all-noiop':
        for _ in range(n):
            add(s[0], iop=None)
    elif pat == 'other-uid-noprot':
        t = dict(s[0], uid=[u for u in UIDS if u != s[0]['uid']][0])
        add(s[0])
        add(t, prot=None)
        add(s[0])
    elif pat == 'short-iop':      # a single-valued DS would be a bare float (outside the model domain): lengths >= 2 only
        add(s[0], iop=['1', '0', '0', '0', '1', '0'])
        add(s[0], iop=rng.choice([['1', '0', '0'], ['1', '0'], ['1', '0', '0', '0', '1', '0', '0']]))
    else:
        raise ValueError(pat)
    imgs = [f['id'] for f in files]
    lists = []
    for _ in range(3):
        o = list(imgs)
        rng.shuffle(o)
        lists.append({'order': o, 'warn': rng.random() < 0.5})
    lists.append({'order': imgs[:1], 'warn': False})
    case = {'kind': 'none-' + pat, 'files': files, 'lists': lists, 'stacks': []}
    if pat.startswith('mixed'):
        case['may_err'] = ['EType']       # None against a value: TypeError from np.allclose / sorted (outside the property)
    elif pat == 'short-iop':
        case['may_err'] = ['EValue']      # orientations of different lengths do not broadcast
    return case


NOIOP_GROUP = ['SeriesInstanceUID', 'SeriesNumber', 'ProtocolName']


def _gen_stack(rng):
    """parse_and_stack: grids of slices x time points plus files that add_dcm refuses (other Rows/Columns, PixelSpacing or
    orientation not close to the reference's, an ordinate outside abs_ordering, a repeated (time, position)) and unreadable ones"""
    noiop = rng.random() < 0.25          # group without the orientation: files of another orientation reach add_dcm
    ser = _series(rng, rng.choice([1, 1, 2]))
    if noiop:
        ser = [s for j, s in enumerate(ser) if all((s['uid'], s['num'], s['prot']) != (t['uid'], t['num'], t['prot']) for t in ser[:j])]
    else:
        # series must differ in an exactly compared key or the plane (keeps orientations orthonormal)
        ser = [s for j, s in enumerate(ser) if all((s['uid'], s['num'], s['prot'], s['plane']) != (t['uid'], t['num'], t['prot'], t['plane']) for t in ser[:j])]
    for s in ser:
        s['shift'] = '0'
    files = []
    timed = rng.random() < 0.8
    use_abs = timed and rng.random() < 0.4
    for s in ser:
        nz, nt = rng.choice([1, 2, 2, 3]), rng.choice([1, 2, 2])
        tr, ped = rng.choice([2000, 3000]), rng.choice(['ROW', 'COL'])
        normal_axis = {0: 2, 1: 1, 2: 0, 3: 2}[s['plane']]
        for t in range(nt):
            for z in range(nz):
                ipp = [0, 0, 0]
                ipp[normal_axis] = z
                sp = {'id': len(files), 'kind': 'img', 'uid': s['uid'], 'num': s['num'], 'prot': s['prot'],
                      'iop': _iop(rng, PLANES[s['plane']], '0', False), 'cluster': _cluster_id(s), 'ipp': ipp,
                      'acq': t + 1, 'tr': tr, 'ped': ped}
                if rng.random() < 0.15:
                    sp['ps'] = ['1.0', rng.choice(['1.00002', '1.00003', '0.99997'])]      # spacing within the tolerance
                files.append(sp)
    imgs = [f['id'] for f in files]
    faults = []
    kinds = ['incong', 'collide', 'collide', 'unreadable', 'spacing']
    if noiop:
        kinds += ['orient', 'orient']
    if use_abs:
        kinds += ['ordinate', 'ordinate']
    for _ in range(rng.choice([1, 1, 2, 3])):
        k = rng.choice(kinds)
        like = files[rng.choice(imgs)]
        if k == 'unreadable':
            sp = _fault_files(rng, len(files), 1, like)[0]
        else:
            sp = dict(like, id=len(files))
            if k == 'collide':
                sp['tr'] = 2500
                sp['ped'] = 'COL' if like['ped'] == 'ROW' else 'ROW'
            else:
                sp['ipp'] = [9 + len(files)] * 3      # its own position and time point: never collides
                if k != 'ordinate':
                    sp['acq'] = like['acq'] if use_abs else 9 + len(files)
                if k == 'incong':
                    sp['rows' if rng.random() < 0.5 else 'cols'] = 3
                elif k == 'spacing':
                    sp['ps'] = rng.choice([['1.0', '1.2'], ['1.0001', '1.0'], ['0.5', '0.5']])
                elif k == 'orient':
                    other = [q for q in range(len(PLANES)) if PLANES[q] != PLANES[int(like['cluster'].split('/')[0])]]
                    sp['iop'] = [str(x) for x in PLANES[rng.choice(other)]]
                elif k == 'ordinate':
                    sp['acq'] = 70 + len(files)       # not in abs_ordering: get_ordinate raises
        files.append(sp)
        faults.append(sp['id'])
    if use_abs and rng.random() < 0.6:
        # a series of its own in which EVERY file is refused (ordinates outside abs_ordering): the group must vanish
        lone = dict(rng.choice(ser), uid='1.2.840.77.%d' % rng.randrange(1, 4))
        for j in range(rng.choice([1, 1, 2])):
            sp = {'id': len(files), 'kind': 'img', 'uid': lone['uid'], 'num': lone['num'], 'prot': lone['prot'],
                  'iop': _iop(rng, PLANES[lone['plane']], '0', False), 'cluster': _cluster_id(lone), 'ipp': [0, 0, j],
                  'acq': 50 + j, 'tr': 2000, 'ped': 'ROW'}
            files.append(sp)
            faults.append(sp['id'])
    args = {'time_order': 'AcquisitionNumber'} if timed else {}
    if use_abs:
        args['abs'] = [1, 2, 3]
    stacks, lists = [], []
    a = list(imgs)
    rng.shuffle(a)
    stacks.append({'order': a, 'warn': False, 'args': args})
    for _ in range(2):
        o = list(a) if rng.random() < 0.5 else rng.sample(imgs, len(imgs))
        for f in faults:
            o.insert(rng.choice([0, len(o), rng.randrange(len(o) + 1)]), f)
        stacks.append({'order': o, 'warn': True, 'args': args})
    o = list(a)
    o.insert(rng.randrange(1, len(o) + 1), rng.choice(faults))
    stacks.append({'order': o, 'warn': False, 'args': args})
    stacks.append({'order': [rng.choice(faults)] + list(a), 'warn': False, 'args': args})      # strict mode, the fault comes first
    lists.append({'order': stacks[1]['order'], 'warn': True})
    case = {'kind': 'stack' + ('-timed' if timed else '') + ('-abs' if use_abs else '') + ('-noiop' if noiop else ''),
            'files': files, 'lists': lists, 'stacks': stacks}
    if noiop:
        case['group_by'] = list(NOIOP_GROUP)
    if rng.random() < 0.15:
        case['force'] = True
    return case


def gen_cases(rng, tier):
    n = 260 if tier == 'quick' else 4000
    out = []
    for i in range(n):
        r = rng.random()
        if r < 0.30:
            out.append(_gen_mix(rng))
        elif r < 0.45:
            out.append(_gen_mix(rng, custom=True))
        elif r < 0.55:
            out.append(_gen_tol(rng))
        elif r < 0.63:
            out.append(_gen_rot(rng))
        elif r < 0.67:
            out.append(_gen_chain(rng))
        elif r < 0.71:
            out.append(_gen_none(rng))
        else:
            out.append(_gen_stack(rng))
    return out


SHARD = 20
IMPL_TIMEOUT = 60
NAME = "grouping"
CORR_REQUIRE = "From Coq Require Qcanon.\nFrom DV Require Import Generated.T_group Group.Model Group.Corr."
CORR_CASE_TYPE = "Corr.case"
CORR_CHECK = "Corr.check"
CORR_SHOW = "Corr.show"
