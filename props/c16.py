"""C16 -- Siemens ASCCONV ("Phoenix") protocol text is parsed without losing or altering any value.

parts:  "lines"  extract._parse_phoenix_line(line, delim)        (rendered assignments, both dialects, + malformed stream)
        "prot"   extract.parse_phoenix_prot(prot_key, prot_text)  (whole protocol texts with BEGIN/END markers)
        "csa"    extract.csa_series_trans_func(elem) / MetaExtractor()(dataset) on a hand-built CSA2 series header
                 (which element is parsed, in which dialect, merge under 'MrPhoenixProtocol.', raw element removed)

Every case is stored as its *components* (key, value, whitespace, comment, mutation); the line/text and the
expected result are derived from the components by `build_line` / `build_prot`, so shrinking keeps the oracle sound.
"""
import os, math, struct
from fractions import Fraction
from vlib.coqlit import *

ID = "C16"
COQ_PROPS = "Props/C16.v"
THEOREMS = ["C16_roundtrip", "C16_parse_line_sound", "C16_bare_accepts_iff", "C16_blank", "C16_none_sound", "C16_malformed", "C16_prot", "C16_csa_merge", "C16_csa_merge_other", "C16_dict_set",
            "C16_int_dec", "C16_int_hex", "C16_float_repr", "C16_str_single_quote", "C16_str_double_quote", "C16_bare_1e5_is_hex"]
ALLOWED_AXIOMS = []
TRUSTED_BASE = [
    "Common/PyNum.v py_int / py_int16 / py_float / py_strip as models of CPython int(s) / int(s,16) / float(s) / str.strip "
    "(modelled, not verified against CPython's C source; validated by this correspondence and by C20's)",
    "Common/F64.v `fl` as the model of IEEE binary64 round-to-nearest-even (correct rounding of CPython's dtoa)",
    "Phoenix/Model.v is a hand transliteration of extract._parse_phoenix_line / parse_phoenix_prot / csa_series_trans_func; the marker "
    "strings, protocol keys, the 'MrPhoenixProtocol.' prefix and delimiters are copied literals (tied by the prot and csa correspondences, which use them on every case)",
    "nibabel.nicom.csareader.read and extract.simplify_csa_dict are outside the model: the csa part feeds the model the simplified dict they deliver. "
    "The csa oracle derives every expectation from the tags the generator wrote (item texts; a number must be the number its text spells, which VRs "
    "nibabel converts is not pinned) and checks per case that the protocol element reaches the parser as the text written; it relies on nibabel's "
    "CSA2 layout (the hand-built 'SV10' header of build_csa2) and on item text = latin-1 bytes up to the first NUL",
    "dict results are compared as maps (Corr.items_eqb / csa_dict_eqb and the oracles): the property does not speak about key order; the order "
    "statements of C16_prot (first_keys) are facts about the model only",
]
ASSUMPTIONS = [
    "bare (unquoted) value tokens contain no non-ASCII decimal digits (Python's int()/float() accept e.g. Arabic-Indic digits, the model rejects them); "
    "keys, quoted strings and comments may contain any code point",
    "decimal integer tokens have at most 4300 digits: CPython >= 3.11 makes int(s) raise ValueError beyond sys.get_int_max_str_digits(), "
    "after which the code's int(s,16) fall-back would read the decimal token as hexadecimal (the model's py_int has no such limit)",
    "signed zero is not distinguished by the model (the Python oracle does compare float.hex())",
    "float tokens are in Python-repr format (contain '.', an exponent sign, 'inf' or 'nan'); a bare token made only of hex digits such as "
    "1e5 or dead is faithfully read as a hexadecimal integer by the int(s,16) fall-back",
    "protocol lines are separated by '\\n' and the section is the text between the FIRST '### ASCCONV BEGIN ' and the FIRST '### ASCCONV END ###'",
    "protocol texts lacking a marker, or whose first END precedes the first BEGIN, are generated (they exercise the code) but their result is not "
    "compared (p_judged / c_judged = false in Phoenix/Corr.v, oracle silent): the property speaks only of assignments between the markers; the model "
    "keeps the code's find() = -1 slicing there and C16_prot is stated for texts with both markers in order",
]

D2, D1 = '""', '"'
BEGIN, END = '### ASCCONV BEGIN ', '### ASCCONV END ###'

# ------------------------------------------------------------------------------------------------ components

WS_CHARS = [' ', ' ', ' ', '\t', '\t', '\r', '\x0c', '\x0b', '\x1c', '\x1f', '\x85', '\u00a0', '\u2003', '\u3000', '\u2028']
KEY_TEMPLATES = ["sSliceArray.asSlice[%d].dThickness", "sSliceArray.asSlice[%d].sPosition.dTra", "tSequenceFileName",
                 "sProtConsistencyInfo.flNominalB0", "alTR[%d]", "alTE[%d]", "ucScanRegionPosValid", "sKSpace.lBaseResolution",
                 "sWipMemBlock.alFree[%d]", "sCoilSelectMeas.aRxCoilSelectData[0].asList[%d].sCoilElementID.tCoilID",
                 "tProtocolName", "lContrasts", "sTXSPEC.asNucleusInfo[%d].tNucleus", "ulVersion", "k", "a.b", "x_%d"]
STR_CHARS = list("abcXYZ019 _-./%+:;,()[]\\'") + ['#', '#', '=', '=', ' ', ' ', '\t', 'é', 'ß', '日', '本', '\U0001F600', '\u00a0', '\u0663']


def _ws(rng, allow_nl=False, p_empty=0.35):
    if rng.random() < p_empty:
        return ''
    n = rng.choice([1, 1, 1, 2, 3, 5])
    chars = WS_CHARS + (['\n'] if allow_nl else [])
    if rng.random() < 0.7:
        return ''.join(rng.choice([' ', ' ', '\t']) for _ in range(n))
    return ''.join(rng.choice(chars) for _ in range(n))


def _key(rng, delim):
    r = rng.random()
    if r < 0.8:
        t = rng.choice(KEY_TEMPLATES)
        k = t % rng.randrange(0, 130) if '%d' in t else t
    elif r < 0.9:
        k = ''.join(rng.choice("abcdefgXYZ0189._[]") for _ in range(rng.randrange(1, 12)))
    elif r < 0.94:
        k = rng.choice(["a b", "clé", "キー.x", "a\tb", "t'x", "k\u00a0k"])
    elif r < 0.97 and delim == D2:
        k = rng.choice(['a"b', 'q"', '"q'])          # one quote character is not the doubled delimiter
    elif r < 0.985:
        k = ''
    else:
        k = "s" + "x" * rng.randrange(1, 40)
    return k


def _rand_float(rng):
    r = rng.random()
    if r < 0.25:
        return rng.uniform(-1000, 1000)
    if r < 0.4:
        return round(rng.uniform(-500, 500), rng.randrange(0, 6))
    if r < 0.7:
        return struct.unpack('<d', struct.pack('<Q', rng.getrandbits(64)))[0]   # any double, incl. subnormal/inf/nan
    if r < 0.8:
        return float(rng.randrange(-10 ** 6, 10 ** 6))
    if r < 0.9:
        return rng.choice([1e16, 1e-5, 5e-324, 1.7976931348623157e308, 2.2250738585072014e-308, 1e22, 1e23, 0.1, 0.0, -0.0,
                           123456789012345680.0, 9007199254740993.0, 4.35, 2.675, 1e100, 1.5e-10])
    return rng.choice([float('inf'), float('-inf'), float('nan')])


def _rand_int(rng):
    r = rng.random()
    if r < 0.3:
        n = rng.randrange(0, 300)
    elif r < 0.55:
        n = rng.randrange(0, 2 ** 31)
    elif r < 0.7:
        n = rng.randrange(2 ** 31, 2 ** 64)
    elif r < 0.9:
        n = rng.randrange(2 ** 64, 2 ** rng.randrange(65, 300))
    else:
        n = rng.choice([0, 1, 9, 10, 15, 16, 255, 256, 2 ** 32, 2 ** 63, 2 ** 64, 10 ** 20, 0xdeadbeef, 0xabcdef])
    return -n if rng.random() < 0.3 else n


def _legal_str(s, delim):
    return (s + delim).find(delim) == len(s)


def _rand_str(rng, delim):
    for _ in range(50):
        n = rng.choice([0, 1, 2, 3, 5, 8, 12, 20])
        chars = STR_CHARS + (['"', '"'] if delim == D2 else [])    # the other dialect's quote, where legal
        s = ''.join(rng.choice(chars) for _ in range(n))
        if rng.random() < 0.15:
            s = rng.choice(["%CustomerSeq%\\ep2d_bold", "Head_32", "a # b", "x=y", "#", "=", " lead", "trail ", "1H", "AdjShim # not a comment = 1",
                            "C:\\MedCom\\MriCustomer\\seq\\%x", "Tête", "0x10", "12", "1.5", ""])
        if _legal_str(s, delim):
            return s
    return "s"


def _value(rng, delim):
    r = rng.random()
    if r < 0.25:
        n = _rand_int(rng)
        style = rng.choice(['plain'] * 8 + ['plus', 'zeros'])
        return {"t": "int", "v": str(n), "style": style}
    if r < 0.42:
        n = _rand_int(rng)
        return {"t": "hex", "v": str(n), "style": rng.choice(['lower'] * 5 + ['upper', 'upperx', 'mixed'])}
    if r < 0.68:
        f = _rand_float(rng)
        tok = repr(f)
        if rng.random() < 0.12:
            tok = rng.choice([".5", "5.", "1_000.5", "1.5E3", "1.5e+3", "+1.5", "1e-5", "1E-5", "1e+5", "-.5e-3", "0.0", "-0.0", "1e+400", "1e-400",
                              "infinity", "-Infinity", "INF", "NaN", "+nan", "-nan", "1.e1", "00.5", "0.1e-1_0", "1.7976931348623159e308",
                              "4.9e-324", "2.4703282292062327e-324", "2.4703282292062328e-324", "9007199254740993.0", "0.30000000000000004"])
        return {"t": "float", "v": tok}
    return {"t": "str", "v": _rand_str(rng, delim)}


def _comment(rng):
    r = rng.random()
    if r < 0.55:
        return None
    if r < 0.8:
        return rng.choice(["", " comment", " was 5", "# double", " unit = ms", " see #12"])
    return ''.join(rng.choice(STR_CHARS + ['"', '"', '""']) for _ in range(rng.randrange(0, 14)))


def render_value(val, delim):
    t = val["t"]
    if t == "int":
        n = int(val["v"])
        s = str(n)
        if val.get("style") == "plus" and n >= 0:
            s = "+" + s
        elif val.get("style") == "zeros":
            s = ("-" if n < 0 else "") + "00" + str(abs(n))
        return s
    if t == "hex":
        n = int(val["v"])
        st = val.get("style")
        h = "%x" % abs(n)
        if st == "upper":
            body = "0X" + h.upper()
        elif st == "upperx":
            body = "0x" + h.upper()
        elif st == "mixed":
            body = "0x" + ''.join(c.upper() if i % 2 else c for i, c in enumerate(h))
        else:
            body = "0x" + h
        return ("-" if n < 0 else "") + body
    if t == "float":
        return val["v"]
    if t == "str":
        return delim + val["v"] + delim
    if t == "raw":
        return val["v"]
    raise ValueError(t)


def expected_value(val, delim):
    """(type tag, python value) the property demands for a legally rendered value, or None when outside the stated domain."""
    t = val["t"]
    if t in ("int", "hex"):
        return ("int", int(val["v"]))
    if t == "float":
        tok = val["v"]
        if not tok.isascii():
            return None
        body = tok[1:] if tok[:1] in "+-" else tok
        marker = any(c in tok for c in ".nNiI") or any(c in body for c in "+-")
        if not marker:
            return None                   # e.g. 1e5: read as hex by design (stated in the theorem's domain)
        try:
            return ("float", float(tok))
        except ValueError:
            return None
    if t == "str":
        return ("str", val["v"]) if _legal_str(val["v"], delim) else None
    return None


def _key_ok(key, delim):
    return '=' not in key and '#' not in key and key.strip() == key and delim not in key


def build_line(c):
    """components -> (line, expectation).  expectation: None (oracle silent) | ("none",) | ("err",) | ("val", key, tag, value)"""
    if "raw" in c:
        exp = c.get("expect")
        return c["raw"], (tuple(exp) if exp else None)
    d, ws, key, val, com, mut = c["delim"], c["ws"], c["key"], c["val"], c.get("comment"), c.get("mut")
    tail = ws[3] + ("#" + com if com is not None else "")
    vs = render_value(val, d)
    ws_ok = all(w.strip() == '' for w in ws)
    if not ws_ok:
        return ws[0] + key + ws[1] + "=" + ws[2] + vs + tail, None
    if mut is None:
        line = ws[0] + key + ws[1] + "=" + ws[2] + vs + tail
        ev = expected_value(val, d)
        if ev is None or not _key_ok(key, d):
            return line, None
        return line, ("val", key, ev[0], ev[1])
    if mut == "noeq":                      # the '=' dropped: no '=' anywhere, something in front of any '#'
        line = ws[0] + key + ws[1] + ws[2] + vs + tail
        if '=' in line or '#' in key:
            return line, None
        return line, ("err",)
    if mut == "noclose":                   # closing delimiter dropped, and no quote character after the opening one
        if val["t"] != "str":
            return ws[0] + key + ws[1] + "=" + ws[2] + vs + tail, None
        line = ws[0] + key + ws[1] + "=" + ws[2] + d + val["v"] + tail
        if '"' in val["v"] or '"' in tail or not _key_ok(key, d):
            return line, None
        return line, ("err",)
    if mut.startswith("junk:"):            # something that is not a comment after the closing delimiter
        junk = mut[5:]
        line = ws[0] + key + ws[1] + "=" + ws[2] + vs + ws[3] + junk + ("#" + com if com is not None else "")
        if val["t"] != "str" or not _legal_str(val["v"], d) or not _key_ok(key, d) or junk.strip() == '' or junk.strip().startswith('#'):
            return line, None
        return line, ("err",)
    if mut.startswith("numjunk:"):         # a valid number followed by junk (separated by blanks, or attached and starting with a
        junk = mut[8:]                     # character no number contains): int(), int(,16) and float() all reject the text
        line = ws[0] + key + ws[1] + "=" + ws[2] + vs + junk + tail
        body = junk.strip()
        sep = junk[:len(junk) - len(junk.lstrip())]
        ok = (val["t"] in ("int", "hex", "float") and expected_value(val, d) is not None and _key_ok(key, d) and body != '' and junk.rstrip() == junk
              and '#' not in junk and '"' not in junk and body.isascii() and (sep != '' or body[0] in "gz;,:/%$@!GZ"))
        return line, (("err",) if ok else None)
    if mut == "empty":                     # nothing after the '='
        line = ws[0] + key + ws[1] + "=" + ws[2] + tail
        if not _key_ok(key, d):
            return line, None
        return line, ("err",)
    if mut == "twoeq":                     # a second '=' directly after the first: the value text starts with '='
        line = ws[0] + key + ws[1] + "=" + ws[2] + "=" + ws[2] + vs + tail
        if '#' in key or '=' in key:
            return line, None
        return line, ("err",)
    if mut == "blank":
        return ws[0] + ws[1] + ws[3], ("none",)
    if mut == "comment":
        return ws[0] + "#" + (com or ""), ("none",)
    raise ValueError(mut)


FIXED_LINES = [   # (line, expectation or None), tried in both dialects
    ("", ("none",)), ("#", ("none",)), ("##", ("none",)), (" # ", ("none",)), ("\t", ("none",)), ("# a = 5", ("none",)),
    ("k = hello", ("err",)), ("k = --1", ("err",)), ("k = 0x", ("err",)), ("k = 1__0", ("err",)), ("k = 1 2", ("err",)), ("k = .", ("err",)),
    ("k = +", ("err",)), ("k = -", ("err",)), ("k = e", None), ("k = 1e5", None), ("k = 1E5", None), ("k = 1_0", None), ("k = 0x_1", None),
    ("k = dead", None), ("k = e5", None), ("k = 1e400", None), ("k = 0b11", None), ("k = 0o17", ("err",)), ("k = 1e", None), ("k = 1.e", ("err",)),
    ("k = 1.5.2", ("err",)), ("k = 1,5", ("err",)), ("k = 0x1.8p3", ("err",)), ("k = 1L", ("err",)), ("k = True", ("err",)), ("k = None", ("err",)),
    ("k = 5 6 # c", ("err",)), ("k", ("err",)), ("k # = 5", ("err",)), ("= 5", ("val", "", "int", 5)), ("=", ("err",)), ("==", ("err",)),
    ("k = 0x1F # c", ("val", "k", "int", 31)), ("k = -0x10", ("val", "k", "int", -16)), ("k = 0X_ff", None), ("k = _1", ("err",)), ("k = 1_", ("err",)),
    ("k = 0_0", None), ("k = inf", ("val", "k", "float", float("inf"))), ("k = -inf", ("val", "k", "float", float("-inf"))),
    ("k = 5 #", ("val", "k", "int", 5)), ("k = 5#c", ("val", "k", "int", 5)), ("k=5", ("val", "k", "int", 5)),
    ("k = 1.0 # \"q\"", ("val", "k", "float", 1.0)), ("k = 1.0 # \"\"q\"\"", ("val", "k", "float", 1.0)),
]
FIXED_BY_DELIM = {
    D1: [('b = "xy"', ("val", "b", "str", "xy")), ('k = "', ("err",)), ('k = ""', ("val", "k", "str", "")), ('k = "a#b"', ("val", "k", "str", "a#b")),
         ('k = "a#b" # c', ("val", "k", "str", "a#b")), ('k = "a" b', ("err",)), ('k = "a" "b"', ("err",)), ('k = "a"# c', ("val", "k", "str", "a")),
         ('k = "a # b', ("err",)), ('k = "a=b"', ("val", "k", "str", "a=b")), ('k = x"a"', ("err",)), ('k = "a""', ("err",)),
         ('k = "#"', ("val", "k", "str", "#")), ('k = "##" ##', ("val", "k", "str", "##")), ('k"k = 5 # c', None), ('k = "a" # "', ("val", "k", "str", "a"))],
    D2: [('b = ""xy""', ("val", "b", "str", "xy")), ('k = ""x', ("err",)), ('k = ""', ("err",)), ('k = """"', ("val", "k", "str", "")),
         ('k = ""a#b""', ("val", "k", "str", "a#b")), ('k = ""a#b"" # c', ("val", "k", "str", "a#b")), ('k = ""a"" b', ("err",)),
         ('k = ""a""""b""', ("err",)), ('k = ""a""# c', ("val", "k", "str", "a")), ('k = ""a # b', ("err",)), ('k = ""a"b""', ("val", "k", "str", 'a"b')),
         ('k = "a"', ("err",)), ('k = ""a"""', ("err",)), ('k = """a""', ("val", "k", "str", '"a')), ('k = ""a=b"" # x = ""y""', ("val", "k", "str", "a=b")),
         ('k = ""#""', ("val", "k", "str", "#")), ('k = ""a"#b""', ("val", "k", "str", 'a"#b'))],
}


def gen_line_case(rng, delim=None, for_prot=False):
    d = delim or rng.choice([D2, D1])
    r = rng.random()
    nl = (not for_prot) and rng.random() < 0.05
    ws = [_ws(rng, nl), _ws(rng, nl), _ws(rng, nl), _ws(rng, nl)]
    if for_prot:
        ws = [w.replace('\n', ' ') for w in ws]
    c = {"kind": "", "delim": d, "ws": ws, "key": _key(rng, d), "val": _value(rng, d), "comment": _comment(rng), "mut": None}
    if r < 0.66:
        c["kind"] = "valid-" + c["val"]["t"] + ("-comment" if c["comment"] is not None else "")
    elif r < 0.72:
        c["mut"] = rng.choice(["blank", "comment"])
        c["kind"] = c["mut"]
    elif r < 0.9:
        m = rng.choice(["noeq", "noclose", "junk", "empty", "twoeq", "numjunk", "numjunk"])
        if m == "numjunk":
            while c["val"]["t"] == "str" or expected_value(c["val"], d) is None:
                c["val"] = _value(rng, d)
            m = "numjunk:" + rng.choice([" ", "\t", "  ", "", ""]) + rng.choice(["x", "ms", "g", ";", "z 1", ", 5", "/2", "%", "mm # no", "5", "0x1", "1.5", "e3", "= 6", "$", "@a", "!"])
        if m in ("noclose", "junk"):
            c["val"] = {"t": "str", "v": _rand_str(rng, d)}
        if m == "junk":
            m = "junk:" + rng.choice(["x", "5", " x", "; ", d, d + "b" + d, "=", "x # y", ".", "a b", "\u00e9", "-"])
        if m == "noeq" and rng.random() < 0.7:
            c["val"] = rng.choice([{"t": "int", "v": str(_rand_int(rng)), "style": "plain"}, {"t": "str", "v": rng.choice(["abc", "a#b", "", " x "])},
                                   {"t": "float", "v": repr(_rand_float(rng))}])
            if c["comment"] is not None:
                c["comment"] = c["comment"].replace("=", ":")
        c["mut"] = m
        c["kind"] = "malformed-" + m.split(":")[0]
    elif r < 0.95:
        pool = FIXED_LINES + FIXED_BY_DELIM[d]
        line, exp = rng.choice(pool)
        c = {"kind": "fixed", "delim": d, "raw": line, "expect": list(exp) if exp else None}
        if exp and exp[0] == "val" and exp[2] == "float":
            c["expect"] = [exp[0], exp[1], exp[2], exp[3].hex()]
    else:   # garbage over the structural alphabet: stresses find/count/strip agreement; the oracle is silent
        n = rng.randrange(0, 16)
        line = ''.join(rng.choice(['"', '"', '"', '#', '#', '=', ' ', ' ', 'a', 'k', '5', '1', 'x', '.', '-', '\t', 'é', '\u00a0', 'e', '0']) for _ in range(n))
        c = {"kind": "garbage", "delim": d, "raw": line, "expect": None}
    if for_prot and "raw" in c:
        c["raw"] = c["raw"].replace("\n", " ")
    return c


def observe(v):
    """implementation result -> JSON observation"""
    if v is None:
        return {"none": True}
    if not (isinstance(v, tuple) and len(v) == 2 and isinstance(v[0], str)):
        return {"crash": "BadResult", "msg": repr(v)[:200]}
    return {"key": v[0], "val": observe_value(v[1])}


def observe_value(x):
    if isinstance(x, bool):
        return {"t": "bool", "v": str(x)}
    if isinstance(x, int):
        return {"t": "int", "v": str(x)}
    if isinstance(x, float):
        if math.isnan(x):
            return {"t": "float", "nan": True}
        if math.isinf(x):
            return {"t": "float", "inf": x < 0}
        fr = Fraction(x)
        return {"t": "float", "num": str(fr.numerator), "den": str(fr.denominator), "hex": x.hex()}
    if isinstance(x, str):
        return {"t": "str", "v": x}
    return {"t": "other", "v": repr(x)[:100]}


def coq_pval(o):
    t = o["t"]
    if t == "int":
        return "(PInt %s)" % cz(int(o["v"]))
    if t == "float":
        if o.get("nan"):
            return "(PFloat FNan)"
        if "inf" in o:
            return "(PFloat (FInf %s))" % cbool(o["inf"])
        return "(PFloat (FFin (%s # %s)%%Q))" % (o["num"], o["den"])
    if t == "str":
        return "(PStr %s)" % cstr(o["v"])
    return None


def value_matches(o, tag, want):
    """does the observed value equal the rendered Python value, with the same type?"""
    if o.get("t") != tag:
        return False
    if tag == "int":
        return o["v"] == str(want)
    if tag == "str":
        return o["v"] == want
    if tag == "float":
        if isinstance(want, str):
            want = float.fromhex(want) if want not in ("nan",) else float("nan")
        if math.isnan(want):
            return bool(o.get("nan"))
        if math.isinf(want):
            return o.get("inf") == (want < 0)
        return o.get("hex") == want.hex()
    return False


def _show(x):
    s = repr(x)
    return s if len(s) < 160 else s[:157] + '...'


class Lines:
    NAME = "lines"
    CORR_REQUIRE = "From DV Require Import Common.PyNum Phoenix.Model Phoenix.Corr."
    CORR_CASE_TYPE = "Corr.lcase"
    CORR_CHECK = "Corr.lcheck"
    CORR_SHOW = "Corr.lshow"
    SHARD = 400
    IMPL_TIMEOUT = 20
    RULE = ("one `key = value` line per case, both quoting dialects: keys from real Siemens names plus random/unicode/odd ones; values: integers "
            "(small .. 2^300, negative, '+', leading zeros), 0x-hex (lower/upper/mixed), floats as repr(random double incl. subnormal/inf/nan) and "
            "hand-written variants, strings with '#', '=', blanks, the other dialect's quote, unicode; random Python whitespace around every token; "
            "optional trailing comment. Malformed stream: '=' dropped, closing quote dropped, junk after the quote, empty value, doubled '=', "
            "fixed edge lines (1e5, 0x, 1_0, --1, bare words ...), garbage over the alphabet {quote # = blank ...}. non-trivial = not blank/comment-only")

    @staticmethod
    def gen_cases(rng, tier):
        n = 2600 if tier == "quick" else 100000
        out = []
        for d in (D1, D2):              # every fixed line once
            for line, exp in FIXED_LINES + FIXED_BY_DELIM[d]:
                e = list(exp) if exp else None
                if e and e[0] == "val" and e[2] == "float":
                    e[3] = e[3].hex()
                out.append({"kind": "fixed", "delim": d, "raw": line, "expect": e})
        while len(out) < n:
            out.append(gen_line_case(rng))
        return out

    @staticmethod
    def run_impl(case):
        from dcmstack import extract
        line, _ = build_line(case)
        try:
            v = extract._parse_phoenix_line(line, case["delim"])
        except extract.PhoenixParseError:
            return {"err": "EPhoenix", "line": line}
        o = observe(v)
        o["line"] = line
        return o

    @staticmethod
    def coq_case(case, obs):
        line, _ = build_line(case)
        if "err" in obs:
            o = "(LErr %s)" % obs["err"]
        elif "crash" in obs:
            o = "(LErr ECrash)"
        elif obs.get("none"):
            o = "LNone"
        else:
            pv = coq_pval(obs["val"])
            o = "(LVal %s %s)" % (cstr(obs["key"]), pv) if pv else "(LErr ECrash)"
        return "{| l_line := %s; l_delim := %s; l_obs := %s |}" % (cstr(line), cstr(case["delim"]), o)

    @staticmethod
    def oracle(case, obs):
        return _line_verdict(case, obs)[0]

    @staticmethod
    def signature(case, obs, msg):
        # the mechanism is re-derived from the case and the observation: expectation class, dialect, what went wrong
        mech = _line_verdict(case, obs)[1] or "none"
        return "line/%s/%s/%s" % (_line_class(case), "d2" if case.get("delim") == D2 else "d1", mech)

    @staticmethod
    def nontrivial(case, obs):
        return case.get("kind") not in ("blank", "comment")

    @staticmethod
    def shrink(case):
        yield from shrink_line(case)


def _line_class(case):
    """expectation class of a line case (no case data): valid-<type> | blank | malformed-<mutation> | fixed-<expectation> | silent"""
    if "raw" in case:
        e = case.get("expect")
        return "fixed-" + (e[0] if e else "silent")
    mut = case.get("mut")
    if mut is None:
        return "valid-" + case["val"]["t"]
    if mut in ("blank", "comment"):
        return "blank"
    return "malformed-" + mut.split(":")[0]


def _line_verdict(case, obs):
    """-> (message or None, mechanism or None)"""
    try:
        line, exp = build_line(case)
    except Exception:
        return None, None
    return judge_line(line, case["delim"], exp, obs)


def judge_line(line, delim, exp, obs):
    """-> (message, mechanism); (None, None) when the observation is what the property demands (or the property is silent)"""
    where = "line %s with delimiter %s" % (_show(line), delim)
    if "crash" in obs:
        if obs["crash"] in ("HarnessFailure", "Timeout"):
            return None, None            # the driver reports these itself (crash/<part>/<cls>)
        return "%s: crashed with %s (neither a value nor PhoenixParseError)" % (where, obs["crash"]), "crash-" + str(obs["crash"])
    if exp is None:
        return None, None
    seen = {k: v for k, v in obs.items() if k != 'line'}
    if exp[0] == "none":
        if obs.get("none"):
            return None, None
        return "%s is blank/comment-only but the parser returned %s" % (where, _show(seen)), ("raised" if "err" in obs else "not-ignored")
    if exp[0] == "err":
        if obs.get("err") == "EPhoenix":
            return None, None
        return "%s is malformed but the parser returned %s instead of raising PhoenixParseError" % (where, _show(seen)), (
            "ignored" if obs.get("none") else "accepted")
    _, key, tag, want = exp
    if "err" in obs:
        return "%s: valid assignment %s = %s rejected with PhoenixParseError" % (where, _show(key), _show(want)), "rejected"
    if obs.get("none"):
        return "%s: valid assignment ignored (returned None)" % where, "ignored"
    if obs.get("key") != key:
        return "%s: key %s came back as %s" % (where, _show(key), _show(obs.get("key"))), "key-altered"
    if not value_matches(obs["val"], tag, want):
        mech = "type-altered" if obs["val"].get("t") != tag else "value-altered"
        return "%s: value %s (%s) came back as %s" % (where, _show(want), tag, _show(obs["val"])), mech
    return None, None


def shrink_line(case):
    if "raw" in case:
        s = case["raw"]
        if case.get("expect") is None:
            for i in range(len(s)):
                yield dict(case, raw=s[:i] + s[i + 1:])
        return
    for i in range(4):
        if case["ws"][i]:
            w = list(case["ws"])
            w[i] = w[i][1:]
            yield dict(case, ws=w)
    if case.get("comment"):
        yield dict(case, comment=None)
        yield dict(case, comment=case["comment"][1:])
    k = case["key"]
    if len(k) > 1:
        yield dict(case, key="k")
        for i in range(len(k)):
            yield dict(case, key=k[:i] + k[i + 1:])
    v = case["val"]
    if v["t"] == "str":
        s = v["v"]
        for i in range(len(s)):
            yield dict(case, val=dict(v, v=s[:i] + s[i + 1:]))
    elif v["t"] in ("int", "hex"):
        n = int(v["v"])
        for m in (0, 1, n // 2, n // 16, -n):
            if abs(m) < abs(n) or (m == -n and n < 0):
                yield dict(case, val=dict(v, v=str(m)))
        if v.get("style") not in (None, "plain", "lower"):
            yield dict(case, val=dict(v, style="plain" if v["t"] == "int" else "lower"))
    elif v["t"] == "float":
        for t in ("1.5", "0.5", "1e-05"):
            if t != v["v"]:
                yield dict(case, val=dict(v, v=t))


# ------------------------------------------------------------------------------------------------ whole protocols

HEADERS = ["###", "###", "object=MrProtDataImpl@MrProtocolData version=41310008 converter=%MEASCONST%/converter/MrProtocolConverter.txt ###", "", "### "]
BEFORE = ["", "<XProtocol>\n{\n  <Name> \"PhoenixMetaProtocol\"\n}\n", "junk = 1\nmore \"junk\"\n", "x\n", "### ASCCONV\n", "a = \"\"b\n", "é\n"]
AFTER = ["", "\n", "\njunk after = 2\n", "\n### ASCCONV BEGIN ###\nlate = 1\n### ASCCONV END ###\n", " trailing", "\n### ASCCONV END ###\n", "\nk = ""unterminated\n"]


def markers_in_order(text):
    """the text HAS an ASCCONV section: a BEGIN marker, and the first END marker of the text comes after the first BEGIN.  Only then
    does the property ("assignments between the ASCCONV BEGIN and END markers") say anything about the result."""
    b = text.find(BEGIN)
    e = text.find(END)
    return b != -1 and e != -1 and e > b


def build_prot(c):
    """components -> (prot_key, text, expectation).  expectation: None | ("err",) | ("items", [[key, tag, value], ...])"""
    pkey = c["pkey"]
    d = D2 if pkey == "MrPhoenixProtocol" else D1
    lines, exps = [], []
    for lc in c["lines"]:
        ln, e = build_line(dict(lc, delim=d))
        lines.append(ln)
        exps.append(e)
    st = c.get("struct")
    body = ''.join(ln + "\n" for ln in lines)
    if st == "no_begin":
        text = c["before"] + body + END + c["after"]
    elif st == "no_end":
        text = c["before"] + BEGIN + c["header"] + "\n" + body + c["after"].replace(END, "")
    elif st == "end_first":
        text = c["before"] + END + "\n" + BEGIN + c["header"] + "\n" + body + END + c["after"]
    elif st == "no_last_nl":
        text = c["before"] + BEGIN + c["header"] + "\n" + body[:-1] + END + c["after"] if body else c["before"] + BEGIN + c["header"] + END + c["after"]
    elif st == "no_markers":
        text = c["before"] + body + c["after"].replace(END, "").replace(BEGIN, "")
    else:
        text = c["before"] + BEGIN + c["header"] + "\n" + body + END + c["after"]
    if pkey not in ("MrPhoenixProtocol", "MrProtocol") or st is not None:
        return pkey, text, None
    inner = c["header"] + "\n" + body
    if BEGIN in c["before"] or END in c["before"] or END in inner or "\n" in c["header"] or any("\n" in ln for ln in lines):
        return pkey, text, None
    if (c["before"] + BEGIN).find(BEGIN) != len(c["before"]) or (c["before"] + BEGIN + inner + END).find(END) != len(c["before"] + BEGIN + inner):
        return pkey, text, None
    items = {}
    for e in exps:
        if e is None:
            return pkey, text, None
        if e[0] == "err":
            return pkey, text, ("err",)
        if e[0] == "val":
            items[e[1]] = [e[1], e[2], e[3]]          # a dict: last wins, position of the first insertion
    return pkey, text, ("items", list(items.values()))


def _latin1(x):
    return all(0 < ord(ch) < 256 for ch in x)


def _mojibake(lc):
    """every text component re-read as latin-1 from its UTF-8 bytes (what a Siemens header with UTF-8 text looks like after the
    CSA reader's latin-1 decoding); expectations are derived from the transformed components, so the oracle stays sound"""
    m = lambda x: x.encode("utf-8").decode("latin-1")
    out = dict(lc)
    if "raw" in out:
        if out.get("expect"):
            return lc if _latin1(out["raw"]) else dict(out, raw=m(out["raw"]), expect=None)
        out["raw"] = m(out["raw"])
        return out
    out["ws"] = [m(w) for w in lc["ws"]]
    out["key"] = m(lc["key"])
    if lc.get("comment") is not None:
        out["comment"] = m(lc["comment"])
    if lc["val"]["t"] in ("str", "float", "raw"):
        out["val"] = dict(lc["val"], v=m(lc["val"]["v"]))
    if lc.get("mut") and ":" in lc["mut"]:
        a, b = lc["mut"].split(":", 1)
        out["mut"] = a + ":" + m(b)
    return out


def gen_prot_components(rng, d, latin1=False, p_struct=0.12, big=False):
    """before / header / lines / after (+ optional structural mutation) of one protocol text in dialect d"""
    nl = rng.choice([0, 1, 2, 3, 4, 6, 8, 12, 12, 25, 60] + ([150, 400] if big else []))
    p_bad = rng.choice([0, 0, 0, 0.1, 0.3]) if nl <= 12 else rng.choice([0, 0, 0, 0.01])
    lines = []
    for _ in range(nl):
        for _try in range(200):
            lc = gen_line_case(rng, d, for_prot=True)
            if latin1 and not _latin1(build_line(lc)[0]):
                if rng.random() < 0.5:
                    continue
                lc = _mojibake(lc)          # the UTF-8 bytes of the line, as the CSA reader decodes them (latin-1)
                if not _latin1(build_line(lc)[0]):
                    continue
            bad = lc["kind"].startswith("malformed") or lc["kind"] in ("garbage", "fixed")
            if bad == (rng.random() < p_bad):
                break
        lines.append(lc)
    if lines and rng.random() < 0.4:      # force duplicate keys
        keyed = [l for l in lines if "key" in l and l.get("mut") is None]
        if len(keyed) >= 2:
            a, b = rng.sample(keyed, 2)
            b["key"] = a["key"]
            if rng.random() < 0.5 and len(keyed) >= 3:
                rng.choice(keyed)["key"] = a["key"]
    st = None
    if rng.random() < p_struct:
        st = rng.choice(["no_begin", "no_end", "end_first", "no_last_nl", "no_markers"])
    return {"before": rng.choice(BEFORE), "header": rng.choice(HEADERS), "lines": lines, "after": rng.choice(AFTER), "struct": st}


def compare_items(got, want):
    """got: [[key, observed value]], want: [[key, tag, value]] -- compared as MAPS (the property speaks of the assignments, not of
    their order).  -> (text, mechanism) or (None, None)"""
    gd, wd = {}, {}
    for k, v in got:
        if k in gd:
            return "key %s delivered twice" % _show(k), "key-duplicated"
        gd[k] = v
    for k, tag, val in want:
        wd[k] = (tag, val)
    missing = [k for k in wd if k not in gd]
    extra = [k for k in gd if k not in wd]
    if missing:
        return "assignments lost: %s (unexpected keys: %s)" % (_show(missing), _show(extra)), ("key-renamed" if extra else "key-lost")
    if extra:
        return "unexpected keys %s" % _show(extra), "key-unexpected"
    for k, (tag, val) in wd.items():
        if not value_matches(gd[k], tag, val):
            return "key %s should be %s (%s), got %s" % (_show(k), _show(val), tag, _show(gd[k])), (
                "type-altered" if gd[k].get("t") != tag else "value-altered")
    return None, None


def _prot_verdict(case, obs):
    try:
        pkey, text, exp = build_prot(case)
    except Exception:
        return None, None
    if "crash" in obs:
        if obs["crash"] in ("HarnessFailure", "Timeout"):
            return None, None
        return "parse_phoenix_prot(%s, %s) crashed with %s" % (_show(pkey), _show(text), obs["crash"]), "crash-" + str(obs["crash"])
    if exp is None:
        return None, None
    where = "protocol %s under key %s" % (_show(text), pkey)
    if exp[0] == "err":
        if obs.get("err") == "EPhoenix":
            return None, None
        return "%s contains a malformed line but parsing returned %s" % (where, _show(obs)), "malformed-accepted"
    if "err" in obs:
        return "%s: every line is valid but parsing raised %s" % (where, obs["err"]), "valid-rejected"
    txt, mech = compare_items(obs["items"], exp[1])
    if txt:
        return "%s: %s" % (where, txt), mech
    return None, None


class Prot:
    NAME = "prot"
    CORR_REQUIRE = "From DV Require Import Common.PyNum Phoenix.Model Phoenix.Corr."
    CORR_CASE_TYPE = "Corr.pcase"
    CORR_CHECK = "Corr.pcheck"
    CORR_SHOW = "Corr.pshow"
    SHARD = 30
    IMPL_TIMEOUT = 20
    RULE = ("whole protocol texts: arbitrary text before the first BEGIN marker and after the first END marker (incl. a second section), short and long "
            "BEGIN header, 0-60 lines (occasionally 150-400) drawn from the line generator (valid / blank / comment / occasionally malformed), duplicate keys forced in a third "
            "of the cases, both protocol keys plus unknown keys; structural mutations (missing markers, END before BEGIN, no newline before END); every second case "
            "is a two-call history (same text parsed under the other protocol key first, in the same process, result discarded). "
            "non-trivial = at least one assignment line")

    @staticmethod
    def gen_cases(rng, tier):
        n = 260 if tier == "quick" else 5000
        out = []
        for i in range(n):
            pkey = rng.choice(["MrPhoenixProtocol"] * 12 + ["MrProtocol"] * 12 + ["MrProt", "", "mrprotocol"])
            c = gen_prot_components(rng, D2 if pkey == "MrPhoenixProtocol" else D1, big=(tier != "quick" or rng.random() < 0.04))
            st = c["struct"]
            c["pkey"] = pkey
            c["kind"] = ("struct-" + st) if st else ("unknown-key" if pkey not in ("MrPhoenixProtocol", "MrProtocol") else pkey)
            # every second case is a two-call history: the same text is first parsed under the OTHER protocol key (other quoting
            # dialect) in the same process, result discarded; the judged call must not depend on it (wave-5 seed C16_eseed1)
            c["prime"] = (i % 2 == 1)
            out.append(c)
        return out

    @staticmethod
    def run_impl(case):
        from dcmstack import extract
        pkey, text, _ = build_prot(case)
        if case.get("prime"):
            try:
                extract.parse_phoenix_prot("MrProtocol" if pkey == "MrPhoenixProtocol" else "MrPhoenixProtocol", text)
            except Exception:
                pass
        try:
            res = extract.parse_phoenix_prot(pkey, text)
        except extract.PhoenixParseError:
            return {"err": "EPhoenix"}
        except Exception:
            # classified by the case region, never by the message: an unknown protocol key is refused (the code raises
            # ValueError; the property does not name a class, any exception counts as the refusal the model calls EValue)
            if pkey not in ("MrPhoenixProtocol", "MrProtocol"):
                return {"err": "EValue"}
            raise
        return {"items": [[k, observe_value(v)] for k, v in res.items()]}

    @staticmethod
    def coq_case(case, obs):
        pkey, text, _ = build_prot(case)
        if "err" in obs:
            o = "(PErr %s)" % obs["err"]
        elif "crash" in obs:
            o = "(PErr ECrash)"
        else:
            pvs = [(k, coq_pval(v)) for k, v in obs["items"]]
            if any(pv is None or not isinstance(k, str) for k, pv in pvs):
                o = "(PErr ECrash)"
            else:
                o = "(PItems %s)" % clist(cpair(cstr(k), pv) for k, pv in pvs)
        judged = pkey not in ("MrPhoenixProtocol", "MrProtocol") or markers_in_order(text)
        return "{| p_key := %s; p_text := %s; p_judged := %s; p_obs := %s |}" % (cstr(pkey), cstr(text), cbool(judged), o)

    @staticmethod
    def oracle(case, obs):
        return _prot_verdict(case, obs)[0]

    @staticmethod
    def signature(case, obs, msg):
        return "prot/%s/%s" % (case.get("pkey") if case.get("pkey") in ("MrPhoenixProtocol", "MrProtocol") else "other-key",
                               _prot_verdict(case, obs)[1] or "none")

    @staticmethod
    def nontrivial(case, obs):
        return any(l.get("mut") is None for l in case["lines"])

    @staticmethod
    def shrink(case):
        ls = case["lines"]
        for i in range(len(ls)):
            yield dict(case, lines=ls[:i] + ls[i + 1:])
        if case["before"]:
            yield dict(case, before="")
        if case["after"]:
            yield dict(case, after="")
        if case["header"] != "###":
            yield dict(case, header="###")
        for i, l in enumerate(ls):
            for j, s in enumerate(shrink_line(l)):
                if j >= 6:
                    break
                yield dict(case, lines=ls[:i] + [s] + ls[i + 1:])


# ------------------------------------------------------------------------------------------------ CSA series header -> merged dict

CSA_STR_VRS = ["LO", "SH", "CS", "UN", "ST", "LT", "UT"]
CSA_INT_VRS = ["IS", "SL", "SS", "UL", "US"]
CSA_FLT_VRS = ["DS", "FL", "FD"]
CSA_NAMES = ["UsedPatientWeight", "NumberOfPrescans", "TransmitterCalibration", "PhaseGradientAmplitude", "MrEvaProtocol", "SequenceFileOwner",
             "GradientMode", "FlowCompensation", "Isocentered", "CoilForGradient", "TablePositionOrigin", "MiscSequenceParam", "B1rms",
             "RelTablePosition", "ReadoutOS", "tz", "MrProtocolVersion", "ZZ", "AAA", "MrPhoenixProtocolX", "Mr", "n\xe9", "a b", "MrProtocol2"]
PHX, MRP = "MrPhoenixProtocol", "MrProtocol"


def build_csa2(tags):
    """hand-built Siemens CSA2 ('SV10') header: tags = [{name, vr, items: [latin-1 str], pad: n}]"""
    import struct
    out = b"SV10" + b"\x04\x03\x02\x01" + struct.pack("<2I", len(tags), 77)
    for t in tags:
        items = [x.encode("latin-1") + b"\x00" for x in t["items"]]
        pad = t.get("pad", 0) if items else 0
        out += struct.pack("<64si4s3i", t["name"].encode("latin-1"), len(items), t["vr"].encode("ascii"), 0, len(items) + pad, 77 if items else 205)
        for it in items:
            out += struct.pack("<4i", len(it), len(it), 77, len(it)) + it + b"\x00" * ((4 - len(it) % 4) % 4)
        for _ in range(pad):
            out += struct.pack("<4i", 0, 0, 77, 0)
    return out


def _denotes(o, text):
    """does the observed item value denote the item text the generator wrote?  (a str must be that text, a number must be the
    number the text spells -- which VRs the CSA reader converts is nibabel's business, not this property's)"""
    t = o.get("t")
    if t == "str":
        return o["v"] == text
    try:
        if t == "int":
            return o["v"] == str(int(text))
        if t == "float":
            return value_matches(o, "float", float(text))
    except ValueError:
        return False
    return False


def build_csa(c):
    """components -> (tags incl. the protocol elements, expectation)
    expectation: None | ("err",) | ("dict", chosen element name or None, its text,
                                    {other tag name: [item texts]}, [[merged key, tag, value], ...])"""
    tags = [dict(t) for t in c["tags"]]
    which = c["which"]
    texts = {}
    exp_prot = None
    chosen = PHX if which in ("phoenix", "both") else (MRP if which == "mr" else None)
    if which in ("phoenix", "both"):
        _, texts[PHX], e = build_prot(dict(c["prot"], pkey=PHX))
        exp_prot = e
    if which in ("mr", "both"):
        _, texts[MRP], e = build_prot(dict(c["prot2" if which == "both" else "prot"], pkey=MRP))
        if which == "mr":
            exp_prot = e
    for name, text in texts.items():
        items = [text, text] if (c.get("list_prot") and name == chosen) else [text]
        tags.append({"name": name, "vr": "UN", "items": items, "pad": c.get("prot_pad", 0)})
    names = [t["name"] for t in tags]
    ok_input = (len(set(names)) == len(names) and all(_latin1(t["name"]) and 0 < len(t["name"].encode("latin-1")) < 64 for t in tags)
                and all(_latin1(x) or x == "" for t in tags for x in t["items"]) and len(tags) > 0)
    if not ok_input:
        return tags, None
    if c.get("list_prot") and chosen:
        return tags, None
    if chosen and exp_prot is None:
        return tags, None
    if chosen and exp_prot[0] == "err":
        return tags, ("err",)
    other = {t["name"]: list(t["items"]) for t in tags if t["name"] != chosen and t["items"]}
    merged = []
    if chosen:
        for k, tag, val in exp_prot[1]:
            nk = PHX + "." + k
            if nk in other:
                return tags, None          # an ordinary tag collides with a merged key: the property says nothing
            merged.append([nk, tag, val])
    return tags, ("dict", chosen, texts.get(chosen), other, merged)


def _csa_verdict(case, obs):
    """-> (message, mechanism)"""
    try:
        tags, exp = build_csa(case)
    except Exception:
        return None, None
    where = "CSA series header (%s, via %s) with tags %s" % (case["which"], case["via"], _show([(t["name"], t["vr"], t["items"]) for t in tags]))
    if "crash" in obs:
        if obs["crash"] in ("HarnessFailure", "Timeout"):
            return None, None
        return "%s: crashed with %s %s" % (where, obs["crash"], str(obs.get("msg", ""))[:200]), "crash-" + str(obs["crash"])
    if exp is None:
        return None, None
    if exp[0] == "err":
        if obs.get("err") == "EPhoenix":
            return None, None
        return "%s: the protocol has a malformed line but the result is %s" % (where, _show(obs.get("items"))), "malformed-accepted"
    if "err" in obs:
        if case["via"] == "func":
            return "%s: the protocol section is well formed but the translator raised %s" % (where, obs["err"]), "valid-rejected"
        return "%s: the protocol section is well formed but the translator's %s was turned into a warning and every CsaSeries key was dropped" % (
            where, obs["err"]), "valid-dropped"
    _, chosen, text, other, merged = exp
    if chosen:    # abstraction == generator truth: the element text the reader + simplify_csa_dict hand to the parser is the text written
        seen = dict((k, v) for k, v in obs.get("in", []))
        if seen.get(chosen, {}).get("t") != "str" or seen[chosen]["v"] != text:
            return "%s: element %s reached the parser as %s" % (where, chosen, _show(seen.get(chosen))), "element-text-altered"
    gd = {}
    for k, v in obs["items"]:
        if k in gd:
            return "%s: key %s delivered twice" % (where, _show(k)), "key-duplicated"
        gd[k] = v
    want_keys = set(other) | set(m[0] for m in merged)
    if chosen and chosen in gd:
        return "%s: the raw element %s is still present" % (where, chosen), "raw-element-kept"
    lost = [m[0] for m in merged if m[0] not in gd]
    extra = [k for k in gd if k not in want_keys]
    if lost:
        return "%s: assignments lost %s (unexpected keys %s)" % (where, _show(lost), _show(extra)), ("merged-key-renamed" if extra else "assignment-lost")
    lost_o = [k for k in other if k not in gd]
    if lost_o:
        return "%s: ordinary tags lost %s" % (where, _show(lost_o)), "other-key-lost"
    if extra:
        return "%s: unexpected keys %s" % (where, _show(extra)), "key-unexpected"
    for nk, tag, val in merged:
        if gd[nk].get("t") == "list" or not value_matches(gd[nk], tag, val):
            return "%s: key %s should be %s (%s), got %s" % (where, _show(nk), _show(val), tag, _show(gd[nk])), (
                "type-altered" if gd[nk].get("t") != tag else "value-altered")
    for k, items in other.items():
        v = gd[k]
        if len(items) == 1:
            ok = v.get("t") != "list" and _denotes(v, items[0])
        else:
            ok = v.get("t") == "list" and len(v["items"]) == len(items) and all(_denotes(x, y) for x, y in zip(v["items"], items))
        if not ok:
            return "%s: ordinary tag %s with items %s came back as %s" % (where, _show(k), _show(items), _show(v)), "other-value-altered"
    return None, None


def _gen_csa_tags(rng):
    n = rng.choice([0, 1, 2, 3, 5, 8])
    names = rng.sample(CSA_NAMES, n)
    tags = []
    for nm in names:
        kind = rng.choice(["str", "str", "int", "float", "empty"])
        k = rng.choice([1, 1, 1, 2, 3, 6])
        if kind == "str":
            vr = rng.choice(CSA_STR_VRS)
            items = [rng.choice(["", "x", "Head_32", "1.5", "0x10", "a = \"b\" # c", "FAST", "h\xe9llo", " padded ", "-1"]) for _ in range(k)]
        elif kind == "int":
            vr = rng.choice(CSA_INT_VRS)
            items = [str(rng.randrange(-2 ** 31, 2 ** 31)) for _ in range(k)]
        elif kind == "float":
            vr = rng.choice(CSA_FLT_VRS)
            items = [repr(rng.choice([rng.uniform(-100, 100), float(rng.randrange(0, 500)), 0.1, 1e-5, 1e16])) for _ in range(k)]
        else:
            vr, items = rng.choice(CSA_STR_VRS + CSA_INT_VRS), []
        tags.append({"name": nm, "vr": vr, "items": items, "pad": rng.choice([0, 0, 1, 5])})
    return tags


class Csa:
    NAME = "csa"
    CORR_REQUIRE = "From DV Require Import Common.PyNum Phoenix.Model Phoenix.Corr."
    CORR_CASE_TYPE = "Corr.ccase"
    CORR_CHECK = "Corr.ccheck"
    CORR_SHOW = "Corr.cshow"
    SHARD = 40
    IMPL_TIMEOUT = 30
    RULE = ("a hand-built Siemens CSA2 ('SV10') series header with 0-8 ordinary tags (string / integer / float VRs, 0-6 items) and the protocol text "
            "stored under MrPhoenixProtocol only, MrProtocol only (single-quote dialect), both, or neither, (all latin-1 code points, incl. UTF-8 text as the reader decodes it) run through the real "
            "extract.csa_series_trans_func; one case in six goes through MetaExtractor() on a pydicom Dataset holding the header as (0029,1020) under the "
            "'SIEMENS CSA HEADER' private creator. The model gets the simplified dict (nibabel csareader + simplify_csa_dict, both outside the model) "
            "and must produce the same ordered dict or error. non-trivial = a protocol element with at least one assignment line")

    @staticmethod
    def gen_cases(rng, tier):
        n = 240 if tier == "quick" else 3000
        out = []
        for i in range(n):
            which = rng.choice(["phoenix"] * 4 + ["mr"] * 4 + ["both"] * 2 + ["none"])
            via = "extractor" if rng.random() < 0.17 else "func"
            c = {"which": which, "via": via, "tags": _gen_csa_tags(rng), "prot_pad": rng.choice([0, 0, 5])}
            d = D2 if which in ("phoenix", "both") else D1
            if which != "none":
                c["prot"] = gen_prot_components(rng, d, latin1=True, p_struct=0.05)
            if which == "both":
                c["prot2"] = gen_prot_components(rng, D1, latin1=True, p_struct=0.0)
            if which != "none" and rng.random() < 0.03:
                c["list_prot"] = True
            if which == "none" and not c["tags"]:
                c["tags"] = [{"name": "tz", "vr": "LO", "items": ["x"], "pad": 0}]
            if rng.random() < 0.04 and which != "none":     # an ordinary tag that collides with a merged key
                c["tags"].append({"name": PHX + ".ulVersion", "vr": "IS", "items": ["3"], "pad": 0})
            c["kind"] = "csa-%s%s" % (which, "-extractor" if via == "extractor" else "")
            out.append(c)
        return out

    @staticmethod
    def run_impl(case):
        import warnings
        from dcmstack import extract
        tags, _ = build_csa(case)
        raw = build_csa2(tags)
        simp = extract.simplify_csa_dict(extract.csareader.read(raw))
        obs = {"in": [[k, _obs_csa_val(v)] for k, v in simp.items()]}

        class Elem(object):
            value = raw

        def direct():
            # exceptions are classified by class and case region, never by their text
            try:
                res = extract.csa_series_trans_func(Elem())
            except extract.PhoenixParseError:
                return {"err": "EPhoenix"}
            except Exception:
                if case.get("list_prot") and case["which"] != "none":
                    return {"err": "EAttr"}       # region: the protocol element holds a LIST of items; the property says nothing, any refusal
                raise
            return {"items": [[k, _obs_csa_val(v)] for k, v in res.items()]}
        if case["via"] == "func":
            obs.update(direct())
            return obs
        import pydicom
        ds = pydicom.Dataset()
        ds.add_new((0x0029, 0x0010), "LO", "SIEMENS CSA HEADER")
        ds.add_new((0x0029, 0x1020), "OB", raw)
        ds.add_new((0x0010, 0x0010), "PN", "Phantom^C16")
        with warnings.catch_warnings():
            warnings.simplefilter("ignore")
            meta = extract.MetaExtractor()(ds)
        items = [[k[len("CsaSeries."):], _obs_csa_val(v)] for k, v in meta.items() if k.startswith("CsaSeries.")]
        if items:
            obs["items"] = items
            return obs
        # No CsaSeries key at all: either the translator returned an empty dict, or it raised and MetaExtractor turned the exception
        # into a warning, dropping the whole group.  Which one is decided by calling the translator itself (exception class).
        d = direct()
        if "err" in d:
            obs["err"] = d["err"]
        elif d["items"]:
            obs["crash"] = "CsaSeriesDropped"
            obs["msg"] = "MetaExtractor returned no CsaSeries.* key although the translator returns %d keys" % len(d["items"])
        else:
            obs["items"] = []
        return obs

    @staticmethod
    def coq_case(case, obs):
        def cval(v):
            if v["t"] == "list":
                pvs = [coq_pval(x) for x in v["items"]]
                return None if any(p is None for p in pvs) else "(CItems %s)" % clist(pvs)
            pv = coq_pval(v)
            return None if pv is None else "(CItem %s)" % pv

        def cdict(items):
            out = []
            for k, v in items:
                cv = cval(v)
                if cv is None or not isinstance(k, str):
                    return None
                out.append(cpair(cstr(k), cv))
            return clist(out)
        cin = cdict(obs.get("in", [])) if "in" in obs else None
        tags, _ = build_csa(case)
        chosen = PHX if case["which"] in ("phoenix", "both") else (MRP if case["which"] == "mr" else None)
        ptxt = [t["items"][0] for t in tags if t["name"] == chosen and t["items"]]
        judged = cbool(chosen is None or bool(case.get("list_prot")) or (bool(ptxt) and markers_in_order(ptxt[0])))
        if cin is None:
            return "{| c_in := []; c_judged := true; c_obs := CErr ECrash |}"
        if "err" in obs:
            o = "(CErr %s)" % obs["err"]
        elif "crash" in obs:
            o = "(CErr ECrash)"
        else:
            cd = cdict(obs["items"])
            o = "(CErr ECrash)" if cd is None else "(CDict %s)" % cd
        return "{| c_in := %s; c_judged := %s; c_obs := %s |}" % (cin, judged, o)

    @staticmethod
    def oracle(case, obs):
        return _csa_verdict(case, obs)[0]

    @staticmethod
    def signature(case, obs, msg):
        return "csa/%s/%s/%s" % (case.get("which"), case.get("via"), _csa_verdict(case, obs)[1] or "none")

    @staticmethod
    def nontrivial(case, obs):
        return case["which"] != "none" and any(l.get("mut") is None and "key" in l for l in case["prot"]["lines"])

    @staticmethod
    def shrink(case):
        ts = case["tags"]
        for i in range(len(ts)):
            if len(ts) > 1 or case["which"] != "none":
                yield dict(case, tags=ts[:i] + ts[i + 1:])
        if case.get("prot_pad"):
            yield dict(case, prot_pad=0)
        for pk in ("prot", "prot2"):
            if pk in case:
                pr = case[pk]
                ls = pr["lines"]
                for i in range(len(ls)):
                    yield dict(case, **{pk: dict(pr, lines=ls[:i] + ls[i + 1:])})
                if pr["before"]:
                    yield dict(case, **{pk: dict(pr, before="")})
                if pr["after"]:
                    yield dict(case, **{pk: dict(pr, after="")})
                if pr["header"] != "###":
                    yield dict(case, **{pk: dict(pr, header="###")})
                for i, l in enumerate(ls):
                    for j, sl in enumerate(shrink_line(l)):
                        if j >= 5:
                            break
                        if _latin1(build_line(dict(sl, delim=D1))[0]):
                            yield dict(case, **{pk: dict(pr, lines=ls[:i] + [sl] + ls[i + 1:])})


def _obs_csa_val(v):
    if isinstance(v, (list, tuple)):
        return {"t": "list", "items": [observe_value(x) for x in v]}
    return observe_value(v)


PARTS = [Lines, Prot, Csa]
