"""C01  The embedded summary is a lossless encoding of every source file's metadata."""
from props import convmeta as M

ID = "C01"
COQ_PROPS = "Props/C01.v"
THEOREMS = ["C01_dev"]
ALLOWED_AXIOMS = []
TABLES = ["t_classes", "t_ext_tol", "t_stack", "t_filter"]
RULE = M.LosslessPart.RULE
TRUSTED_BASE = []
ASSUMPTIONS = []
PARTS = [M.LosslessPart]
