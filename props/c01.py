"""C01  The embedded summary is a lossless encoding of every source file's metadata."""
from props import convmeta as M

ID = "C01"
COQ_PROPS = "Props/C01.v"
THEOREMS = ["C01_lossless", "C01_filtered", "C01_flip_order", "C01_lossless_refuted"]
ALLOWED_AXIOMS = []
TABLES = ["t_classes", "t_ext_tol", "t_stack", "t_filter"]
RULE = M.LosslessPart.RULE
TRUSTED_BASE = [
    "nibabel DicomWrapper (slice_indicator, affine), nibabel Nifti1Image/header (best affine = float32 sform) and pydicom are "
    "contracts: the sorter's view of every file (props/stacklib.abstract_file), the affine of each per-file extension "
    "(NiftiWrapper.from_dicom_wrapper on the same data set), the axis permutation of the voxel reordering "
    "(dcmstack.reorder_voxels on a twin stack) and the affine written into the extension are read from the implementation "
    "through public API and given to the model as INPUTS (the geometry half, coq/Conv/Geom*.v, C02/C17, is where they are "
    "modelled); the extension CONTENT, its shape and slice_dim, the final file order (read off the output array: every file "
    "is located by its pixel values) and every lookup are model outputs compared exactly.  The oracles never use a "
    "library-derived value as yardstick: ground truth is convmeta.gen_truth(case) (what the generator put into the data "
    "set / dictionary) and stacklib.spec_truth; the clause `model inputs == generator truth` is part of both oracles",
    "Python == on metadata values is structural equality: one value type per key (never 1 vs 1.0 vs True), no NaN",
    "the theorems import the merge law C03 (Ext/ProofsMerge.v: merge_den, merge_total), the lookup law C08 "
    "(Ext/ProofsLookup.v: get_meta_value) and the sorter's invariant (Stack/ProofsInv.v, ProofsC11.v)",
]
ASSUMPTIONS = [
    "DOMAIN RESTRICTION (open finding N9, sig c01-slice-normal-tolerance): C01_lossless assumes the slice normals (row 2 of the "
    "per-file extension affines) are pairwise np.allclose with default tolerances; add_dcm itself tolerates orientation "
    "differences up to 5e-5, for which the conversion silently drops per-slice values (C01_lossless_refuted; stream orient_lo)",
    "metadata filters depend on the key only (make_key_regex_filter, default_meta_filter, key lambdas); a filter that looks at "
    "values is outside the model",
    "the extraction itself is C15's: here the dictionary the stack works with is a model input; the oracle's ground truth is "
    "the generator's own record of what each data set / hand-built dictionary carries (keyword elements, one sequence, "
    "Siemens CSA image / series tags, an untranslated private element that must yield nothing), and the 'extract' stream "
    "reports any difference between dcmstack's extraction and that record",
    "values are JSON-like: None, bool, int, float, str, (empty / nested) lists and dicts; bytes are outside the domain (not "
    "serialisable: to_nifti itself raises on them when it sizes the extension)",
    "modelled, not verified: key order inside the class dictionaries; the dcmmeta_reorient_transform field (not part of the "
    "extension model's header; it is the transform of C17); heap aliasing (the deepcopy of the 3-D branch)",
    "the statement is relative to the FINAL file order o_order of Stack.Model.to_nifti (list order follows data order): that the "
    "voxels of the file at list index s + S*(t + T*v) sit at slice s / time t / component v of the output array is checked on "
    "every case (each file is located in the real output array by its pixel values) and proved on the data side by C02",
    "classic single-frame data sets, complete grids (every stream converts; refusal is C11's)",
]
PARTS = [M.LosslessPart]


# source tie (integrator): meta_valid / get_meta / __getitem__ are TRANSLATED from the Python AST on every run
# (tools/tables/t_src_lookup.py) and Ext.Model's lookups are proved equal to the translation (Props/SRClookup.v)
COQ_PROPS = (list(COQ_PROPS) if isinstance(COQ_PROPS, (list, tuple)) else [COQ_PROPS]) + ['Props/SRClookup.v']
THEOREMS = list(THEOREMS) + ['SRC_meta_valid', 'SRC_get_meta', 'SRC_getitem']
TABLES = sorted(set(list(globals().get('TABLES') or []) + ['t_src_lookup', 't_classes', 't_ext_tol']))


# end-to-end composition (integrator): conv_full (coq/Conv/Full.v) threads the permutation, flip bit and final affine that
# the geometry half computes into the embed step exactly as DicomStack.to_nifti does; theorems in Props/C01full.v
from props import convfull as _convfull
COQ_PROPS = (list(COQ_PROPS) if isinstance(COQ_PROPS, (list, tuple)) else [COQ_PROPS]) + ['Props/C01full.v']
THEOREMS = list(THEOREMS) + ['C01_voxel_lossless', 'C01_full_projects', 'C01_full_flip', 'C01_normals_from_sources']
COQ_EXTRA_TARGETS = list(globals().get('COQ_EXTRA_TARGETS') or []) + ['Conv/FullCorr.vo']
TABLES = sorted(set(list(globals().get('TABLES') or []) + ['t_classes', 't_ext_tol', 't_stack', 't_filter', 't_time', 't_conv']))
PARTS = list(PARTS) + [_convfull.FullPart]
