"""C12  Conversion results do not depend on add order or on earlier calls."""
import os, sys, json, random, copy
from props import stacklib as L

ID = "C12"
COQ_PROPS = "Props/C12.v"
THEOREMS = ["C12_history", "C12_fresh", "C12_no_ties", "C12_files", "C12_dtype"]
ALLOWED_AXIOMS = []
RULE = ("synthetic in-memory DICOM series (grids S<=4 x T<=3 x V<=3, 7 orientations x 2 slice directions, explicit or "
        "guessed ordering keys, complete or with a dropped / duplicated / misfiled / pixel-less file or an irregular gap; "
        "per-file BitsStored / PixelRepresentation / pixel range / AcquisitionTime presence varied; two or three "
        "different RepetitionTime values (incl. pairs colliding in an 8-slot hash table: 2000/3000, 1000/9000) and mixed "
        "ROW / COL / absent phase directions across files) x random histories: adds in random order interleaved with "
        "shape / data / affine queries and conversions (8 voxel orders, embed on/off, to_nifti_wrapper), ending in one "
        "conversion; the result is compared byte for byte with fresh stacks given the accepted files in other orders "
        "(1 order; 6 orders, thorough all 24 permutations, for four-file stacks and stacks with several TR / phase "
        "values); pixdim[4], the dim_info phase code and the dtype of every converted image are also compared inside "
        "Coq.  Non-trivial: at least two accepted files and at least one query or conversion before the final one")
TRUSTED_BASE = [
    "nibabel DicomWrapper (slice_indicator, affine) and dcmstack.extract.default_extractor are contracts: the per-file "
    "abstraction given to the model is read from them (props/stacklib.abstract_file)",
    "whether a voxel order flips the slice axis of an ascending stack is read from the real reorder_voxels on the "
    "reference file's affine (props/stacklib.wants_flip); the model only needs that reversing the files negates the "
    "slice column (slices are stacked along the slice normal)",
    "the conversion OUTPUT of the model is abstract (file order, shape, flip, affine source, slice column, TR, phase "
    "direction): that array, affine, header fields and embedded JSON are functions of it is checked by the byte "
    "comparison of the oracle, not proved",
    "Python list.sort is a stable sort (Stack.Model.ssort)",
]
ASSUMPTIONS = [
    "classic single-frame data sets; ordinates numeric or fixed-width TM strings; slices stacked along the normal",
    "after a TypeError inside list.sort (explicit key missing on some files) the order of the files is unspecified in "
    "Python and not modelled: such histories are outside the generator (the theorem is about the model, where the "
    "failed sort leaves the list unchanged)",
    "Python object aliasing between the stack and returned images is not modelled (the returned affine IS the first "
    "file's array); covered only by the byte comparison",
    "both histories must accept the same multiset of files: which files are accepted can depend on the add order "
    "(first colliding file wins, congruence is relative to the first file) - that is C11's subject",
]

DEFECTS = ['none'] * 6 + ['drop1', 'duplicate', 'nopix', 'tie_straddle', 'misfiled_dup', 'gap', 'collide', 'bad_ordinate']


def rand_query(rng):
    r = rng.random()
    if r < 0.2:
        return ['shape']
    if r < 0.35:
        return ['data']
    if r < 0.5:
        return ['affine']
    if r < 0.9:
        return ['nifti', rng.choice(L.VOXEL_ORDERS), rng.random() < 0.5]
    return ['wrapper', rng.choice(L.VOXEL_ORDERS)]


def gen_cases(rng, tier):
    n = 420 if tier == 'quick' else 3000
    cases = []
    for k in range(n):
        cfg = L.rand_config(rng, tier)
        defect = rng.choice(DEFECTS)
        if defect == 'collide' and cfg['mode'] in ('guess', 'none'):
            cfg = L.rand_config(rng, tier, want=rng.choice(['time', 'timevec']))
        if defect == 'bad_ordinate':
            cfg = L.rand_config(rng, tier, want=rng.choice(['time', 'timevec']), force_abs=True)
        if defect == 'tie_straddle' and (cfg['mode'] != 'guess' or cfg['S'] < 2 or cfg['T'] < 2):
            cfg = L.rand_config(rng, tier, want='guess')
            cfg['S'] = max(cfg['S'], 2)
            cfg['T'] = max(cfg['T'], 2)
        if defect == 'gap' and cfg['S'] < 3:
            cfg['S'] = rng.choice([3, 4])
        small = rng.random() < 0.2
        if small:
            # four files, every add order (thorough) / six add orders (quick) against the history
            cfg['S'], cfg['T'] = rng.choice([(2, 2), (4, 1), (1, 4)] if cfg['mode'] != 'none' else [(4, 1)])
            cfg['V'] = 1
            if cfg['mode'] == 'vec':
                cfg['T'] = 1
                cfg['S'] = 4
        files = L.grid_from_config(rng, cfg)
        attrs = L.vary_attrs(rng, cfg, files)
        hdr = L.vary_header_sets(rng, cfg, files) if (small or rng.random() < 0.4) and \
            cfg['tagrules'].get('RepetitionTime') is None else {}
        files, note = L.apply_defect(rng, cfg, files, defect)
        order = L.add_order(rng, files)
        ops = []
        early = rng.random() < 0.35          # queries while files are still being added
        for i in order:
            ops.append(['add', i])
            if early and rng.random() < 0.25:
                ops.append(rand_query(rng))
        for _ in range(rng.choice([0, 1, 1, 2, 2, 3, 4, 6])):
            ops.append(rand_query(rng))
        final = ['nifti', rng.choice(L.VOXEL_ORDERS), rng.random() < 0.6] if rng.random() < 0.85 else ['wrapper', rng.choice(L.VOXEL_ORDERS)]
        ops.append(final)
        note['attrs'] = attrs
        note['hdr'] = hdr
        case = {'kind': '%s/%s' % (cfg['mode'], defect), 'note': note, 'dims': [cfg['S'], cfg['T'], cfg['V']],
                'orient': cfg['orient'], 'direction': cfg['direction'], 'fresh_seed': rng.randrange(1 << 30),
                'nfresh': (24 if tier != 'quick' else 6) if (small or hdr) else 1}
        case.update(L.case_header(cfg))
        case['files'] = files
        case['ops'] = ops
        cases.append(case)
    return cases


PART_KEYS = ['data', 'dtype', 'shape', 'affine', 'pixdim4', 'dim_info', 'slice', 'units', 'ext']


def run_impl(case):
    import dcmstack
    r, obs = L.run_history(dcmstack, case)
    final = case['ops'][-1]
    hist = None if obs['ops'][-1]['r'] != 'ok' else L.nifti_parts(r.last)
    # fresh stacks: the accepted files in other orders (all permutations of up to four files when asked for),
    # then only the final conversion
    import itertools
    acc = list(r.accepted)
    nf = case.get('nfresh', 1)
    rng = random.Random(case.get('fresh_seed', 0))
    if nf >= 24 and len(acc) <= 4:
        orders = [list(p) for p in itertools.permutations(acc)]
    else:
        orders = []
        for _ in range(nf):
            o = list(acc)
            rng.shuffle(o)
            orders.append(o)
    diff, refused, rs = set(), [], set()
    same = True
    for o in orders:
        fcase = dict(case)
        fcase['ops'] = [['add', i] for i in o] + [final]
        fr = L.Runner(dcmstack, fcase)
        fobs = [fr.apply(op) for op in fcase['ops']]
        refused += [x['r'] for x in fobs[:-1] if x['r'] != 'ok']
        rs.add(fobs[-1]['r'])
        fresh = None if fobs[-1]['r'] != 'ok' else L.nifti_parts(fr.last)
        if hist is not None and fresh is not None:
            d = [k for k in PART_KEYS + ['bytes'] if hist[k] != fresh[k]]
            diff.update(d)
            same = same and not d
        else:
            same = same and (hist is None) == (fresh is None) and obs['ops'][-1]['r'] == fobs[-1]['r']
    obs['fresh'] = {'orders': len(orders), 'refused': refused, 'r': sorted(rs)}
    obs['diff'] = sorted(diff)
    obs['same'] = same
    return obs


def coq_case(case, obs):
    return L.coq_case(case, obs)


CORR_REQUIRE = "From Coq Require Import Qcanon.\nFrom DV Require Import Stack.Model Stack.Corr."
CORR_CASE_TYPE = "Corr.case"
CORR_CHECK = "Corr.check"
CORR_SHOW = "Corr.show"
SHARD = 20
IMPL_TIMEOUT = 60
NAME = "main"


def oracle(case, obs):
    """C12 on the implementation alone: the final conversion of the history equals, byte for byte, the one
    of a fresh stack given the accepted files in another order (or both raise the same exception class)."""
    if not isinstance(obs, dict) or 'fresh' not in obs:
        return None
    if obs['fresh']['refused']:
        return None          # the fresh stack did not accept the same files: not a statement of C12
    if obs['same']:
        return None
    h, f = obs['ops'][-1]['r'], obs['fresh']['r']
    if f != [h]:
        return 'final conversion: history -> %s, fresh stacks -> %s' % (h, ','.join(f))
    return 'final conversion differs from a fresh stack in: %s' % ','.join(obs['diff'])


def signature(case, obs, msg):
    return 'c12/' + msg.split(':')[0][:40].replace(' ', '-')


def nontrivial(case, obs):
    if not isinstance(obs, dict) or 'ops' not in obs:
        return False
    nq = len([op for op in case['ops'][:-1] if op[0] != 'add'])
    return len(obs.get('accepted', [])) >= 2 and nq >= 1


def shrink(case):
    return L.shrink_files(case)


# end-to-end composition (integrator): conv_full (coq/Conv/Full.v) threads the permutation, flip bit and final affine that
# the geometry half computes into the embed step exactly as DicomStack.to_nifti does; theorems in Props/C12full.v
from props import convfull as _convfull
COQ_PROPS = (list(COQ_PROPS) if isinstance(COQ_PROPS, (list, tuple)) else [COQ_PROPS]) + ['Props/C12full.v']
THEOREMS = list(THEOREMS) + ['C12_full_dependency', 'C12_full_history', 'C12_full_fresh', 'C12_full_resorted']
COQ_EXTRA_TARGETS = list(globals().get('COQ_EXTRA_TARGETS') or []) + ['Conv/FullCorr.vo']
TABLES = sorted(set(list(globals().get('TABLES') or []) + ['t_classes', 't_ext_tol', 't_stack', 't_filter', 't_time', 't_conv']))
import sys as _sys
PARTS = [_sys.modules[__name__], _convfull.FullPart]
