"""C12  Conversion results do not depend on add order or on earlier calls."""
import os, sys, json, random, copy
from props import stacklib as L

ID = "C12"
COQ_PROPS = "Props/C12.v"
THEOREMS = ["C12_history", "C12_queries", "C12_trace", "C12_fresh", "C12_no_ties", "C12_files", "C12_dtype"]
ALLOWED_AXIOMS = []
RULE = ("synthetic in-memory DICOM series (grids S<=4 x T<=3 x V<=3, 7 orientations x 2 slice directions, explicit "
        "(plain key, abs_ordering, abs_as_str) or guessed ordering keys, complete or with a dropped / duplicated / "
        "misfiled / pixel-less file or an irregular gap; single-file stacks (10 %) and four-file stacks (20 %); per-file "
        "BitsStored / PixelRepresentation / pixel range / AcquisitionTime presence varied; several RepetitionTime values "
        "(incl. pairs colliding in an 8-slot hash table) and mixed phase directions; default extractor or a hand-built "
        "meta argument; default or a custom meta_filter (regex filters excluding Time / Bits / the guess keys / InstanceNumber / everything, lambdas) in 30 %) x random histories: adds in random order interleaved with shape / data / affine queries and "
        "conversions (8 voxel orders and None, embed on/off, to_nifti_wrapper), sometimes a first partial history "
        "ended by clear(), the caller scribbling over returned arrays / images / extensions, ending in one conversion. "
        "EVERY query and conversion of the history is compared by value (array, affine, header fields, embedded JSON, "
        "NIfTI bytes) with the same call on fresh stacks holding the files accepted so far, added in other orders (final "
        "call: 2 orders, 6 for four-file stacks and stacks with several TR / phase values, thorough all 24 "
        "permutations); every result handed out is kept and re-read by value after every later operation; shape, "
        "dtype, pixdim[4], the dim_info phase code and the order of the files in the returned voxels (read off the "
        "pixel values) are also compared inside Coq.  Non-trivial: at least one accepted file and at least one "
        "successful query or conversion before the final one")
TRUSTED_BASE = [
    "nibabel DicomWrapper (slice_indicator, affine, get_data) and pydicom are contracts: the per-file abstraction "
    "given to the model is read from them and from the meta dictionary add_dcm works with (props/stacklib."
    "abstract_file); it is model INPUT only - the oracle clause `abstraction == generator spec` "
    "(stacklib.spec_truth / abstraction_diff) checks it against the generator's ground truth",
    "whether a voxel order flips the slice axis of an ascending stack, and the axis permutation, are read from the "
    "real reorder_voxels on the reference file's affine (stacklib.wants_flip / axis_perm) as model input; the model "
    "only needs that reversing the files negates the slice column (slices are stacked along the slice normal)",
    "the conversion OUTPUT of the model is abstract (file order, shape, flip, affine source, slice column, TR, phase "
    "direction, dtype): that array, affine, header fields and embedded JSON are functions of it is checked by the "
    "by-value comparison of the oracle, not proved",
    "Python list.sort is a stable sort (Stack.Model.ssort)",
]
ASSUMPTIONS = [
    "classic single-frame data sets; ordinates numbers or strings compared as Python compares them (stacklib._num embeds them order-preservingly); slices stacked along the normal",
    "after a TypeError inside list.sort (explicit key missing on some files) the order of the files is unspecified in "
    "Python and not modelled: such histories are outside the generator",
    "only public results are observed (get_shape / get_data / get_affine / to_nifti / to_nifti_wrapper return values "
    "and add_dcm raising or not); clear() is modelled as a new stack; a caller editing a returned object is no "
    "operation of the model",
    "since fix 9c7aa81 get_affine returns a copy and no longer edits the first file's own affine: the property's "
    "anchor `in-place edit of first file affine is idempotent` is trivially true, the model has no such component "
    "any more; the clauses `an affine returned earlier keeps its value` and `edit the returned affine, ask again` "
    "are part of the oracle (reverting 9c7aa81 is reported with a failing input)",
    "both histories must accept the same multiset of files: which files are accepted can depend on the add order "
    "(first colliding file wins, congruence is relative to the first file) - that is C11's subject",
]

DEFECTS = ['none'] * 6 + ['drop1', 'duplicate', 'nopix', 'tie_straddle', 'misfiled_dup', 'gap', 'collide', 'bad_ordinate']

# F25 (fixed in 9c7aa81): get_affine handed out the first file's internal array - an affine returned earlier was
# rewritten by later calls, and a caller editing it corrupted the stack.  Both clauses are on.
CHECK_AFFINE_ALIAS = True

VOS = L.VOXEL_ORDERS + [None]


def rand_query(rng):
    r = rng.random()
    if r < 0.2:
        return ['shape']
    if r < 0.35:
        return ['data']
    if r < 0.5:
        return ['affine']
    if r < 0.9:
        return ['nifti', rng.choice(VOS), rng.random() < 0.5]
    return ['wrapper', rng.choice(VOS)]


def gen_cases(rng, tier):
    n = 420 if tier == 'quick' else 3000
    cases = []
    for k in range(n):
        cfg = L.rand_config(rng, tier)
        defect = rng.choice(DEFECTS)
        if defect == 'collide' and cfg['mode'] in ('guess', 'none'):
            cfg = L.rand_config(rng, tier, want=rng.choice(['time', 'timevec']))
        if defect == 'bad_ordinate':
            cfg = L.rand_config(rng, tier, want=rng.choice(['time', 'timevec']), force_abs=True)
        if defect == 'tie_straddle' and (cfg['mode'] != 'guess' or cfg['S'] < 2 or cfg['T'] < 2):
            cfg = L.rand_config(rng, tier, want='guess')
            cfg['S'] = max(cfg['S'], 2)
            cfg['T'] = max(cfg['T'], 2)
        if defect == 'gap' and cfg['S'] < 3:
            cfg['S'] = rng.choice([3, 4])
        fam = rng.random()
        small = fam < 0.2
        single = 0.2 <= fam < 0.3
        if small:
            # four files, every add order (thorough) / six add orders (quick) against the history
            cfg['S'], cfg['T'] = rng.choice([(2, 2), (4, 1), (1, 4)] if cfg['mode'] != 'none' else [(4, 1)])
            cfg['V'] = 1
            if cfg['mode'] == 'vec':
                cfg['T'] = 1
                cfg['S'] = 4
        if single:
            # a single file: the conversion works on that file's own extension (deep-copied before it is edited)
            cfg['S'] = cfg['T'] = cfg['V'] = 1
            defect = 'none'
        files = L.grid_from_config(rng, cfg)
        attrs = L.vary_attrs(rng, cfg, files)
        hdr = L.vary_header_sets(rng, cfg, files) if (small or rng.random() < 0.4) and \
            cfg['tagrules'].get('RepetitionTime') is None else {}
        files, note = L.apply_defect(rng, cfg, files, defect)
        order = L.add_order(rng, files)
        ops = []
        early = rng.random() < 0.35          # queries while files are still being added
        if rng.random() < 0.08 and len(order) >= 2:
            # some files, a query, clear(), then the real history
            pre = order[:rng.randint(1, len(order))]
            ops += [['add', i] for i in pre] + [rand_query(rng), ['clear']]
        for i in order:
            ops.append(['add', i])
            if early and rng.random() < 0.25:
                ops.append(rand_query(rng))
        mfilter = rng.choice(L.META_FILTERS) if rng.random() < 0.3 else None
        if mfilter is not None:
            # a custom meta_filter: an embedding conversion must not change what the stack itself reads later
            ops.append(['nifti', rng.choice(VOS), True] if rng.random() < 0.8 else ['wrapper', rng.choice(VOS)])
        nq = rng.choice([0, 1, 1, 2, 2, 3, 4, 6]) if not single else rng.choice([2, 3, 4, 6])
        if mfilter is not None:
            nq = max(nq, 2)
        for _ in range(nq):
            q = rand_query(rng)
            if single and rng.random() < 0.7:
                q = ['nifti', rng.choice(VOS), True] if rng.random() < 0.8 else ['wrapper', rng.choice(VOS)]
            ops.append(q)
            if rng.random() < 0.2 and q[0] in ('data', 'affine', 'nifti', 'wrapper'):
                # the caller scribbles over the result it was handed; later results must not notice
                ops.append(['mutate', q[0] if q[0] in ('data', 'affine') else 'nifti'])
        final = ['nifti', rng.choice(VOS), rng.random() < 0.6] if rng.random() < 0.85 else ['wrapper', rng.choice(VOS)]
        ops.append(final)
        note['attrs'] = attrs
        note['hdr'] = hdr
        case = {'kind': '%s/%s%s' % (cfg['mode'], defect, '/single' if single else '/four' if small else ''),
                'note': note, 'dims': [cfg['S'], cfg['T'], cfg['V']],
                'orient': cfg['orient'], 'direction': cfg['direction'], 'fresh_seed': rng.randrange(1 << 30),
                'nfresh': (24 if tier != 'quick' else 6) if (small or hdr) else 2}
        if rng.random() < 0.1:
            case['meta_arg'] = True
        if mfilter is not None:
            case['meta_filter'] = mfilter
        case.update(L.case_header(cfg))
        case['files'] = files
        case['ops'] = ops
        if L.case_valid(case):
            cases.append(case)
    return cases


QUERY_OPS = ('shape', 'data', 'affine', 'nifti', 'wrapper')


def accepted_before(case, obs):
    """for every operation: the files the stack holds when it starts (accepted since the last clear())"""
    out, acc = [], []
    for op, o in zip(case['ops'], obs['ops']):
        out.append(list(acc))
        if op[0] == 'add' and o['r'] == 'ok':
            acc.append(op[1])
        elif op[0] == 'clear' and o['r'] == 'ok':
            acc = []
    return out


def run_impl(case):
    """The history on one stack (every result kept and re-read by value after every later operation), and for
    EVERY query / conversion of the history the same call on fresh stacks holding the files accepted so far, added
    in other orders."""
    import dcmstack, itertools
    r, obs = L.run_history(dcmstack, case)
    before = accepted_before(case, obs)
    rng = random.Random(case.get('fresh_seed', 0))
    last = len(case['ops']) - 1
    cmp = []
    for k, (op, o) in enumerate(zip(case['ops'], obs['ops'])):
        if op[0] not in QUERY_OPS:
            continue
        acc = before[k]
        nf = case.get('nfresh', 2) if k == last else 1
        if nf >= 24 and len(acc) <= 4:
            orders = [list(p) for p in itertools.permutations(acc)]
        else:
            orders = []
            for _ in range(nf):
                x = list(acc)
                rng.shuffle(x)
                orders.append(x)
        rec = {'op': k, 'kind': op[0], 'r': o['r'], 'orders': len(orders), 'refused': 0, 'fr': [], 'diff': []}
        for order in orders:
            fcase = dict(case)
            fcase['ops'] = [['add', i] for i in order] + [op]
            fr = L.Runner(dcmstack, fcase)
            fobs = [fr.apply(x) for x in fcase['ops']]
            rec['refused'] += len([x for x in fobs[:-1] if x['r'] != 'ok'])
            f = fobs[-1]
            if f['r'] not in rec['fr']:
                rec['fr'].append(f['r'])
            if o['r'] == 'ok' and f['r'] == 'ok':
                rec['diff'] = sorted(set(rec['diff']) | set(p for p in o['val'] if o['val'][p] != f['val'].get(p)))
        cmp.append(rec)
    obs['cmp'] = cmp
    for o in obs['ops']:
        o.pop('val', None)
    return obs


def coq_case(case, obs):
    return L.coq_case(case, obs)


CORR_REQUIRE = "From Coq Require Import Qcanon.\nFrom DV Require Import Stack.Model Stack.Corr."
CORR_CASE_TYPE = "Corr.case"
CORR_CHECK = "Corr.check"
CORR_SHOW = "Corr.show"
SHARD = 20
IMPL_TIMEOUT = 120
NAME = "main"


def judge(case, obs):
    """C12 on the implementation's public results alone -> list of (code, message):
      exc/<op>       a query / conversion of the history and the same call on a fresh stack holding the same files
                     (added in another order) do not both succeed / raise the same exception class
      differs/<op>   both succeed with different values (array, affine, header fields, embedded JSON, NIfTI bytes)
      earlier-changed/<kind>   a result handed out earlier no longer has the value it was returned with after a
                     later operation on the stack
      abstraction/<field>      (harness) the library-derived model input differs from the generator's ground truth"""
    out = []
    for rec in obs.get('cmp', []):
        if rec['refused']:
            continue          # the fresh stack did not accept the same files: not a statement of C12
        if rec['fr'] != [rec['r']]:
            out.append(('exc/' + rec['kind'], 'operation %d (%s): history -> %s, fresh stacks -> %s'
                        % (rec['op'], rec['kind'], rec['r'], ','.join(rec['fr']))))
        elif rec['diff']:
            out.append(('differs/' + rec['kind'], 'operation %d (%s) differs from a fresh stack with the same files in: %s'
                        % (rec['op'], rec['kind'], ','.join(rec['diff']))))
    for k, kind, after, parts in obs.get('changed', []):
        if kind == 'affine' and not CHECK_AFFINE_ALIAS:
            continue
        out.append(('earlier-changed/' + kind, 'the %s returned by operation %d changed (%s) during operation %d'
                    % (kind, k, ','.join(parts), after)))
    truth = [L.spec_truth(f, case) for f in case['files']]
    for f, a in zip(truth, obs['files']):
        d = L.abstraction_diff(a, f)
        if d:
            out.append(('abstraction/' + d, 'file %d: the library-derived %s differs from the generator spec' % (f['id'], d)))
            break
    return out


def oracle(case, obs):
    if not isinstance(obs, dict) or 'cmp' not in obs:
        return None
    msgs = judge(case, obs)
    if not msgs:
        return None
    return '[%s] %s' % msgs[0]


def signature(case, obs, msg):
    return 'c12/' + (msg[1:msg.index(']')] if msg.startswith('[') and ']' in msg else 'other')


def nontrivial(case, obs):
    """at least one accepted file and at least one successful query or conversion before the final one"""
    if not isinstance(obs, dict) or 'ops' not in obs:
        return False
    nq = len([1 for op, o in list(zip(case['ops'], obs['ops']))[:-1] if op[0] in QUERY_OPS and o['r'] == 'ok'])
    return len(obs.get('accepted', [])) >= 1 and nq >= 1


def shrink(case):
    return L.shrink_files(case)


# end-to-end composition (integrator): conv_full (coq/Conv/Full.v) composes the sorter, the geometry half and the embed step as
# DicomStack.to_nifti does; Props/C12full.v lifts history independence to the REAL outputs (array, affine, header fields, embedded
# extension), and FullCorr carries random histories INTO the Coq case (model after the same calls vs the observation)
from props import convfull as _convfull
COQ_PROPS = (list(COQ_PROPS) if isinstance(COQ_PROPS, (list, tuple)) else [COQ_PROPS]) + ['Props/C12full.v']
THEOREMS = list(THEOREMS) + ['C12_full_dependency', 'C12_full_history', 'C12_full_fresh', 'C12_full_resorted', 'C12_full_conv_state', 'C12_full_hist_history']
COQ_EXTRA_TARGETS = list(globals().get('COQ_EXTRA_TARGETS') or []) + ['Conv/FullCorr.vo']
TABLES = sorted(set(list(globals().get('TABLES') or []) + ['t_classes', 't_ext_tol', 't_stack', 't_filter', 't_time', 't_conv']))
PARTS = list(globals().get('PARTS') or [__import__('sys').modules[__name__]]) + [_convfull.FullPart]
