"""C14 — the metadata filter removes exactly the keys it is told to, nothing else."""
import os, re
from vlib.coqlit import *
from props import c14lib

ID = "C14"
COQ_PROPS = ["Props/C14.v", "Props/C14conv.v"]
THEOREMS = ["C14_filter_sem", "C14_filter_sem_noincl", "C14_compose", "C14_default", "C14_default_lists_plain",
            "C14_position_orientation_kept", "C14_named_categories_excluded", "C14_default_no_weaker_than_baseline",
            "C14_filter_meta_exact", "C14_keys", "C14_default_privacy"]
ALLOWED_AXIOMS = []
TABLES = ["t_filter", "t_classes", "t_ext_tol", "t_stack"]
TRUSTED_BASE = ["Section variable `matches` standing for Python re.search; the model assumes that '|'.join('(?:r)') matches iff a part matches "
                "(validated by the correspondence on generated regex lists: per-pattern bits come from Python's re, the verdict from the real filter)"]
ASSUMPTIONS = ["patterns are valid Python regular expressions without global inline flags or back-references across parts",
               "an empty exclude list makes the joined regex '' which matches every key: modelled faithfully, outside the property's statement"]

STD_KEYS = None


def _std_keys():
    global STD_KEYS
    if STD_KEYS is None:
        from pydicom.datadict import DicomDictionary
        STD_KEYS = sorted(set(v[4] for v in DicomDictionary.values() if v[4]))
    return STD_KEYS


LITERALS = ['Patient', 'Date', 'UID', 'Time', 'Name', 'Image', 'Position', 'Echo', 'Age', 'Comment', 'Series', 'Study', 'a', 'e', 'ID', 'Csa', 'x9']
REGEXES = ['^Patient', 'Date$', 'UID', r'Time\b', '[Nn]ame', 'Image(Position|Orientation)', r'^\w+ID$', 'Echo.*Time', '[Aa]ge', 'Comm?ent', r'\d+', '^$', '.', r'Csa\.', 'a|b', r'(?:Study|Series)Description', '[A-Z]{4,}', r'\.', 'é']


class Filt:
    NAME = "filter"
    CORR_REQUIRE = "From DV Require Import Filter.Model Filter.Proofs Filter.Corr."
    CORR_CASE_TYPE = "Corr.case"
    CORR_CHECK = "Corr.check"
    CORR_SHOW = "Corr.show"
    SHARD = 300
    RULE = ("keys: DICOM standard keywords, translator-prefixed (CsaImage.*, CsaSeries.MrPhoenixProtocol.*), private-style, random unicode; pattern lists: "
            "the defaults, defaults + extra -e/-i, literal lists, regex lists with anchors/classes/alternations; non-trivial = at least one exclude pattern matches")

    @staticmethod
    def _key(rng):
        r = rng.random()
        if r < 0.5:
            return rng.choice(_std_keys())
        if r < 0.65:
            return rng.choice(['CsaImage.', 'CsaSeries.', 'CsaSeries.MrPhoenixProtocol.']) + rng.choice(_std_keys() + ['sPat.lPatientAge', 'tProtocolName', 'ImaAbsTablePosition'])
        if r < 0.75:
            return rng.choice(['[CSA Image Header Info]', 'Private_0029_1010', 'PrivateTagData', 'Unknown', '0X29_0X1010'])
        if r < 0.85:
            return ''.join(rng.choice('abcdefPatientDateUIDxyz_.0123 éß中') for _ in range(rng.randrange(0, 14)))
        return rng.choice(['ImagePositionPatient', 'ImageOrientationPatient', 'CsaImage.ImagePositionPatient', 'PatientImagePositionPatient', 'PatientID',
                           'StudyDate', 'EchoTime', 'SOPInstanceUID', 'EthnicGroup', 'Occupation', 'MilitaryRank', 'CountryOfResidence', 'InsurancePlanIdentification', 'PatientReligiousPreference', 'ResponsiblePersonTelephone', 'OperatorsName', 'StationName', 'DeviceSerialNumber', 'MedicalRecordLocator', 'ImageOrientationPatientX', 'Age', 'Image', ''])

    @staticmethod
    def gen_cases(rng, tier):
        n = 900 if tier == 'quick' else 20000
        out = []
        for i in range(n):
            key = Filt._key(rng)
            m = rng.random()
            if m < 0.3:
                out.append({'kind': 'default', 'mode': 'default', 'key': key})
            elif m < 0.5:
                xe = rng.sample(LITERALS, rng.randrange(0, 3))
                xi = rng.sample(LITERALS, rng.randrange(0, 3))
                out.append({'kind': 'default+extra', 'mode': 'cli', 'key': key, 'xe': xe, 'xi': xi})
            elif m < 0.75:
                ex = rng.sample(LITERALS, rng.randrange(1, 5))
                inc = rng.choice([None, [], rng.sample(LITERALS, rng.randrange(1, 3))])
                out.append({'kind': 'literal', 'mode': 'literal', 'key': key, 'excl': ex, 'incl': inc})
            else:
                ex = rng.sample(REGEXES, rng.randrange(0 if rng.random() < 0.05 else 1, 5))
                inc = rng.choice([None, [], rng.sample(REGEXES, rng.randrange(1, 4))])
                out.append({'kind': 'regex' if ex else 'regex-empty-exclude', 'mode': 'regex', 'key': key, 'excl': ex, 'incl': inc})
        return out

    @staticmethod
    def run_impl(case):
        import dcmstack
        key = case['key']
        if case['mode'] == 'default':
            return {'filtered': bool(dcmstack.default_meta_filter(key, None)),
                    'def_excl': list(dcmstack.default_key_excl_res), 'def_incl': list(dcmstack.default_key_incl_res)}
        if case['mode'] == 'cli':
            excl = list(dcmstack.default_key_excl_res) + case['xe']
            incl = list(dcmstack.default_key_incl_res) + case['xi']
        else:
            excl, incl = case['excl'], case['incl']
        f = dcmstack.make_key_regex_filter(excl, incl)
        return {'filtered': bool(f(key, None)), 'excl': excl, 'incl': incl,
                'ebits': [re.search(p, key) is not None for p in excl],
                'ibits': None if incl is None else [re.search(p, key) is not None for p in incl]}

    @staticmethod
    def coq_case(case, obs):
        if case['mode'] == 'default':
            return '{| f_excl := []; f_incl := None; f_key := %s; f_literal := true; f_default := true; f_obs := %s |}' % (cstr(case['key']), cbool(obs['filtered']))
        ex = clist(cpair(cstr(p), cbool(b)) for p, b in zip(obs['excl'], obs['ebits']))
        inc = 'None' if obs['incl'] is None else '(Some %s)' % clist(cpair(cstr(p), cbool(b)) for p, b in zip(obs['incl'], obs['ibits']))
        lit = case['mode'] in ('literal', 'cli')
        return '{| f_excl := %s; f_incl := %s; f_key := %s; f_literal := %s; f_default := false; f_obs := %s |}' % (ex, inc, cstr(case['key']), cbool(lit), cbool(obs['filtered']))

    @staticmethod
    def oracle(case, obs):
        if 'filtered' not in obs:
            return 'filter raised: %r' % (obs,)
        key = case['key']
        if case['mode'] == 'default':
            # the lists the implementation really uses (read at run time), plus what the property names explicitly:
            # patient / physician / date / UID / institution keys are excluded, image position and orientation always kept
            excl, incl = obs['def_excl'], obs['def_incl']
            want = any(re.search(e, key) for e in excl) and not any(re.search(i, key) for i in incl)
            must = c14lib.default_must_filter(key)       # generator-side truth, independent of the library's lists
            if must is False and obs['filtered']:
                return 'key %r (image position/orientation) is filtered out by the default filter' % key
            if must is True and not obs['filtered']:
                return 'key %r contains one of the shipped default exclude literals (and is not image position/orientation) but survives the default filter' % key
        else:
            if not obs['excl']:
                return None
            want = any(obs['ebits']) and not (bool(obs['incl']) and any(obs['ibits']))
        if obs['filtered'] != want:
            return 'key %r: filter says %s, exclude-unless-included says %s (mode %s)' % (key, obs['filtered'], want, case['mode'])
        return None

    @staticmethod
    def signature(case, obs, msg):
        what = 'raised' if msg.startswith('filter raised') else 'geometry-filtered' if 'image position/orientation' in msg and 'is filtered out' in msg \
            else 'named-survives' if 'survives the default filter' in msg else 'not-exclude-unless-included'
        return 'filter-%s/%s' % (case['mode'], what)

    @staticmethod
    def nontrivial(case, obs):
        if case['mode'] == 'default':
            return bool(obs.get('filtered')) or 'Patient' in case['key']
        return any(obs.get('ebits') or [])

    @staticmethod
    def shrink(case):
        k = case['key']
        for i in range(len(k)):
            c = dict(case); c['key'] = k[:i] + k[i + 1:]; yield c
        for f in ('excl', 'incl', 'xe', 'xi'):
            if case.get(f):
                for i in range(len(case[f])):
                    c = dict(case); c[f] = case[f][:i] + case[f][i + 1:]
                    if f == 'excl' and not c[f]:
                        continue
                    yield c


from props import convmeta
PARTS = [Filt, convmeta.KeySetPart]
TRUSTED_BASE = TRUSTED_BASE + ['conversion level: hand models coq/Stack/Model.v, coq/Ext/Model.v, coq/Conv/Meta.v tied to DicomStack.to_nifti(embed_meta=True) by the keyset correspondence part']
ASSUMPTIONS = ASSUMPTIONS + ['conversion level: slice normals of the per-file extensions pairwise np.allclose (open finding N9 of C01), key-only filters, extracted dictionaries are inputs',
                             'keys that are None in every file may be present or absent; the key-set equation is stated modulo them']


# source tie (integrator): make_key_regex_filter and its inner function are TRANSLATED from the Python AST on every run
# (tools/tables/t_src_filter.py -> Generated/T_src_filter.v) and Filter.Model.key_regex_filter is proved equal to the translation
COQ_PROPS = (list(COQ_PROPS) if isinstance(COQ_PROPS, (list, tuple)) else [COQ_PROPS]) + ['Props/SRCfilter.v']
THEOREMS = list(THEOREMS) + ['SRC_key_regex_filter', 'SRC_make_key_regex_filter']
TABLES = sorted(set(list(globals().get('TABLES') or []) + ['t_src_filter'])) if globals().get('TABLES') else None
TRUSTED_BASE = list(TRUSTED_BASE) + ['tools/tables/py2coq.py + t_src_filter.py: translator of make_key_regex_filter into Gallina (re.compile / search are parameters)']

# CLI composition (integrator): "extra exclude/include patterns compose as exclude-unless-included" is reachable only through
# the dcmstack command line (-e / -i on top of the defaults); the C19 `state` part runs real invocation sequences with
# -e / -i / --embed-meta / --dump-meta and compares every written extension with the API result built from the PRISTINE
# default lists plus the options, and the recorded filter arguments with Cli.Model (cli_filter).  Re-used here unchanged.
from props import c19 as _c19
class CliCompose(_c19.State):
    NAME = "state"
PARTS = PARTS + [CliCompose]
COQ_PROPS = COQ_PROPS + ['Props/C19.v']
THEOREMS = THEOREMS + ['C19_filter', 'C19_args']
TABLES = sorted(set(TABLES + _c19.TABLES)) if TABLES else None
