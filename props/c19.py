"""C19 — the command-line tools do what the API does and keep no hidden state.

Three parts, all driving the REAL tools (dcmstack_cli.main / nitool_cli.main) on generated and real DICOM /
NIfTI files under $VERIF_WORK:
  names  : lists of natural names -> the file names dcmstack produces (the naming loop of main);
  state  : sequences of 2-4 dcmstack invocations with different options in ONE process (every case runs in its own
           interpreter); the API calls the tool makes are recorded, the module-level state is read before and after
           every call, every written file is compared with the equivalent API calls, with generator ground truth
           about which keys must be present, and with the same invocation run first in a fresh interpreter;
  nitool : dump/embed, split, merge (--sort), lookup, inject and histories of them, on compressed and uncompressed
           files of 3 to 5 dimensions (every case in its own interpreter: a tool killed by a signal is an observation).
The Coq side (Cli/Corr.v) runs the model on the same options and recorded environment."""
import os, sys, io, json, re, shutil, hashlib, contextlib, warnings, subprocess, itertools, gzip, struct, signal
from fractions import Fraction
from vlib.coqlit import *

ID = "C19"
COQ_PROPS = "Props/C19.v"
THEOREMS = ["C19_no_state", "C19_no_state_nitool", "C19_seq", "C19_args", "C19_filter", "C19_default_regexes",
            "C19_names", "C19_name_choice", "C19_names_main", "C19_paths_main", "C19_names_global", "C19_paths_global", "C19_one_per_group",
            "C19_inject", "C19_inject_effect", "C19_inject_unique",
            "C19_split", "C19_merge", "C19_merge_sorted", "C19_dump_embed", "C19_lookup", "C19_inject_file"]
ALLOWED_AXIOMS = []
TABLES = ["t_cli", "t_filter", "t_group", "t_extract"]
TRUSTED_BASE = [
    "argparse is not modelled: the model starts from the parsed namespace (`args` record); the harness builds the argv AND the record from the same option dict",
    "glob, open/readlines, os.path (join/split modelled for POSIX), the filesystem, nibabel load/save, pydicom: the environment answers are recorded from the real run and handed to the model as `inputs`; the ORDER of a directory listing is chosen by the harness (sorted / reversed / shuffled) for the tool, the API equivalent and the fresh interpreter alike",
    "the library behind the API calls (parse_and_group, stack_group, DicomStack.to_nifti, NiftiWrapper.split/from_sequence/get_meta, DcmMetaExtension.to_json/from_json) is abstract in the C19 theorems (Section variables); what the tools write is compared with those API calls differentially, plus generator ground truth about marker keys",
    "Section variable `matches` standing for Python re.search (as in C14)",
    "Common/PyNum.v py_int / py_float as models of Python int() / float() for `nitool inject` value conversion",
    "recording wrappers installed by the harness around every module-level binding of glob.glob, parse_and_group, stack_group, make_key_regex_filter, MetaExtractor (found by object identity in dcmstack_cli / dcmstack.dcmstack / extract / glob), DicomStack.to_nifti, Nifti1Image.to_filename (they delegate to the originals)",
    "extensions are read back from the written files by the harness' own NIfTI-1 extension reader (raw bytes -> JSON), not through the library",
]
ASSUMPTIONS = [
    "POSIX paths; natural names are non-empty text without backslash / control characters (pydicom strips trailing blanks of LO values: the harness feeds the model the names the tool really saw)",
    "SeriesNumber is an int and ProtocolName / SeriesDescription are strings when present (default name format)",
    "the suffix format is zero padded ('-%03d'): required by the injectivity proof, re-checked from the translated literal",
    "nitool inject: multiplicity-1 classifications store a scalar (convert_values unwraps single values) -- modelled as is; values are ASCII ints / decimals / words; --sort keys are ints",
    "nitool embed without --force-overwrite on a file that has an extension asks on stdin: modelled by the `confirm` input, not exercised",
    "C19_paths_global: the output extension contains no '/', and without --dest-dir the source directories are pairwise different directories (generated: d0, d1)",
    "only what the property text states is judged: exit statuses are compared as zero / non-zero (an exception counts as a refusal), printed lists as lists of patterns (headings ignored), JSON as parsed values; module-level state by its configuration and by the behaviour of the plain API afterwards, not by object identity",
    "real input: the 2D_16Echo_qT2 files of the repository's test data (looked up under $DCMSTACK_REPO/test/data, else under the default repository location as DATA only)",
]

# ------------------------------------------------------------------------------------------------ helpers

_CNT = itertools.count()
_PRISTINE = None
_PRISTINE_OBJ = {}
_WORKER_LOG = []          # kinds of the cases this interpreter ran before the current one (recorded in every observation)
SRC_SUFFIXES = ('.dcm', '.ima', '.txt')
GROUP_KEYS = ['SeriesInstanceUID', 'SeriesNumber', 'ProtocolName', 'ImageOrientationPatient']     # documented default grouping
ERRMAP = {'InvalidStackError': 'EInvalidStack', 'IncongruentImageError': 'EIncongruent', 'ImageCollisionError': 'ECollision',
          'NonImageDataSetError': 'ENonImage', 'TypeError': 'EType', 'KeyError': 'EKey', 'ValueError': 'EValue',
          'IndexError': 'EIndex', 'AttributeError': 'EAttr', 'MissingExtensionError': 'EMissingExt',
          'InvalidExtensionError': 'EInvalidExt'}
HERE = os.path.dirname(os.path.dirname(os.path.abspath(__file__)))


def _err(e):
    for cls in type(e).__mro__:
        if cls.__name__ in ERRMAP:
            return ERRMAP[cls.__name__]
    return 'ECrash'


def _scratch():
    base = os.environ.get('VERIF_WORK')
    if not base:       # manual use outside the driver: never the driver's live work directory
        base = os.path.join(HERE, 'work', 'c19_manual_%d' % os.getpid())
    d = os.path.join(base, 'c19_%d_%d' % (os.getpid(), next(_CNT)))
    shutil.rmtree(d, ignore_errors=True)
    os.makedirs(d)
    return d


def _impl():
    """Import the implementation lazily; remember the module-level state as it was at import."""
    global _PRISTINE
    import dcmstack
    import dcmstack.dcmstack as core
    from dcmstack import dcmstack_cli, nitool_cli, extract, dcmmeta
    if _PRISTINE is None:
        _PRISTINE = (list(core.default_key_excl_res), list(core.default_key_incl_res))
        dx = extract.default_extractor
        _PRISTINE_OBJ.update(dx=dx, flt=core.default_meta_filter, dx_rules=dx.ignore_rules, dx_trans=dx.translators,
                             dx_conv=dx.conversions, dx_warn=dx.warn_on_trans_except, group_keys=core.default_group_keys,
                             close_keys=core.default_close_keys, rules=extract.default_ignore_rules, trans=extract.default_translators,
                             cli_group_keys=getattr(dcmstack_cli, 'default_group_keys', None),
                             sort_guesses=list(core.DicomStack.sort_guesses))
        _PRISTINE_OBJ['hidden'] = _hidden_state()
    return core, dcmstack_cli, nitool_cli, extract, dcmmeta


def _hidden_state():
    """The CONFIGURATION of everything module-level the tools could leave behind (no object identities: whether a
    replaced object matters is judged by the behaviour of the plain API afterwards, see _api_probe)."""
    import dcmstack.dcmstack as core
    from dcmstack import extract
    dx = extract.default_extractor

    def rules(r):
        return [getattr(f, '__name__', repr(f)) for f in (r or [])]

    def trans(t):
        return [[x.name, int(x.tag.group), int(x.tag.elem)] for x in (t or [])]
    return {'excl': list(core.default_key_excl_res), 'incl': list(core.default_key_incl_res),
            'dx': {'kind': 'meta', 'ignore': rules(getattr(dx, 'ignore_rules', None)), 'trans': trans(getattr(dx, 'translators', None))},
            'dx_conversions': sorted(getattr(dx, 'conversions', {}) or {}),
            'group_keys': list(core.default_group_keys), 'close_keys': list(core.default_close_keys),
            'rules': rules(extract.default_ignore_rules), 'translators': trans(extract.default_translators),
            'sort_guesses': list(core.DicomStack.sort_guesses)}


def _case_start(kind=None):
    """Every case starts from the module state at import, restoring EVERYTHING _hidden_state looks at (state and nitool
    cases run in their own interpreter anyway); nothing is reset BETWEEN the invocations of a case.  Returns the kinds of
    the cases this interpreter ran before (so that a leak can be attributed)."""
    core, cli, nit, extract, dcmmeta = _impl()
    P = _PRISTINE_OBJ
    core.default_key_excl_res[:] = _PRISTINE[0]
    core.default_key_incl_res[:] = _PRISTINE[1]
    extract.default_extractor = P['dx']
    P['dx'].ignore_rules, P['dx'].translators, P['dx'].conversions = P['dx_rules'], P['dx_trans'], P['dx_conv']
    P['dx'].warn_on_trans_except = P['dx_warn']
    core.default_meta_filter = P['flt']
    core.default_group_keys, core.default_close_keys = P['group_keys'], P['close_keys']
    extract.default_ignore_rules, extract.default_translators = P['rules'], P['trans']
    if P['cli_group_keys'] is not None:
        cli.default_group_keys = P['cli_group_keys']
    core.DicomStack.sort_guesses[:] = P['sort_guesses']
    hist = list(_WORKER_LOG)
    _WORKER_LOG.append(kind)
    return hist


@contextlib.contextmanager
def _quiet():
    out, err = io.StringIO(), io.StringIO()
    with contextlib.redirect_stdout(out), contextlib.redirect_stderr(err), warnings.catch_warnings():
        warnings.simplefilter('ignore')
        yield out, err


def _data_dir():
    for root in (os.environ.get('DCMSTACK_REPO', '/repo'), '/repo'):
        d = os.path.join(root, 'test', 'data', 'dcmstack', '2D_16Echo_qT2')
        if os.path.isdir(d):
            return d
    return None


# ------------------------------------------------------------------------------------------------ reading files back

def _raw_ext(path):
    """The DcmMeta extension of a NIfTI-1 file as parsed JSON, read from the raw bytes (header 348 bytes, extension flag,
    then (esize, ecode, payload) records up to vox_offset) -- independent of dcmstack and of nibabel's extension classes.
    None when there is none."""
    raw = open(path, 'rb').read()
    if raw[:2] == b'\x1f\x8b':
        raw = gzip.decompress(raw)
    if len(raw) < 352:
        return None
    end = '<' if struct.unpack('<i', raw[:4])[0] == 348 else '>'
    vox_offset = int(struct.unpack(end + 'f', raw[108:112])[0])
    if raw[348] == 0:
        return None
    pos = 352
    while pos + 8 <= min(vox_offset, len(raw)):
        esize, ecode = struct.unpack(end + '2i', raw[pos:pos + 8])
        if esize < 8:
            break
        payload = raw[pos + 8:pos + esize].rstrip(b'\x00')
        try:
            j = json.loads(payload.decode('utf-8'))
            if isinstance(j, dict) and 'dcmmeta_version' in j:
                return j
        except (ValueError, UnicodeDecodeError):
            pass
        pos += esize
    return None


def _mem_ext(img):
    """The DcmMeta extension of an in-memory image (an API result) as parsed JSON."""
    for e in img.header.extensions:
        c = e.get_content()
        try:
            j = json.loads(c.decode('utf-8') if isinstance(c, bytes) else c) if isinstance(c, (bytes, str)) else json.loads(json.dumps(c))
        except (ValueError, TypeError):
            continue
        if isinstance(j, dict) and 'dcmmeta_version' in j:
            return j
    return None


def _img_summary(img, ext):
    import numpy as np
    data = np.asanyarray(img.dataobj)
    hdr = img.header
    try:
        st = [float(x).hex() for x in hdr.get_slice_times()]
    except Exception:
        st = None
    return {'shape': [int(x) for x in data.shape], 'dtype': str(data.dtype),
            'data': hashlib.sha1(np.ascontiguousarray(data).tobytes()).hexdigest(),
            'affine': [float(x).hex() for x in np.asarray(img.affine, dtype=np.float32).ravel()],     # what a NIfTI-1 header can hold
            'pixdim': [float(x).hex() for x in hdr['pixdim']],
            'dim_info': [None if x is None else int(x) for x in hdr.get_dim_info()],
            'xyzt': list(hdr.get_xyzt_units()), 'slice_times': st, 'ext': ext}


def _file_summary(path):
    import nibabel as nb
    if path.endswith('.json'):
        txt = open(path).read()
        try:
            return {'json': json.loads(txt)}
        except ValueError:
            return {'json': {'__not_json__': txt[:200]}}
    try:
        return _img_summary(nb.load(path, mmap=False), _raw_ext(path))
    except Exception as e:          # a truncated / unreadable output is an observation, not a harness crash
        return {'unreadable': type(e).__name__, 'size': os.path.getsize(path)}


def _mem_summary(img):
    return _img_summary(img, _mem_ext(img))


def _ext_keys(j):
    """all meta keys of a parsed extension, over every classification"""
    out = set()
    for base in ('global', 'time', 'vector'):
        for sub, d in (j.get(base) or {}).items():
            if isinstance(d, dict):
                out.update(d.keys())
    return out


def _listing(dirs):
    out = {}
    for d in dirs:
        if os.path.isdir(d):
            for fn in sorted(os.listdir(d)):
                p = os.path.join(d, fn)
                if os.path.isfile(p) and not fn.lower().endswith(SRC_SUFFIXES):
                    out[p] = None
    return out


def _summarise(dirs):
    return {p: _file_summary(p) for p in sorted(_listing(dirs))}


def _clean(dirs):
    for p in _listing(dirs):
        os.remove(p)


# ------------------------------------------------------------------------------------------------ generated / real input

def _build_csa2(tags):
    """hand-built Siemens CSA2 ('SV10') header (same layout as props/c16.py build_csa2): tags = [{name, vr, items: [str]}]"""
    out = b"SV10" + b"\x04\x03\x02\x01" + struct.pack("<2I", len(tags), 77)
    for t in tags:
        items = [x.encode("latin-1") + b"\x00" for x in t["items"]]
        out += struct.pack("<64si4s3i", t["name"].encode("latin-1"), len(items), t["vr"].encode("ascii"), 0, len(items), 77 if items else 205)
        for it in items:
            out += struct.pack("<4i", len(it), len(it), 77, len(it)) + it + b"\x00" * ((4 - len(it) % 4) % 4)
    return out


def _add_private(ds, k):
    """Untranslated private elements (a creator pydicom knows: key 'B_value'; one it does not: key 'PrivateTagData',
    excluded by the default regexes), ASCII overlay / palette payloads only the ignore rules keep out, and the two Siemens
    CSA headers the default translators read -- so that --extract-private and --disable-translator change the keys."""
    ds.add_new((0x0019, 0x0010), 'LO', 'SIEMENS MR HEADER')
    ds.add_new((0x0019, 0x100c), 'IS', str(1000 + 50 * (k % 3)))
    ds.add_new((0x0021, 0x0010), 'LO', 'ACME')
    ds.add_new((0x0021, 0x1001), 'DS', '2.5')
    ds.add_new((0x6000, 0x3000), 'OW', b'OVLY')
    ds.add_new((0x0028, 0x1201), 'OW', b'LUTR')
    ds.add_new((0x0029, 0x0010), 'LO', 'SIEMENS CSA HEADER')
    ds.add_new((0x0029, 0x1010), 'OB', _build_csa2([{'name': 'B_value', 'vr': 'IS', 'items': [str(1000 + 50 * (k % 3))]},
                                                      {'name': 'ImaCoilString', 'vr': 'LO', 'items': ['HEA;HEP']}]))
    ds.add_new((0x0029, 0x1020), 'OB', _build_csa2([{'name': 'UsedPatientWeight', 'vr': 'IS', 'items': ['70']},
                                                      {'name': 'MrProtocolVersion', 'vr': 'IS', 'items': ['21']}]))


def _grid(S, T, V, rows=2, cols=2):
    import random
    from props import stacklib
    rules = {}
    if T > 1:
        rules.update({'EchoTime': 't', 'AcquisitionNumber': 't'})
    if V > 1:
        rules['FlipAngle'] = 'v'
    return stacklib.make_grid(random.Random(0), S, T, V, rows=rows, cols=cols, tagrules=rules or None)


def _write_series(dirpath, start, series, suffix='.dcm'):
    """series: {'uid', 'num', 'proto', 'descr', 'S', 'T', 'V', 'tags', 'priv',
                'bad': last file has another pixel spacing (IncongruentImageError), 'gap': a middle slice is missing,
                'nopre': True = every file lacks the preamble and the DICM marker, 'mixed' = every other file}"""
    from props import stacklib
    S, T, V = series.get('S', 1), series.get('T', 1), series.get('V', 1)
    files = _grid(S, T, V)
    if series.get('gap') and S >= 3:
        files = [f for f in files if f['cell'][0] != 1]
    if series.get('bad') and len(files) >= 2:
        files[-1] = dict(files[-1], ps=[2.0, 2.0])
    n = start
    for f in files:
        f = dict(f)
        f['id'] = n
        tags = dict(f.get('tags') or {})
        tags['SeriesInstanceUID'] = '1.2.3.%04d' % series['uid']
        tags['SpecificCharacterSet'] = 'ISO_IR 192'
        tags['PatientName'] = 'Doe^John'
        tags['StudyDate'] = '20200102'
        tags['RepetitionTime'] = 100.0
        if T == 1:
            tags['EchoTime'] = 3.0
            tags['AcquisitionNumber'] = 4
        if V == 1:
            tags['FlipAngle'] = 30.0
        for k, a in (('num', 'SeriesNumber'), ('proto', 'ProtocolName'), ('descr', 'SeriesDescription')):
            if series.get(k) is not None:
                tags[a] = series[k]
        tags.update(series.get('tags') or {})
        f['tags'] = tags
        ds = stacklib.build_ds(f)
        for k, a in (('num', 'SeriesNumber'), ('proto', 'ProtocolName')):
            if series.get(k) is None and a in ds:
                delattr(ds, a)
        if series.get('priv', True):
            _add_private(ds, f['cell'][1])
        nopre = series.get('nopre')
        if nopre is True or (nopre == 'mixed' and n % 2 == 1):
            # no 128-byte preamble, no 'DICM' marker: pydicom refuses the file unless force=True (--force-read)
            import pydicom
            pydicom.dcmwrite(os.path.join(dirpath, '%04d%s' % (n, suffix)), ds, enforce_file_format=False)
        else:
            ds.save_as(os.path.join(dirpath, '%04d%s' % (n, suffix)), enforce_file_format=True)
        n += 1
    return n


def _copy_real(dirpath, complete=True):
    """the real 2 slices x 3 echoes of the repository's test data (complete=False adds the stray third position of TE 20:
    the slice spacing is then inconsistent and the conversion must be refused)"""
    src = _data_dir()
    if src is None:
        return 0
    n = 0
    for fn in sorted(os.listdir(src)):
        if fn.endswith('.dcm') and (not complete or 'SlcPos_-2.2' not in fn):
            shutil.copy(os.path.join(src, fn), os.path.join(dirpath, fn))
            n += 1
    return n


def _mjson(v):
    """meta value -> JSON for the model: int / str, anything else is outside the modelled domain."""
    if v is None:
        return {'t': 'none'}
    if isinstance(v, bool):
        return {'t': 'other'}
    if isinstance(v, int):
        return {'t': 'int', 'v': int(v)}
    if isinstance(v, str):
        return {'t': 'str', 'v': str(v)}
    return {'t': 'other', 'r': repr(v)}


# ------------------------------------------------------------------------------------------------ options

OPT_DEFAULT = {'src_dirs': [], 'force_read': False, 'file_ext': None, 'dest_dir': None, 'output_name': None, 'output_ext': None,
               'dump_meta': False, 'embed_meta': False, 'group_by': None, 'voxel_order': None, 'time_var': None,
               'vector_var': None, 'time_order': None, 'vector_order': None, 'list_translators': False,
               'disable_translator': None, 'extract_private': False, 'include_regex': [], 'exclude_regex': [],
               'default_regexes': False, 'verbose': False, 'strict': False, 'version': False}
DFLT = {'file_ext': '.dcm', 'output_ext': '.nii.gz', 'voxel_order': 'LAS'}     # cross-checked against T_cli by the model run


def _argv(o):
    a = ['dcmstack']
    for flag, k in (('--force-read', 'force_read'), ('--dump-meta', 'dump_meta'), ('--embed-meta', 'embed_meta'),
                    ('--list-translators', 'list_translators'), ('--extract-private', 'extract_private'),
                    ('--default-regexes', 'default_regexes'), ('-v', 'verbose'), ('--strict', 'strict'), ('--version', 'version')):
        if o.get(k):
            a.append(flag)
    for flag, k in (('--file-ext', 'file_ext'), ('--dest-dir', 'dest_dir'), ('--output-name', 'output_name'),
                    ('--output-ext', 'output_ext'), ('--group-by', 'group_by'), ('--voxel-order', 'voxel_order'),
                    ('--time-var', 'time_var'), ('--vector-var', 'vector_var'), ('--time-order', 'time_order'),
                    ('--vector-order', 'vector_order'), ('--disable-translator', 'disable_translator')):
        if o.get(k) is not None:
            a += [flag, o[k]]
    for r in o.get('include_regex') or []:
        a += ['-i', r]
    for r in o.get('exclude_regex') or []:
        a += ['-e', r]
    return a + list(o.get('src_dirs') or [])


def _coq_args(o):
    def so(k):
        return copt(o.get(k), cstr)
    return ('{| a_src_dirs := %s; a_force_read := %s; a_file_ext := %s; a_dest_dir := %s; a_output_name := %s; a_output_ext := %s; '
            'a_dump_meta := %s; a_embed_meta := %s; a_group_by := %s; a_voxel_order := %s; a_time_var := %s; a_vector_var := %s; '
            'a_time_order := %s; a_vector_order := %s; a_list_translators := %s; a_disable_translator := %s; a_extract_private := %s; '
            'a_include_regex := %s; a_exclude_regex := %s; a_default_regexes := %s; a_verbose := %s; a_strict := %s; a_version := %s |}') % (
        clist(cstr(s) for s in o.get('src_dirs') or []), cbool(bool(o.get('force_read'))),
        'dflt_file_ext' if o.get('file_ext') is None else cstr(o['file_ext']), so('dest_dir'), so('output_name'),
        'dflt_output_ext' if o.get('output_ext') is None else cstr(o['output_ext']),
        cbool(bool(o.get('dump_meta'))), cbool(bool(o.get('embed_meta'))), so('group_by'),
        'dflt_voxel_order' if o.get('voxel_order') is None else cstr(o['voxel_order']), so('time_var'), so('vector_var'),
        so('time_order'), so('vector_order'), cbool(bool(o.get('list_translators'))), so('disable_translator'),
        cbool(bool(o.get('extract_private'))), clist(cstr(s) for s in o.get('include_regex') or []),
        clist(cstr(s) for s in o.get('exclude_regex') or []), cbool(bool(o.get('default_regexes'))),
        cbool(bool(o.get('verbose'))), cbool(bool(o.get('strict'))), cbool(bool(o.get('version'))))


def _disabled_tags(s):
    """ground truth for --disable-translator: 'all' | list of (group, elem) | None = malformed (usage error)"""
    if not s:
        return []
    if s.lower() == 'all':
        return 'all'
    out = []
    for tok in s.split(','):
        ge = tok.split('_')
        if len(ge) != 2:
            return None
        try:
            g, e = int(ge[0].strip(), 16), int(ge[1].strip(), 16)
        except ValueError:
            return None
        if not (0 <= g <= 0xffff and 0 <= e <= 0xffff):
            return None
        out.append((g, e))
    return out


# ------------------------------------------------------------------------------------------------ environment control

def _all_bindings(orig, modules):
    """every module-level name in `modules` bound to the object `orig`"""
    out = []
    for m in modules:
        for name, val in list(vars(m).items()):
            if val is orig:
                out.append((m, name))
    return out


def _ordered(mode, paths):
    """the order in which a directory listing reaches the tools (chosen by the harness, equal for the tool, the API
    equivalent and the fresh interpreter)"""
    p = sorted(paths)
    if mode == 'reversed':
        return p[::-1]
    if mode and mode.startswith('shuffle'):
        import random
        random.Random(int(mode[7:] or 0)).shuffle(p)
    return p


@contextlib.contextmanager
def _glob_order(mode, record=None):
    """glob.glob (under every name the implementation bound it to) answers in the harness' order; calls are recorded"""
    import glob as globmod
    core, cli, nit, extract, dcmmeta = _impl()
    orig = globmod.glob

    def g(pat, *a, **k):
        res = _ordered(mode, orig(pat, *a, **k))
        if record is not None:
            record.append([pat, list(res)])
        return res
    sites = _all_bindings(orig, [globmod, cli, core])
    for m, name in sites:
        setattr(m, name, g)
    try:
        yield orig
    finally:
        for m, name in sites:
            setattr(m, name, orig)


# ------------------------------------------------------------------------------------------------ recorded run

def _ordering_json(o):
    if o is None:
        return None
    return {'key': o.key, 'abs': None if o.abs_ordering is None else [str(x) for x in o.abs_ordering], 'as_str': bool(o.abs_as_str)}


def _run_recorded(opts, glob_mode=None):
    """Run dcmstack_cli.main(argv(opts)) in this process with recording wrappers around every API entry point the tool
    uses (whatever name the tool's module bound them to).  Returns the observation dict (JSON serialisable)."""
    import nibabel as nb
    core, cli, nit, extract, dcmmeta = _impl()
    mods = [cli, core, extract]
    rec = {'globs': [], 'dirs': [], 'filters': {}, 'extractors': {}, 'writes': [], 'stack_err': [], 'nifti_err': []}
    state = {'cur': None, 'groups': {}, 'stacks': {}, 'niis': {}, 'keep': []}
    o_pg, o_sg, o_mf, o_me = core.parse_and_group, core.stack_group, core.make_key_regex_filter, extract.MetaExtractor
    o_tn = core.DicomStack.to_nifti
    had_tf = 'to_filename' in nb.Nifti1Image.__dict__
    orig_tf = nb.Nifti1Image.to_filename

    def r_me(*a, **k):
        x = o_me(*a, **k)
        ign = a[0] if len(a) > 0 else k.get('ignore_rules')
        tr = a[1] if len(a) > 1 else k.get('translators')
        rec['extractors'][id(x)] = {'kind': 'meta', 'ignore': [getattr(f, '__name__', repr(f)) for f in (ign if ign is not None else extract.default_ignore_rules)],
                                    'trans': [[t.name, int(t.tag.group), int(t.tag.elem)] for t in (tr if tr is not None else extract.default_translators)]}
        state['keep'].append(x)
        return x

    def r_mf(excl, incl=None):
        f = o_mf(excl, incl)
        rec['filters'][id(f)] = {'excl': list(excl), 'incl': None if incl is None else list(incl)}
        state['keep'].append(f)
        return f

    def r_pg(src_paths, group_by=None, extractor=None, force=False, warn_on_except=False, *more, **kw):
        if group_by is None:
            group_by = core.default_group_keys
        if extractor is extract.minimal_extractor:
            xd = {'kind': 'minimal'}
        elif extractor is extract.default_extractor or extractor is None:
            dx = extract.default_extractor
            xd = {'kind': 'meta', 'ignore': [getattr(f, '__name__', repr(f)) for f in dx.ignore_rules],
                  'trans': [[t.name, int(t.tag.group), int(t.tag.elem)] for t in dx.translators]}
        else:
            xd = rec['extractors'].get(id(extractor), {'kind': 'unknown:' + repr(extractor)})
        d = {'paths': list(src_paths), 'group_by': [str(x) for x in group_by], 'extractor': xd, 'force': bool(force),
             'warn': bool(warn_on_except), 'groups': None, 'files': [], 'extra_args': bool(more or kw)}
        rec['dirs'].append(d)
        state['cur'] = d
        try:
            res = o_pg(src_paths, group_by, extractor, force, warn_on_except, *more, **kw)
        except Exception as e:
            d['groups'] = {'err': _err(e), 'cls': type(e).__name__}
            raise
        gl = []
        for gi, (key, group) in enumerate(res.items()):
            meta = group[0][1]
            g = {'num': _mjson(meta.get('SeriesNumber')) if 'SeriesNumber' in meta else None,
                 'n1': _mjson(meta.get('ProtocolName')) if 'ProtocolName' in meta else None,
                 'n2': _mjson(meta.get('SeriesDescription')) if 'SeriesDescription' in meta else None}
            if opts.get('output_name') is not None:
                try:
                    g['custom'] = str(opts['output_name'] % meta)
                except Exception as e:
                    g['custom'] = {'err': _err(e)}
            else:
                g['custom'] = {'err': 'ECrash'}
            gl.append(g)
            state['groups'][id(group)] = (d, gi)
        d['groups'] = gl
        state['keep'].append(res)
        return res

    def r_sg(group, warn_on_except=False, **stack_args):
        d, gi = state['groups'].get(id(group), (state['cur'], -1))
        extra = sorted(set(stack_args) - {'time_order', 'vector_order', 'meta_filter'})
        f = {'group': gi, 'warn': bool(warn_on_except), 'time': _ordering_json(stack_args.get('time_order')),
             'vec': _ordering_json(stack_args.get('vector_order')),
             'filter': rec['filters'].get(id(stack_args.get('meta_filter'))), 'extra_kw': extra, 'nifti': None, 'path': None}
        try:
            st = o_sg(group, warn_on_except, **stack_args)
        except Exception as e:
            rec['stack_err'].append([rec['dirs'].index(d) if d in rec['dirs'] else -1, gi, _err(e), type(e).__name__])
            raise
        if d is not None:
            d['files'].append(f)
        state['stacks'][id(st)] = (d, f)
        state['keep'].append(st)
        return st

    def r_tn(self, voxel_order='LAS', embed_meta=False):
        d, f = state['stacks'].get(id(self), (None, None))
        if f is not None and f['path'] is None:
            f['nifti'] = {'vo': voxel_order, 'embed': bool(embed_meta)}
        try:
            nii = o_tn(self, voxel_order, embed_meta)
        except Exception as e:
            if f is not None:
                rec['nifti_err'].append([rec['dirs'].index(d), f['group'], _err(e), type(e).__name__])
                if f in d['files']:
                    d['files'].remove(f)
            raise
        if f is not None:
            state['niis'][id(nii)] = f
            state['keep'].append(nii)
        return nii

    def r_tf(self, path, *a, **k):
        f = state['niis'].get(id(self))
        if f is not None:
            f['path'] = path
        rec['writes'].append(path)
        return orig_tf(self, path, *a, **k)

    before = [list(core.default_key_excl_res), list(core.default_key_incl_res)]
    hidden_before = _hidden_state()
    status, raised = None, None
    sites = []
    for orig, repl in ((o_pg, r_pg), (o_sg, r_sg), (o_mf, r_mf), (o_me, r_me)):
        for m, name in _all_bindings(orig, mods):
            sites.append((m, name, orig))
            setattr(m, name, repl)
    core.DicomStack.to_nifti = r_tn
    nb.Nifti1Image.to_filename = r_tf
    try:
        with _glob_order(glob_mode, rec['globs']), _quiet() as (so, se):
            try:
                status = cli.main(_argv(opts))
            except SystemExit as e:
                status = 'exit:%s' % (e.code,)
            except Exception as e:
                raised = {'err': _err(e), 'cls': type(e).__name__, 'msg': str(e)[:200]}
    finally:
        for m, name, orig in sites:
            setattr(m, name, orig)
        core.DicomStack.to_nifti = o_tn
        if had_tf:
            nb.Nifti1Image.to_filename = orig_tf
        else:
            del nb.Nifti1Image.to_filename
    after = [list(core.default_key_excl_res), list(core.default_key_incl_res)]
    hidden_after = _hidden_state()
    for d in rec['dirs']:
        d['files'] = [f for f in d['files'] if f['path'] is not None]      # stacks that were never written
    for i, d in enumerate(rec['dirs']):
        if len(rec['globs']) == len(rec['dirs']):
            d['glob'] = rec['globs'][i][0]           # one listing per directory, in order
        else:
            hit = [pat for pat, res in rec['globs'] if list(res) == d['paths']]
            d['glob'] = hit[0] if hit else None
    return {'before': before, 'after': after, 'hidden_before': hidden_before, 'hidden_after': hidden_after, 'status': status, 'raised': raised,
            'stdout': so.getvalue(), 'dirs': rec['dirs'], 'n_globs': len(rec['globs']), 'stack_err': rec['stack_err'],
            'nifti_err': rec['nifti_err'], 'writes': rec['writes']}


# ------------------------------------------------------------------------------------------------ the equivalent API calls

def _truth_extractor(opts):
    """The extractor the options ask for, stated from the documented options and the library's NAMED rule / translator
    objects (not from the tool's helpers, not from the default tuples).  'usage' = the option value is malformed."""
    core, cli, nit, extract, dcmmeta = _impl()
    if not (opts.get('embed_meta') or opts.get('dump_meta')):
        return extract.minimal_extractor
    trans = [extract.csa_image_trans, extract.csa_series_trans]
    dis = _disabled_tags(opts.get('disable_translator'))
    if dis is None:
        return 'usage'
    if dis == 'all':
        trans = []
    else:
        trans = [t for t in trans if (int(t.tag.group), int(t.tag.elem)) not in dis]
    rules = [extract.ignore_pixel_data, extract.ignore_overlay_data, extract.ignore_color_lut_data]
    if not opts.get('extract_private'):
        rules = [extract.ignore_private] + rules
    return extract.MetaExtractor(tuple(rules), tuple(trans))


def _api_equivalent(opts, pristine, glob_mode=None):
    """What the API produces for the same request: parse_and_group + stack_group + to_nifti per group, with the filter built
    from the PRISTINE defaults plus the -e / -i options.  Returns one {'files': [summary...], 'raised': cls|None} per directory."""
    import glob as globmod
    core, cli, nit, extract, dcmmeta = _impl()
    extractor = _truth_extractor(opts)
    if extractor == 'usage':
        return 'usage'
    flt = core.make_key_regex_filter(pristine[0] + list(opts.get('exclude_regex') or []),
                                     pristine[1] + list(opts.get('include_regex') or []))

    def order(var, fn):
        if not var:
            return None
        if fn:
            return core.DicomOrdering(var, [l.strip() for l in open(fn).readlines()], True)
        return core.DicomOrdering(var)
    out = []
    try:
        t_ord = order(opts.get('time_var'), opts.get('time_order'))
        v_ord = order(opts.get('vector_var'), opts.get('vector_order'))
    except Exception as e:
        return [{'files': [], 'raised': type(e).__name__, 'before_dirs': True}]
    group_by = opts['group_by'].split(',') if opts.get('group_by') is not None else tuple(GROUP_KEYS)
    vo = opts['voxel_order'] if opts.get('voxel_order') is not None else 'LAS'
    for d in opts.get('src_dirs') or []:
        ext = opts['file_ext'] if opts.get('file_ext') is not None else '.dcm'
        paths = _ordered(glob_mode, globmod.glob(os.path.join(d, '*') + (ext or '')))
        res = []
        try:
            with _quiet():
                groups = core.parse_and_group(paths, group_by, extractor, bool(opts.get('force_read')), not opts.get('strict'))
                for key, group in groups.items():
                    st = core.stack_group(group, warn_on_except=not opts.get('strict'), time_order=t_ord, vector_order=v_ord,
                                          meta_filter=flt)
                    nii = st.to_nifti(vo, bool(opts.get('embed_meta')))
                    s = _mem_summary(nii)
                    if opts.get('dump_meta'):
                        s['dump'] = _mem_ext(st.to_nifti(vo, True))
                    res.append(s)
        except Exception as e:
            out.append({'files': res, 'raised': type(e).__name__})
            break
        out.append({'files': res, 'raised': None})
    return out


MARKERS = {'B_value': 'private', 'PrivateCreator_0X19_0X10': 'private', 'PrivateTagData': 'private',
           'CsaImage.ImaCoilString': (0x29, 0x1010), 'CsaSeries.MrProtocolVersion': (0x29, 0x1020), 'CsaSeries.UsedPatientWeight': (0x29, 0x1020),
           'OverlayData': 'never', 'RedPaletteColorLookupTableData': 'never',
           'PatientName': 'always', 'StudyDate': 'always', 'RepetitionTime': 'always', 'EchoTime': 'always'}


def _expected_markers(opts, pristine):
    """Generator ground truth: which marker keys the meta data of a generated series must / must not contain under these
    options (the series carry the private elements and CSA headers of _add_private).  {key: bool}"""
    dis = _disabled_tags(opts.get('disable_translator'))
    excl = pristine[0] + list(opts.get('exclude_regex') or [])
    incl = pristine[1] + list(opts.get('include_regex') or [])
    out = {}
    for key, how in MARKERS.items():
        if how == 'private':
            got = bool(opts.get('extract_private'))
        elif how == 'never':
            got = False
        elif how == 'always':
            got = True
        else:
            got = dis != 'all' and dis is not None and how not in dis
        filtered = any(re.search(p, key) for p in excl) and not any(re.search(p, key) for p in incl)
        out[key] = bool(got and not filtered)
    return out


def _api_probe(probe_dir):
    """Plain API use with every default: parse_and_stack without extractor / filter, the default extractor on one file, the
    default filter on a few keys.  Must not depend on command-line invocations made earlier in the process."""
    import glob as globmod
    import pydicom
    core, cli, nit, extract, dcmmeta = _impl()
    out = {}
    try:
        paths = sorted(p for p in globmod.glob(os.path.join(probe_dir, '*')) if p.lower().endswith(('.dcm', '.ima')))
        with _quiet():
            stacks = core.parse_and_stack(paths)
            exts = []
            for key, st in stacks.items():
                try:
                    exts.append(_mem_ext(st.to_nifti('LAS', True)))
                except core.InvalidStackError:
                    exts.append('InvalidStackError')
            out['stacks'] = [hashlib.sha1(json.dumps(e, sort_keys=True).encode('utf-8')).hexdigest() for e in exts]
            out['stack_keys'] = [sorted(_ext_keys(e)) if isinstance(e, dict) else None for e in exts]
            if paths:
                meta = extract.default_extractor(pydicom.dcmread(paths[0]))
                out['extractor_keys'] = sorted(meta.keys())
        out['filter'] = [bool(core.default_meta_filter(k, None)) for k in
                         ('PatientName', 'EchoTime', 'ImagePositionPatient', 'SeriesInstanceUID', 'Foo', 'Bar', 'Rows', 'CsaImage.B_value')]
    except Exception as e:
        out['raised'] = '%s: %s' % (type(e).__name__, str(e)[:200])
    return out


# ------------------------------------------------------------------------------------------------ other interpreters

def _spawn(args, cwd, timeout):
    """run `python -m props.c19 <args>`; one retry after a timeout (loaded machine).  -> (returncode | None, output text)"""
    last = ''
    for attempt in (0, 1):
        try:
            p = subprocess.run([sys.executable, '-m', 'props.c19'] + args, cwd=HERE, env=dict(os.environ),
                               stdout=subprocess.PIPE, stderr=subprocess.STDOUT, timeout=timeout)
            return p.returncode, p.stdout.decode('utf-8', 'replace')
        except subprocess.TimeoutExpired as e:
            last = 'no result within %ds (attempt %d)' % (timeout, attempt + 1)
    return None, last


def _fresh(cwd, opts, dirs, glob_mode=None, timeout=70):
    """The same invocation as the first thing a new interpreter does; returns the summaries of what it wrote, or
    {'harness': why} when the interpreter could not be run (reported as a broken correspondence, never as a pass)."""
    spec = os.path.join(cwd, 'fresh_spec.json')
    res = os.path.join(cwd, 'fresh_res.json')
    json.dump({'cwd': cwd, 'opts': opts, 'dirs': dirs, 'glob_mode': glob_mode}, open(spec, 'w'))
    if os.path.exists(res):
        os.remove(res)
    rc, out = _spawn(['fresh', spec, res], cwd, timeout)
    if not os.path.exists(res):
        return {'harness': 'fresh interpreter gave no result (rc=%r): %s' % (rc, out[-400:])}
    r = json.load(open(res))
    os.remove(spec)
    os.remove(res)
    return r


def _fresh_main(spec, res):
    s = json.load(open(spec))
    os.chdir(s['cwd'])
    core, cli, nit, extract, dcmmeta = _impl()
    api_first = _api_probe('d0')          # the API, before any command-line invocation in this interpreter
    status, raised = None, None
    with _glob_order(s.get('glob_mode')), _quiet() as (so, se):
        try:
            status = cli.main(_argv(s['opts']))
        except SystemExit as e:
            status = 'exit:%s' % (e.code,)
        except Exception as e:
            raised = type(e).__name__
    out = {'status': status, 'raised': raised, 'stdout': so.getvalue(), 'files': _summarise(s['dirs']), 'api_first': api_first}
    json.dump(out, open(res, 'w'))


def _in_child(part, case, timeout):
    """Run one case of `part` in its own interpreter.  -> observation; {'harness': why} when the child could not be run;
    {'died': signal number, 'progress': ...} when the interpreter was killed (the tool under test took it down)."""
    d = _scratch()
    try:
        spec, res = os.path.join(d, 'case.json'), os.path.join(d, 'obs.json')
        json.dump(case, open(spec, 'w'))
        rc, out = _spawn(['case', part, spec, res, d], d, timeout)
        if os.path.exists(res):
            try:
                return json.load(open(res))
            except ValueError:
                pass
        prog = None
        if os.path.exists(res + '.progress'):
            try:
                prog = json.load(open(res + '.progress'))
            except ValueError:
                prog = None
        if rc is not None and rc < 0:
            return {'died': -rc, 'progress': prog}
        return {'harness': 'case interpreter gave no result (rc=%r): %s' % (rc, out[-600:])}
    finally:
        shutil.rmtree(d, ignore_errors=True)


def _progress(res, what):
    """what the child is about to do (read by the parent when the child is killed)"""
    if res:
        json.dump(what, open(res + '.progress', 'w'))


def _child_main(part, spec, res, workdir):
    os.environ['VERIF_WORK'] = workdir
    case = json.load(open(spec))
    P = {'state': State, 'nitool': Nitool}[part]
    try:
        obs = P._run_case(case, res)
    except Exception as e:
        import traceback
        obs = {'crash': type(e).__name__, 'msg': (str(e) + ' | ' + traceback.format_exc()[-600:])}
    json.dump(obs, open(res, 'w'), default=str)


def _tagged(msgs):
    """oracle result: the first collected message (own clauses first); its [tag] is the signature"""
    return msgs[0] if msgs else None


def _tag_of(msg):
    m = re.match(r'\[([^\]]+)\]', msg or '')
    return m.group(1) if m else 'untagged'


# ================================================================================================ part: names

NAME_POOL = ['a', 'a', 'a', 'a-001', 'a-002', 'a-003', 'a-002-003', 'b', 'b c', 'b/c', 'b_c', 'T1 MPRAGE', 'ep2d:bold', 'x.y', 'x y', 'é',
             'é', 'ü', 'a-000', 'a-004', 'A', 'fmap (mag)', 'fmap_(mag)', 'a-1', 'a-01', 'a-0002', 'β', 'a b', 'a+b', 'a_b']


def _model_groups(groups):
    def mv(x):
        if x is None:
            return 'None'
        if x['t'] == 'int':
            return '(Some (MInt %s))' % cz(x['v'])
        if x['t'] == 'str':
            return '(Some (MStr %s))' % cstr(x['v'])
        raise ValueError('meta value outside the modelled domain: %r' % (x,))
    out = []
    for g in groups:
        c = g['custom']
        cu = '(Err %s)' % c['err'] if isinstance(c, dict) else '(Ok %s)' % cstr(c)
        out.append('{| gm_num := %s; gm_name1 := %s; gm_name2 := %s; gm_custom := %s |}' % (mv(g['num']), mv(g['n1']), mv(g['n2']), cu))
    return clist(out)


def sanitize(s):
    import string
    return ''.join(c if c in string.ascii_letters + string.digits + '-_.' else '_' for c in s)


class Names:
    NAME = "names"
    CORR_REQUIRE = "From DV Require Import Generated.T_cli Cli.Model Cli.Corr."
    CORR_CASE_TYPE = "Corr.names_case"
    CORR_CHECK = "Corr.check_names"
    CORR_SHOW = "Corr.show_names"
    SHARD = 60
    IMPL_TIMEOUT = 60
    RULE = ("lists of 2-9 natural names with duplicates, names that look like suffixed names (a-002), and characters "
            "sanitize_path_comp rewrites; one 1-slice series per name in one directory (ProtocolName = name), custom "
            "--output-name '%(ProtocolName)s' or the default format (SeriesNumber / ProtocolName / SeriesDescription present or "
            "absent); non-trivial = at least one name needed a suffix")

    @staticmethod
    def gen_cases(rng, tier):
        n = 70 if tier == 'quick' else 800
        out = [{'kind': 'f13', 'mode': 'custom', 'ext': None, 'dest': False, 'embed': False,
                'series': [{'uid': i + 1, 'num': i + 1, 'proto': p, 'descr': None} for i, p in enumerate(['a-002', 'a', 'a'])]}]
        for i in range(n):
            r = rng.random()
            k = rng.randrange(2, 10)
            if r < 0.6:
                pool = rng.sample(NAME_POOL, rng.randrange(1, 5))
                names = [rng.choice(pool) for _ in range(k)]
                if rng.random() < 0.5:
                    base = rng.choice(['a', 'b c', 'é'])
                    names = [rng.choice([base, base, '%s-%03d' % (sanitize(base), rng.randrange(0, k + 1))]) for _ in range(k)]
                series = [{'uid': j + 1, 'num': rng.randrange(1, 30), 'proto': nm, 'descr': None} for j, nm in enumerate(names)]
                out.append({'kind': 'custom', 'mode': 'custom', 'ext': rng.choice([None, None, '.nii']), 'dest': rng.random() < 0.3,
                            'embed': False, 'series': series})
            else:
                series = []
                for j in range(k):
                    num = rng.choice([1, 1, 2, 3, 12, 123, 1234, None])
                    proto = rng.choice(['a', 'a', 'b c', 'a-001', None])
                    descr = rng.choice(['sd', 'sd', 's d', None])
                    series.append({'uid': j + 1, 'num': num, 'proto': proto, 'descr': descr})
                out.append({'kind': 'default-format', 'mode': 'default', 'ext': rng.choice([None, '.nii']), 'dest': rng.random() < 0.3,
                            'embed': rng.random() < 0.5, 'series': series})
        return out

    @staticmethod
    def _opts(case):
        o = dict(OPT_DEFAULT)
        o['src_dirs'] = ['src']
        if case['mode'] == 'custom':
            o['output_name'] = '%(ProtocolName)s'
        if case.get('ext'):
            o['output_ext'] = case['ext']
        if case.get('dest'):
            o['dest_dir'] = 'out'
        if case.get('embed'):
            o['embed_meta'] = True
        return o

    @staticmethod
    def run_impl(case):
        core, cli, nit, extract, dcmmeta = _impl()
        hist = _case_start('names/' + case.get('kind', '?'))
        cwd0 = os.getcwd()
        d = _scratch()
        try:
            os.chdir(d)
            os.makedirs('src')
            os.makedirs('out')
            n = 0
            for s in case['series']:
                n = _write_series('src', n, dict(s, S=1, T=1, priv=False))
            o = Names._opts(case)
            obs = _run_recorded(o, 'sorted')
            dest = 'out' if case.get('dest') else 'src'
            listing = sorted(os.path.basename(p) for p in _listing([dest]))
            return {'status': obs['status'], 'raised': obs['raised'], 'groups': obs['dirs'][0]['groups'] if obs['dirs'] else None,
                    'files': [os.path.basename(p) for p in obs['writes']], 'listing': listing,
                    'paths_ok': all(os.path.dirname(p) == dest for p in obs['writes']),
                    'hidden_before': obs['hidden_before'], 'hidden_after': obs['hidden_after'],
                    'hidden_pristine': _PRISTINE_OBJ['hidden'], 'worker_history': hist[-8:]}
        finally:
            os.chdir(cwd0)
            shutil.rmtree(d, ignore_errors=True)

    @staticmethod
    def coq_case(case, obs):
        if not isinstance(obs.get('groups'), list):
            raise ValueError('no groups recorded')
        return '{| n_custom := %s; n_ext := %s; n_groups := %s; n_obs := %s |}' % (
            cbool(case['mode'] == 'custom'), 'dflt_output_ext' if not case.get('ext') else cstr(case['ext']),
            _model_groups(obs['groups']), clist(cstr(f) for f in obs['files']))

    @staticmethod
    def oracle(case, obs):
        if 'crash' in obs:
            return None                       # the driver's uniform rule reports it
        msgs = []
        ng = len(case['series'])
        if obs.get('raised'):
            msgs.append('[names/raised] dcmstack raised %s on a directory of valid one-slice series' % obs['raised']['cls'])
        elif obs.get('status') != 0:
            msgs.append('[names/exit] dcmstack exited with %r on a directory of valid one-slice series' % (obs.get('status'),))
        else:
            # one series (own SeriesInstanceUID) per name: the generator knows there are ng groups
            if len(obs['files']) != ng or len(obs['listing']) != ng or len(set(obs['files'])) != ng:
                if len(set(obs['files'])) < len(obs['files']) or len(obs['listing']) < len(obs['files']):
                    msgs.append('[names/overwrite] %d series but only %d distinct output files (%s): an output overwrote another' % (
                        ng, min(len(set(obs['files'])), len(obs['listing'])), sorted(obs['files'])))
                else:
                    msgs.append('[names/count] %d series (one per name, each with its own SeriesInstanceUID) but %d files written' % (ng, len(obs['files'])))
            if not obs.get('paths_ok'):
                msgs.append('[names/outside] an output was written outside the destination directory')
        hp = obs.get('hidden_pristine') or {}
        for when, h in (('starts with', obs.get('hidden_before') or {}), ('leaves behind', obs.get('hidden_after') or {})):
            diff = [x for x in h if x in hp and h[x] != hp[x]]
            if diff:
                msgs.append('[names/state-leak] the invocation %s module-level state that differs from the state at import: %s (cases run before '
                            'in this interpreter: %s)' % (when, ', '.join(diff), obs.get('worker_history')))
                break
        return _tagged(msgs)

    @staticmethod
    def signature(case, obs, msg):
        return _tag_of(msg)

    @staticmethod
    def nontrivial(case, obs):
        fs = obs.get('files') or []
        gs = obs.get('groups') if isinstance(obs.get('groups'), list) else []
        if case['mode'] == 'custom':
            nat = [sanitize(g['custom']) for g in gs if isinstance(g.get('custom'), str)]
            return len(set(nat)) < len(nat) and len(set(fs)) == len(fs)
        return any(re.search(r'-\d\d\d+\.nii', f) for f in fs) and len(set(fs)) == len(fs)

    @staticmethod
    def shrink(case):
        s = case['series']
        for i in range(len(s)):
            if len(s) > 1:
                c = dict(case)
                c['series'] = s[:i] + s[i + 1:]
                yield c


# ================================================================================================ part: state

def _json_path(path):
    t = path.split('.')
    if t and t[-1] == 'gz':
        t = t[:-1]
    if t and t[-1] == 'nii':
        t = t[:-1]
    return '.'.join(t + ['json'])


class State:
    NAME = "state"
    CORR_REQUIRE = "From DV Require Import Generated.T_cli Cli.Model Cli.Corr."
    CORR_CASE_TYPE = "Corr.state_case"
    CORR_CHECK = "Corr.check_state"
    CORR_SHOW = "Corr.show_state"
    SHARD = 5
    IMPL_TIMEOUT = 240
    RULE = ("sequences of 2-4 dcmstack invocations in one interpreter (one interpreter per case) over 1-2 generated directories (1-3 "
            "series of 1-3 slices x 1-2 time points x 1-2 vector components, 2x2 pixels, private elements and CSA headers; equal series "
            "numbers / protocol names across directories are frequent; files named .dcm or .ima; directory listings handed over "
            "sorted, reversed or shuffled) or over the real 2D_16Echo_qT2 files: -e/-i lists, --embed-meta/--dump-meta, --voxel-order, "
            "--time-var / --vector-var with and without order files, --group-by, --output-name/--output-ext/--dest-dir, --file-ext, "
            "--extract-private, --disable-translator, --force-read, --strict, plus the print-and-exit options and the error exits "
            "(no source directory, bad translator tag, missing order file, an incongruent file under --strict, incomplete stack); whole "
            "directories (or every other file) without preamble / DICM marker with and without --force-read; "
            "non-trivial = at least two invocations of the sequence wrote files under different filter / extractor / embedding options")

    EXCL = ['EchoTime', 'Series', 'Rows', 'Foo', 'Repetition', '^Pixel']
    INCL = ['PatientName', 'StudyDate', 'Bar', 'SeriesInstanceUID', 'Private']

    @staticmethod
    def _series_of(dirs, names):
        out = []
        for d in names:
            spec = dirs[int(d[1:])]
            if isinstance(spec, list):
                out += spec
        return out

    @staticmethod
    def _inv(rng, dirs, k, suffix='.dcm'):
        o = dict(OPT_DEFAULT)
        r = rng.random()
        if r < 0.05:
            o[rng.choice(['default_regexes', 'default_regexes', 'list_translators', 'version'])] = True
            if rng.random() < 0.5:
                o['exclude_regex'] = rng.sample(State.EXCL, 1)
            o['src_dirs'] = ['d0']
            return o
        o['src_dirs'] = [rng.choice(['d0', 'd1'][:len(dirs)])] if rng.random() < 0.7 else ['d%d' % j for j in range(len(dirs))]
        if r < 0.08:
            o['src_dirs'] = []
        m = rng.random()
        if m < 0.3:
            o['embed_meta'] = True
        elif m < 0.5:
            o['dump_meta'] = True
        elif m < 0.6:
            o['embed_meta'] = o['dump_meta'] = True
        if rng.random() < 0.6:
            o['exclude_regex'] = rng.sample(State.EXCL, rng.randrange(1, 3))
        if rng.random() < 0.5:
            o['include_regex'] = rng.sample(State.INCL, rng.randrange(1, 3))
        if rng.random() < 0.5:
            o['voxel_order'] = rng.choice(['RAS', 'LPI', '', 'ASL', 'LAS'])
        ser = State._series_of(dirs, o['src_dirs'])
        has_t = any(s.get('T', 1) > 1 for s in ser) or any(not isinstance(dirs[int(d[1:])], list) for d in o['src_dirs'])
        has_v = any(s.get('V', 1) > 1 for s in ser)
        if has_t and rng.random() < 0.6:
            o['time_var'] = rng.choice(['EchoTime', 'AcquisitionNumber']) if ser else 'EchoTime'
            if rng.random() < 0.5 and ser:
                o['time_order'] = 'order_%s.txt' % o['time_var']
            elif rng.random() < 0.06:
                o['time_order'] = 'no_such_order_file.txt'
        if has_v and rng.random() < 0.8:
            o['vector_var'] = 'FlipAngle'
            if rng.random() < 0.5:
                o['vector_order'] = 'order_FlipAngle.txt'
            if o['time_var'] is None and rng.random() < 0.7:
                o['time_var'] = 'EchoTime'
        if rng.random() < 0.15:
            o['group_by'] = rng.choice(['SeriesInstanceUID', 'SeriesNumber,ProtocolName', 'SeriesInstanceUID,ImageOrientationPatient'])
        if rng.random() < 0.3:
            o['output_name'] = rng.choice(['%(ProtocolName)s', 'x', '%(SeriesNumber)d_%(ProtocolName)s'])
        if rng.random() < 0.3:
            o['output_ext'] = rng.choice(['.nii', '.nii.gz'])
        if rng.random() < 0.3:
            o['dest_dir'] = 'out%d' % k
        if rng.random() < 0.3:
            o['extract_private'] = True
        if rng.random() < 0.3:
            o['disable_translator'] = rng.choice(['all', 'ALL', '0x29_0x1010', '0x29_0x1010,0x29_0x1020', '29_1020', 'zz', '0x29'])
        if suffix != '.dcm':
            o['file_ext'] = rng.choice([suffix, suffix, suffix, '', None])
        elif rng.random() < 0.15:
            o['file_ext'] = rng.choice(['.dcm', '', '.ima', 'm'])
        if rng.random() < 0.1:
            o['force_read'] = True
        if rng.random() < 0.15:
            o['strict'] = True
        if rng.random() < 0.2:
            o['verbose'] = True
        return o

    @staticmethod
    def gen_cases(rng, tier):
        n = 96 if tier == 'quick' else 700
        ser1 = {'uid': 1, 'num': 1, 'proto': 'a', 'descr': 'sd', 'S': 2, 'T': 1}
        out = [{'kind': 'f10', 'dirs': [[ser1]],
                'invs': [dict(OPT_DEFAULT, src_dirs=['d0'], exclude_regex=['Foo'], include_regex=['Bar'], embed_meta=True),
                         dict(OPT_DEFAULT, src_dirs=['d0'], embed_meta=True),
                         dict(OPT_DEFAULT, src_dirs=['d0'], default_regexes=True)]}]
        # F18: equal names from two source directories in one destination
        out.append({'kind': 'f18',
                    'dirs': [[{'uid': 1, 'num': 8, 'proto': 'b c', 'descr': None, 'S': 2, 'T': 1}],
                             [{'uid': 2, 'num': 8, 'proto': 'b c', 'descr': None, 'S': 2, 'T': 1}]],
                    'invs': [dict(OPT_DEFAULT, src_dirs=['d0', 'd1'], dest_dir='out0', embed_meta=True),
                             dict(OPT_DEFAULT, src_dirs=['d0', 'd1'], dest_dir='out1', output_name='x'),
                             dict(OPT_DEFAULT, src_dirs=['d0', 'd1'])]})
        # extractor options leaking through the shared default extractor
        out.append({'kind': 'extractor', 'dirs': [[dict(ser1, T=2)]],
                    'invs': [dict(OPT_DEFAULT, src_dirs=['d0'], embed_meta=True, disable_translator='all', extract_private=True),
                             dict(OPT_DEFAULT, src_dirs=['d0'], dump_meta=True),
                             dict(OPT_DEFAULT, src_dirs=['d0'], embed_meta=True, disable_translator='0x29_0x1020')]})
        # force flags: files without preamble / DICM marker are read only with --force-read (parse_and_group(force=True))
        out.append({'kind': 'force-read', 'dirs': [[dict(ser1, nopre=True)], [dict(ser1, uid=2, nopre='mixed', S=3)]],
                    'invs': [dict(OPT_DEFAULT, src_dirs=['d0'], force_read=True, embed_meta=True),
                             dict(OPT_DEFAULT, src_dirs=['d0', 'd1']),
                             dict(OPT_DEFAULT, src_dirs=['d1', 'd0'], force_read=True, dump_meta=True),
                             dict(OPT_DEFAULT, src_dirs=['d1'], force_read=True, strict=True)]})
        # real input (generated AND real, says the property)
        out.append({'kind': 'real', 'dirs': ['real'],
                    'invs': [dict(OPT_DEFAULT, src_dirs=['d0'], embed_meta=True, exclude_regex=['Echo']),
                             dict(OPT_DEFAULT, src_dirs=['d0'], dump_meta=True, time_var='EchoTime', voxel_order='RAS'),
                             dict(OPT_DEFAULT, src_dirs=['d0'], dest_dir='out2', output_ext='.nii')]})
        out.append({'kind': 'real-incomplete', 'dirs': ['real+', [ser1]],
                    'invs': [dict(OPT_DEFAULT, src_dirs=['d1', 'd0'], embed_meta=True),
                             dict(OPT_DEFAULT, src_dirs=['d1'], embed_meta=True, include_regex=['Bar'])]})
        for i in range(n):
            nd = rng.choice([1, 1, 2])
            dirs = []
            uid = 1
            for j in range(nd):
                ser = []
                for s in range(rng.randrange(1, 4)):
                    ser.append({'uid': uid, 'num': rng.randrange(1, 4), 'proto': rng.choice(['a', 'a', 'b c', 'a-001']),
                                'descr': rng.choice(['sd', None]), 'S': rng.randrange(1, 4), 'T': rng.choice([1, 1, 2]),
                                'V': rng.choice([1, 1, 1, 2])})
                    uid += 1
                dirs.append(ser)
            kind = 'valid'
            r = rng.random()
            if r < 0.1:
                dirs[0][0]['bad'] = True
                dirs[0][0]['S'] = max(2, dirs[0][0]['S'])
                kind = 'incongruent'
            elif r < 0.18:
                dirs[0][0]['S'] = 3
                dirs[0][0]['gap'] = True
                kind = 'incomplete'
            suffix = '.ima' if rng.random() < 0.12 else '.dcm'
            invs = [State._inv(rng, dirs, k, suffix) for k in range(rng.randrange(2, 5))]
            if rng.random() < 0.15:
                kind = 'force-read' if kind == 'valid' else kind
                for ser in dirs[rng.randrange(len(dirs))]:
                    ser['nopre'] = rng.choice([True, True, 'mixed'])
                for v in invs:
                    v['force_read'] = rng.random() < 0.6
            if kind == 'incongruent':
                v = invs[rng.randrange(len(invs))]
                v['strict'] = True
                if not v['src_dirs']:
                    v['src_dirs'] = ['d0']
            out.append({'kind': kind, 'dirs': dirs, 'suffix': suffix,
                        'glob_mode': rng.choice(['sorted', 'sorted', 'reversed', 'shuffle%d' % rng.randrange(1, 9)]), 'invs': invs})
        return out

    # ---------------------------------------------------------------- run (in the case's own interpreter)
    @staticmethod
    def run_impl(case):
        return _in_child('state', case, 105)

    @staticmethod
    def _run_case(case, res=None):
        core, cli, nit, extract, dcmmeta = _impl()
        _case_start('state/' + case.get('kind', '?'))
        pristine = (list(_PRISTINE[0]), list(_PRISTINE[1]))
        gm = case.get('glob_mode') or 'sorted'
        cwd0 = os.getcwd()
        d = _scratch()
        try:
            os.chdir(d)
            n = 0
            for j, ser in enumerate(case['dirs']):
                os.makedirs('d%d' % j)
                if isinstance(ser, list):
                    for s in ser:
                        n = _write_series('d%d' % j, n, s, case.get('suffix') or '.dcm')
                else:
                    _copy_real('d%d' % j, complete=(ser == 'real'))
            for k in range(5):
                os.makedirs('out%d' % k)
            # order files: values of make_grid's rules 't' (2 + 3t) and 'v' (1 + 2v) and of the constant series, permuted, with blanks
            open('order_EchoTime.txt', 'w').write(' 5.0 \n2.0\n\t8.0\n3.0\n')
            open('order_AcquisitionNumber.txt', 'w').write('5\n 2\n8 \n4')
            open('order_FlipAngle.txt', 'w').write('3.0\n 1.0\n30.0 \n')
            all_dirs = ['d%d' % j for j in range(len(case['dirs']))]
            out_dirs = sorted(set(all_dirs + ['out%d' % j for j in range(5)]))
            invs = []
            api_baseline = None
            for k, o in enumerate(case['invs']):
                _clean(out_dirs)
                obs = _run_recorded(o, gm)
                obs['lines'] = {fn: open(fn).readlines() for fn in (o.get('time_order'), o.get('vector_order')) if fn and os.path.exists(fn)}
                mine = _summarise(out_dirs)
                obs['written'] = sorted(mine)
                for dd in obs['dirs']:
                    for f in dd['files']:
                        m = mine.get(f['path'], {})
                        f['has_ext'] = m.get('ext') is not None
                        jp = _json_path(f['path'])
                        src = m.get('ext') if m.get('ext') is not None else (mine.get(jp, {}).get('json') if o.get('dump_meta') else None)
                        f['keys'] = sorted(_ext_keys(src)) if isinstance(src, dict) else None
                        f['generated'] = isinstance(case['dirs'][int(dd['glob'].split('/')[0][1:])], list) if dd.get('glob') else None
                _clean(out_dirs)           # the outputs are summarised: the API equivalent must see the directories as the tool did
                # --- oracle material 1: the equivalent API calls
                try:
                    api, api_err = _api_equivalent(o, pristine, gm), None
                except Exception as e:
                    api, api_err = None, '%s: %s' % (type(e).__name__, str(e)[:200])
                obs['api_cmp'] = State._compare_api(o, obs, mine, api, api_err)
                obs['markers'] = _expected_markers(o, pristine)
                _clean(out_dirs)
                # --- 1b: the plain API (all defaults) called after this invocation
                obs['api_after'] = _api_probe('d0')
                # --- 2: the same invocation run first in a fresh interpreter (the first invocation IS first in this one)
                if k >= 1:
                    fr = _fresh(d, o, out_dirs, gm)
                    obs['fresh_cmp'] = State._compare_fresh(obs, mine, fr)
                    if 'api_first' in fr:
                        api_baseline = fr['api_first']
                else:
                    obs['fresh_cmp'] = None
                _clean(out_dirs)
                obs['pristine'] = [pristine[0], pristine[1]]
                del obs['writes']
                invs.append(obs)
            if api_baseline is None:          # a one-invocation case (shrinking / replay): ask a fresh interpreter anyway
                fr = _fresh(d, dict(OPT_DEFAULT, version=True), [])
                api_baseline = fr.get('api_first')
                if 'harness' in fr:
                    invs[-1]['fresh_cmp'] = 'HARNESS ' + fr['harness']
            return {'invs': invs, 'api_baseline': api_baseline, 'hidden_pristine': _PRISTINE_OBJ['hidden']}
        finally:
            os.chdir(cwd0)
            shutil.rmtree(d, ignore_errors=True)

    @staticmethod
    def _expect_usage(o):
        if any(o.get(k) for k in ('version', 'list_translators', 'default_regexes')):
            return False
        if (o.get('embed_meta') or o.get('dump_meta')) and _disabled_tags(o.get('disable_translator')) is None:
            return True
        return not o.get('src_dirs')

    @staticmethod
    def _compare_api(o, obs, mine, api, api_err):
        """None = the tool did what the equivalent API calls do; else a '[tag] message'."""
        if any(o.get(k) for k in ('version', 'list_translators', 'default_regexes')):
            if obs['status'] != 0 or obs['raised']:
                return '[state/print-exit] a print-and-exit option ended with %r / %r' % (obs['status'], obs['raised'])
            return None
        if obs['status'] not in (0, None) and not obs['raised']:
            if State._expect_usage(o):
                return None
            return '[state/usage] the tool refused valid options with %r' % (obs['status'],)
        if api == 'usage':
            return None                  # a malformed option value was accepted: the property does not say
        if api is None:
            return '[state/api-failed] the equivalent API calls failed (%s)' % api_err
        if api and api[0].get('before_dirs'):
            return None if obs['raised'] else '[state/raised] the equivalent API calls raise %s before any directory is read, the tool ran' % api[0]['raised']
        for di, dd in enumerate(obs['dirs']):
            if di >= len(api):
                return '[state/dirs] the tool processed more directories than the API equivalent'
            want = api[di]['files']
            got = dd['files']
            if len(got) != len(want):
                return '[state/count] directory %s: tool wrote %d files, the API yields %d stacks' % (dd.get('glob'), len(got), len(want))
            for f, w in zip(got, want):
                m = mine.get(f['path'])
                if m is None:
                    return '[state/missing] file %s reported written but not found' % f['path']
                if 'unreadable' in m:
                    return '[state/unreadable] file %s cannot be read back (%s)' % (f['path'], m['unreadable'])
                for k in ('shape', 'dtype', 'data', 'affine', 'pixdim', 'dim_info', 'xyzt', 'slice_times', 'ext'):
                    if m[k] != w[k]:
                        return '[state/api/%s] file %s differs from the API result in %s' % (k, f['path'], k)
                if o.get('dump_meta'):
                    jp = _json_path(f['path'])
                    if jp not in mine:
                        return '[state/dump-missing] meta data dump %s missing' % jp
                    if mine[jp]['json'] != w['dump']:
                        return '[state/api/dump] meta data dump %s differs from the extension the API builds' % jp
        n_api_raised = [x['raised'] for x in api if x['raised']]
        if obs['raised'] and not n_api_raised:
            return '[state/raised] the tool raised %s, the equivalent API calls do not raise' % obs['raised']['cls']
        if not obs['raised'] and n_api_raised:
            return '[state/not-raised] the equivalent API calls raise %s but the tool returned normally' % n_api_raised[0]
        if not obs['raised'] and len(obs['dirs']) != len(api):
            return '[state/dirs] the tool read %d directories, the request names %d' % (len(obs['dirs']), len(api))
        return None

    @staticmethod
    def _compare_fresh(obs, mine, fr):
        if 'harness' in fr:
            return 'HARNESS ' + fr['harness']
        if fr['status'] != obs['status'] or bool(fr['raised']) != bool(obs['raised']):
            return '[state/fresh/status] in a fresh process the invocation ends with %r/%r, here with %r/%r' % (
                fr['status'], fr['raised'], obs['status'], obs['raised']['cls'] if obs['raised'] else None)
        if fr['stdout'] != obs['stdout']:
            return '[state/fresh/stdout] printed output differs from the same invocation in a fresh process'
        if sorted(fr['files']) != sorted(mine):
            return '[state/fresh/files] files written %s, in a fresh process %s' % (sorted(mine), sorted(fr['files']))
        for p in mine:
            if mine[p] != fr['files'][p]:
                k = [x for x in mine[p] if mine[p][x] != fr['files'][p].get(x)]
                return '[state/fresh/%s] file %s differs (%s) from the same invocation run first in a fresh process' % (k[0] if k else 'x', p, ','.join(k))
        return None

    # ---------------------------------------------------------------- Coq rendering
    @staticmethod
    def _coq_order(o):
        if o is None:
            return 'None'
        return '(Some {| o_key := %s; o_abs := %s; o_abs_as_str := %s |})' % (
            cstr(o['key']), copt(o['abs'], lambda l: clist(cstr(x) for x in l)), cbool(o['as_str']))

    @staticmethod
    def _coq_extractor(x):
        if x['kind'] == 'minimal':
            return 'XMinimal'
        if x['kind'] == 'meta':
            return '(XMeta %s %s)' % (clist(cstr(s) for s in x['ignore']),
                                      clist(cpair(cstr(t[0]), cpair(cN(t[1]), cN(t[2]))) for t in x['trans']))
        raise ValueError('unknown extractor ' + x['kind'])

    @staticmethod
    def _coq_inv(o, obs):
        if (obs.get('fresh_cmp') or '').startswith('HARNESS'):
            raise ValueError('harness: %s' % obs['fresh_cmp'])
        dirs = []
        for dd in obs['dirs']:
            files = []
            for f in dd['files']:
                if f['filter'] is None or f['filter']['incl'] is None or f['nifti'] is None or f['extra_kw']:
                    raise ValueError('stack built with arguments the model does not know: %r' % (f,))
                jp = None
                if o.get('dump_meta'):
                    cand = _json_path(f['path'])
                    jp = cand if cand in obs['written'] else None
                files.append('{| fb_group := %s; fb_excl := %s; fb_incl := %s; fb_time := %s; fb_vec := %s; fb_warn := %s; fb_vo := %s; '
                             'fb_embed := %s; fb_path := %s; fb_json := %s; fb_has_ext := %s |}' % (
                                 cnat(f['group']), clist(cstr(s) for s in f['filter']['excl']), clist(cstr(s) for s in f['filter']['incl']),
                                 State._coq_order(f['time']), State._coq_order(f['vec']), cbool(f['warn']), cstr(f['nifti']['vo']),
                                 cbool(f['nifti']['embed']), cstr(f['path']), copt(jp, cstr), cbool(f['has_ext'])))
            g = dd['groups']
            groups = '(Err %s)' % g['err'] if isinstance(g, dict) else '(Ok %s)' % _model_groups(g)
            if dd.get('glob') is None or dd.get('extra_args'):
                raise ValueError('parse_and_group called in a way the model does not know: %r' % {k: dd[k] for k in ('glob', 'extra_args')})
            dirs.append('{| db_glob := %s; db_paths := %s; db_group_by := %s; db_extractor := %s; db_force := %s; db_warn := %s; '
                        'db_groups := %s; db_files := %s |}' % (
                            cstr(dd['glob']), clist(cstr(p) for p in dd['paths']), clist(cstr(s) for s in dd['group_by']),
                            State._coq_extractor(dd['extractor']), cbool(dd['force']), cbool(dd['warn']), groups, clist(files)))
        ok = obs['status'] == 0 and not obs['raised']
        if o.get('version') and ok:
            out = 'BVersion'
        elif o.get('list_translators') and ok and not obs['dirs']:
            # one line per translator, the name is the last blank-separated word (the layout of the line is not the property's)
            out = '(BTranslators %s)' % clist(cstr(l.split()[-1]) for l in obs['stdout'].split('\n') if l.strip())
        elif o.get('default_regexes') and ok and not obs['dirs']:
            # the patterns are the indented lines; headings (whatever their wording) are ignored
            pats = [l.strip() for l in obs['stdout'].split('\n') if l[:1] in (' ', '\t') and l.strip()]
            out = '(BRegexes %s)' % clist(cstr(s) for s in pats)
        elif isinstance(obs['status'], str) and obs['status'].startswith('exit:') and obs['status'] != 'exit:0':
            out = 'BUsage'
        elif obs['status'] == 0 or obs['raised']:
            out = '(BRun %s %s)' % (clist(dirs), copt(obs['raised'], lambda r: r['err']))
        else:
            raise ValueError('unexpected exit status %r' % (obs['status'],))
        dname = lambda i: obs['dirs'][i]['glob'].rsplit('/', 1)[0] if 0 <= i < len(obs['dirs']) and obs['dirs'][i].get('glob') else ''
        return ('{| v_args := %s; v_lines := %s; v_stack_err := %s; v_nifti_err := %s; v_before := %s; v_after := %s; v_dx_before := %s; '
                'v_dx_after := %s; v_out := %s |}' % (
            _coq_args(o), clist(cpair(cstr(fn), clist(cstr(l) for l in ls)) for fn, ls in sorted(obs['lines'].items())),
            clist(cpair(cpair(cstr(dname(e[0])), cnat(max(e[1], 0))), e[2]) for e in obs['stack_err']),
            clist(cpair(cpair(cstr(dname(e[0])), cnat(max(e[1], 0))), e[2]) for e in obs['nifti_err']),
            cpair(clist(cstr(s) for s in obs['before'][0]), clist(cstr(s) for s in obs['before'][1])),
            cpair(clist(cstr(s) for s in obs['after'][0]), clist(cstr(s) for s in obs['after'][1])),
            State._coq_extractor(obs['hidden_before']['dx']), State._coq_extractor(obs['hidden_after']['dx']), out))

    @staticmethod
    def coq_case(case, obs):
        if 'harness' in obs:
            raise ValueError('harness: %s' % obs['harness'])
        return '{| s_invs := %s |}' % clist(State._coq_inv(o, ob) for o, ob in zip(case['invs'], obs['invs']))

    # ---------------------------------------------------------------- oracle
    @staticmethod
    def oracle(case, obs):
        if 'crash' in obs or 'harness' in obs:
            return None          # crash: the driver's uniform rule; harness: coq_case raises (broken correspondence)
        if 'died' in obs:
            return '[state/killed] the interpreter running the invocation sequence was killed by signal %s' % obs['died']
        msgs = []
        hp = obs.get('hidden_pristine') or {}
        for k, (o, ob) in enumerate(zip(case['invs'], obs['invs'])):
            tag = 'invocation %d (%s)' % (k + 1, ' '.join(_argv(o)))
            # --- no hidden state
            for when, h in (('starts with', ob['hidden_before']), ('leaves behind', ob['hidden_after'])):
                diff = [x for x in h if x in hp and h[x] != hp[x]]
                if diff:
                    what = 'regex-lists' if set(diff) <= {'excl', 'incl'} else 'extractor' if set(diff) <= {'dx', 'dx_conversions'} else 'module'
                    msgs.append('[state/leak/%s] %s %s module-level state that differs from the state at import: %s (now %s, at import %s)' % (
                        what, tag, when, ', '.join(diff), json.dumps(h[diff[0]])[:200], json.dumps(hp[diff[0]])[:200]))
                    break
            if obs.get('api_baseline') is not None and ob.get('api_after') != obs['api_baseline']:
                d_ = [x for x in obs['api_baseline'] if ob['api_after'].get(x) != obs['api_baseline'][x]] or sorted(ob['api_after'])
                msgs.append('[state/leak/api] after %s the plain API (parse_and_stack / default_extractor / default_meta_filter with all defaults) '
                            'behaves differently from a fresh process: %s is %s, fresh %s' % (
                                tag, d_[0], json.dumps(ob['api_after'].get(d_[0]))[:300], json.dumps(obs['api_baseline'].get(d_[0]))[:300]))
            # --- one file per group under a unique name
            seen = {}
            for di, dd in enumerate(ob['dirs']):
                for f in dd['files']:
                    if f['path'] in seen:
                        if seen[f['path']] != di:
                            msgs.append('[state/dest-dir-collision] %s: groups of two source directories (%s, %s) were both written to %s, one '
                                        'output is lost' % (tag, ob['dirs'][seen[f['path']]]['glob'], dd['glob'], f['path']))
                        else:
                            msgs.append('[state/name-collision] %s: two groups of one directory written to %s' % (tag, f['path']))
                    seen.setdefault(f['path'], di)
            # --- the API's data, affine and extension
            if ob['api_cmp']:
                msgs.append(ob['api_cmp'].replace('] ', '] %s: ' % tag, 1))
            # --- generator ground truth: which keys the options must let through
            if (o.get('embed_meta') or o.get('dump_meta')) and ob.get('markers'):
                for dd in ob['dirs']:
                    for f in dd['files']:
                        if not f.get('generated') or f.get('keys') is None:
                            continue
                        wrong = sorted(k_ for k_, want in ob['markers'].items() if (k_ in f['keys']) != want)
                        if wrong:
                            msgs.append('[state/keys] %s: the meta data of %s %s the key %s although the options say the opposite '
                                        '(extract-private %s, disabled translators %r, -e %s, -i %s)' % (
                                            tag, f['path'], 'has' if wrong[0] in f['keys'] else 'lacks', wrong[0], bool(o.get('extract_private')),
                                            o.get('disable_translator'), o.get('exclude_regex'), o.get('include_regex')))
                            break
            # --- independence of earlier invocations
            if ob['fresh_cmp'] and not ob['fresh_cmp'].startswith('HARNESS'):
                msgs.append(ob['fresh_cmp'].replace('] ', '] %s: ' % tag, 1))
        return _tagged(msgs)

    @staticmethod
    def signature(case, obs, msg):
        return _tag_of(msg)

    @staticmethod
    def _effective(o):
        return (tuple(o.get('exclude_regex') or ()), tuple(o.get('include_regex') or ()), bool(o.get('embed_meta')), bool(o.get('dump_meta')),
                bool(o.get('extract_private')), o.get('disable_translator'), o.get('voxel_order'), o.get('time_var'), o.get('vector_var'))

    @staticmethod
    def nontrivial(case, obs):
        if not isinstance(obs.get('invs'), list):
            return False
        ran = set()
        for o, ob in zip(case['invs'], obs['invs']):
            if ob.get('status') == 0 and any(dd['files'] for dd in ob['dirs']):
                ran.add(State._effective(o))
        return len(ran) >= 2

    @staticmethod
    def shrink(case):
        invs = case['invs']
        for i in range(len(invs)):
            if len(invs) > 1:
                c = dict(case)
                c['invs'] = invs[:i] + invs[i + 1:]
                yield c
        for j, ser in enumerate(case['dirs']):
            if not isinstance(ser, list):
                continue
            for i in range(len(ser)):
                if len(ser) > 1:
                    c = dict(case)
                    c['dirs'] = [list(x) if isinstance(x, list) else x for x in case['dirs']]
                    c['dirs'][j] = ser[:i] + ser[i + 1:]
                    yield c


# ================================================================================================ part: nitool

CLASSES = [['global', 'const'], ['global', 'slices'], ['time', 'samples'], ['time', 'slices'], ['vector', 'samples'], ['vector', 'slices']]


def _shape_of(S, T, V):
    return [2, 2, S] + ([T, V] if V > 1 else [T] if T > 1 else [])


def _class_table(S, T, V):
    """Ground truth from the documented format: the classifications valid for an image of S slices, T time points and V
    vector components, with the number of values each holds.  [[base, sub], n]"""
    nd = len(_shape_of(S, T, V))
    out = [(['global', 'const'], 1), (['global', 'slices'], S * T * V)]
    if nd >= 4 and not (nd == 5 and T == 1):
        out += [(['time', 'samples'], T * V), (['time', 'slices'], S)]
    if nd == 5:
        out += [(['vector', 'samples'], V), (['vector', 'slices'], S * T)]
    return out


def _make_nii(path, S, T, V=1, keys=None, embed=True, rows=2, cols=2):
    """A generated S x T x V series converted through the API and saved to `path`."""
    import nibabel as nb
    from props import stacklib
    core, cli, nit, extract, dcmmeta = _impl()
    files = _grid(S, T, V, rows, cols)
    st = core.DicomStack(time_order=core.DicomOrdering('EchoTime') if (T > 1 or V > 1) else None,
                         vector_order=core.DicomOrdering('FlipAngle') if V > 1 else None)
    for f in files:
        f['tags'].setdefault('EchoTime', 3.0)
        f['tags'].setdefault('FlipAngle', 30.0)
        f['tags']['RepetitionTime'] = 100.0
        if keys is not None:
            f['tags']['AcquisitionNumber'] = int(keys[f['cell'][1]])
        f['tags']['InstanceNumber'] = f['id'] + 1
        ds = stacklib.build_ds(f)
        with _quiet():
            st.add_dcm(ds)
    with _quiet():
        nii = st.to_nifti('LAS', embed)
    nb.save(nii, path)
    return nii


def _class_dicts(j, table):
    """the class dictionaries of a parsed extension for the classes of `table` (missing ones as {})"""
    return {'/'.join(c): dict(((j or {}).get(c[0]) or {}).get(c[1]) or {}) for c, n in table}


def _lib_view(path, dcmmeta):
    """what the LIBRARY says about the file's extension (input of the Coq model of inject; cross-checked with the table)"""
    import nibabel as nb
    e = dcmmeta.NiftiWrapper(nb.load(path, mmap=False), make_empty=True).meta_ext
    vc = [list(c) for c in e.get_valid_classes()]
    return {'valid': vc, 'mult': [[c, int(e.get_multiplicity(tuple(c)))] for c in vc],
            'keys': [[c, list(e.get_class_dict(tuple(c)).keys())] for c in vc]}


def _run_nitool(argv, res=None, target=None):
    core, cli, nit, extract, dcmmeta = _impl()
    _progress(res, {'argv': argv, 'file': target})
    rc, raised = None, None
    with _quiet() as (so, se):
        try:
            rc = nit.main(['nitool'] + argv)
        except SystemExit as e:
            rc = 'exit:%s' % (e.code,)
        except Exception as e:
            raised = {'err': _err(e), 'cls': type(e).__name__, 'msg': str(e)[:200]}
    _progress(res, None)
    return {'rc': rc, 'raised': raised, 'stdout': so.getvalue(), 'refused': bool(raised) or rc not in (0, None)}


def _py_convert(values, ty):
    """Independent statement of what `inject` must store (property text: exactly the given values)."""
    def conv(f):
        return [f(v) for v in values]
    if ty is None:
        try:
            l = conv(int)
        except ValueError:
            try:
                l = conv(float)
            except ValueError:
                l = list(values)
    else:
        l = conv({'int': int, 'float': float, 'str': str}[ty])
    return l[0] if len(l) == 1 else l


def _same_value(a, b):
    if type(a) is not type(b):
        return False
    if isinstance(a, list):
        return len(a) == len(b) and all(_same_value(x, y) for x, y in zip(a, b))
    return a == b


def _stored_lit(v):
    def iv(x):
        if isinstance(x, bool):
            raise ValueError('bool')
        if isinstance(x, int):
            return '(IVInt %s)' % cz(x)
        if isinstance(x, float):
            if x != x or x in (float('inf'), float('-inf')):
                raise ValueError('non-finite')
            return '(IVFloat (FFin %s))' % cq(x)
        if isinstance(x, str):
            return '(IVStr %s)' % cstr(x)
        raise ValueError('not a value inject can store: %r' % (x,))
    if isinstance(v, list):
        return '(SList %s)' % clist(iv(x) for x in v)
    return '(SScalar %s)' % iv(v)


def _geom(path):
    s = _file_summary(path)
    return {k: s.get(k) for k in ('shape', 'dtype', 'data', 'affine', 'pixdim', 'unreadable')}


class Nitool:
    NAME = "nitool"
    CORR_REQUIRE = "From DV Require Import Common.PyNum Generated.T_cli Cli.Model Cli.Corr."
    CORR_CASE_TYPE = "Corr.nitool_case"
    CORR_CHECK = "Corr.check_nitool"
    CORR_SHOW = "Corr.show_nitool"
    SHARD = 60
    IMPL_TIMEOUT = 150
    RULE = ("generated 3-D / 4-D / 5-D NIfTI files with embedded extension (1-3 slices, 1-3 time points, 1-2 vector components; "
            "compressed .nii.gz with 2x2 pixels or UNCOMPRESSED .nii with 96x96 pixels, which nibabel memory maps), every case in "
            "its own interpreter: dump then embed (file / stdout, with and without --remove, --make-empty on files without extension), "
            "split along every dimension (default names and --output-format), merge of shuffled parts along dimensions 2-4 with and "
            "without --sort (ties included), --clear-slices and a format string as output name, lookup with and without index of "
            "constant / per-slice / per-volume keys including planted falsy values, inject with valid / invalid classification, "
            "right / wrong value count, new / existing key with and without --force-overwrite, --type, and HISTORIES of 3-6 such "
            "commands on one file; non-trivial = inject, a history, a merge with --sort, a lookup of a falsy value, or any command "
            "that rewrites an uncompressed file")

    @staticmethod
    def _dims(rng):
        S, T = rng.randrange(1, 4), rng.choice([1, 2, 3])
        V = rng.choice([1, 1, 1, 2])
        return S, T, V

    @staticmethod
    def gen_cases(rng, tier):
        n = 150 if tier == 'quick' else 1500
        out = [  # the F22 / F24 situations: commands that save onto the (memory mapped) file they loaded
            {'kind': 'inject', 'S': 3, 'T': 2, 'V': 1, 'gz': False, 'cls': ['global', 'const'], 'key': 'NewKey', 'values': ['5'], 'type': None, 'force': False},
            {'kind': 'dump-embed', 'S': 3, 'T': 2, 'V': 1, 'gz': False, 'stdout': False, 'remove': True, 'noext': False, 'make_empty': False},
            {'kind': 'dump-embed', 'S': 3, 'T': 2, 'V': 1, 'gz': False, 'stdout': False, 'remove': False, 'noext': False, 'make_empty': False}]
        for i in range(n):
            r = rng.random()
            S, T, V = Nitool._dims(rng)
            gz = rng.random() < 0.6
            if r < 0.4:
                table = _class_table(S, T, V)
                valid = [c for c, m in table]
                cls = rng.choice(valid if rng.random() < 0.8 else CLASSES + [['foo', 'bar'], ['global', 'samples'], ['const', 'global']])
                mult = dict(('/'.join(c), m) for c, m in table).get('/'.join(cls), rng.randrange(1, 4))
                cnt = mult if rng.random() < 0.8 else max(1, mult + rng.choice([-1, 1, 2]))
                key = rng.choice(['NewKey', 'NewKey', 'Other', 'EchoTime', 'RepetitionTime', 'Rows', 'InstanceNumber', 'FlipAngle'])
                vt = rng.choice(['int', 'int', 'float', 'word', 'mixed'])
                vals = []
                for j in range(cnt):
                    t = vt if vt != 'mixed' else rng.choice(['int', 'float', 'word'])
                    vals.append({'int': str(rng.randrange(0, 500)), 'float': '%d.%d' % (rng.randrange(0, 50), rng.randrange(0, 100)),
                                 'word': rng.choice(['abc', 'x1', '1e', 'T2', '1_0', '0x10', ' 7', '1.5.2'])}[t])
                ty = rng.choice([None, None, None, 'int', 'float', 'str', 'bogus'])
                out.append({'kind': 'inject', 'S': S, 'T': T, 'V': V, 'gz': gz, 'cls': cls, 'key': key, 'values': vals, 'type': ty,
                            'force': rng.random() < 0.5})
            elif r < 0.52:
                noext = rng.random() < 0.25
                out.append({'kind': 'dump-embed', 'S': S, 'T': T, 'V': V, 'gz': gz, 'stdout': rng.random() < 0.3, 'remove': rng.random() < 0.5,
                            'noext': noext, 'make_empty': noext and rng.random() < 0.6})
            elif r < 0.62:
                nd = len(_shape_of(S, T, V))
                dim = rng.choice([None, None] + list(range(nd)) + [nd])
                fmt = None
                if dim == 3 and T > 1 and V == 1 and rng.random() < 0.6:
                    fmt = 'sub/t_%(EchoTime)s' + ('.nii.gz' if gz else '.nii')
                out.append({'kind': 'split', 'S': S, 'T': T, 'V': V, 'gz': gz, 'dim': dim, 'fmt': fmt})
            elif r < 0.72:
                nv = rng.randrange(2, 5)
                dim = rng.choice([3, 3, 3, None, 2, 4])
                keys = [rng.randrange(1, 4) for _ in range(nv)] if rng.random() < 0.6 else rng.sample(range(1, 20), nv)
                out.append({'kind': 'merge', 'S': S, 'nv': nv, 'keys': keys, 'sort': rng.random() < 0.7 and dim in (3, None), 'clear': rng.random() < 0.3,
                            'dim': dim, 'gz': gz, 'perm': rng.sample(range(nv), nv) if rng.random() < 0.5 else list(range(nv)),
                            'fmt': rng.random() < 0.3})
            elif r < 0.86:
                consts = ['EchoTime', 'RepetitionTime', 'Rows', 'Nope', 'ZeroInt', 'ZeroFloat', 'EmptyStr', 'EmptyList', 'FalseVal',
                          'NullVal', 'OneInt', 'ZeroInt', 'EmptyStr', 'ZeroFloat']
                varying = ['InstanceNumber', 'SliceInts', 'SliceStrs', 'SliceFloats'] + (['VolFloats', 'VolStrs', 'VolInts', 'EchoTime'] if T > 1 and V == 1 else [])
                shape = _shape_of(S, T, V)
                if rng.random() < 0.45:
                    key, index = rng.choice(consts), rng.choice([None, None, [0] * len(shape)])
                else:
                    key = rng.choice(varying)
                    index = [rng.randrange(x) for x in shape]
                    if rng.random() < 0.1:
                        index = None
                out.append({'kind': 'lookup', 'S': S, 'T': T, 'V': V, 'gz': gz, 'key': key, 'index': index})
            else:
                table = _class_table(S, T, V)
                ops = []
                for j in range(rng.randrange(3, 7)):
                    q = rng.random()
                    if q < 0.55:
                        c, m = rng.choice(table if rng.random() < 0.85 else [(['foo', 'bar'], 1)])
                        cnt = m if rng.random() < 0.85 else m + 1
                        ops.append(['inject', c, rng.choice(['K1', 'K2', 'K1', 'Rows']), [str(rng.randrange(0, 50)) for _ in range(cnt)],
                                    rng.random() < 0.5])
                    elif q < 0.8:
                        ops.append(['lookup', rng.choice(['K1', 'K2', 'Nope', 'Rows'])])
                    elif q < 0.9:
                        ops.append(['dump-embed'])
                    else:
                        ops.append(['dump-remove-embed'])
                out.append({'kind': 'history', 'S': S, 'T': T, 'V': V, 'gz': gz, 'ops': ops})
        return out

    # ------------------------------------------------------------------------------------ run
    @staticmethod
    def run_impl(case):
        return _in_child('nitool', case, 65)

    @staticmethod
    def _run_case(case, res=None):
        core, cli, nit, extract, dcmmeta = _impl()
        _case_start('nitool/' + case['kind'])
        cwd0 = os.getcwd()
        d = _scratch()
        before = _hidden_state()
        try:
            os.chdir(d)
            obs = getattr(Nitool, '_' + case['kind'].replace('-', '_'))(case, dcmmeta, res)
            obs['globals_same'] = before == _hidden_state()
            return obs
        finally:
            os.chdir(cwd0)
            shutil.rmtree(d, ignore_errors=True)

    @staticmethod
    def _file(case, stem='in'):
        gz = case.get('gz', True)
        return stem + ('.nii.gz' if gz else '.nii'), ({} if gz else {'rows': 96, 'cols': 96})

    @staticmethod
    def _inject(case, dcmmeta, res):
        path, px = Nitool._file(case)
        S, T, V = case['S'], case['T'], case.get('V', 1)
        table = _class_table(S, T, V)
        _make_nii(path, S, T, V, **px)
        os.utime(path, (10 ** 9, 10 ** 9))
        lib0 = _lib_view(path, dcmmeta)
        d0 = _class_dicts(_raw_ext(path), table)
        g0 = _geom(path)
        argv = ['inject', path] + case['cls'] + [case['key']] + case['values']
        if case['force']:
            argv.insert(1, '-f')
        if case['type'] is not None:
            argv[1:1] = ['-t', case['type']]
        r = _run_nitool(argv, res, path)
        saved = os.stat(path).st_mtime_ns != 10 ** 18
        g1 = _geom(path)
        d1 = _class_dicts(_raw_ext(path), table) if not g1.get('unreadable') else {}
        try:
            lib1 = _lib_view(path, dcmmeta)
        except Exception:
            lib1 = {'keys': []}
        ck = '/'.join(case['cls'])
        return dict(r, saved=saved, lib0=lib0, keys_after=lib1['keys'], dicts_before=d0, dicts_after=d1,
                    has_value=case['key'] in d1.get(ck, {}), value_after=d1.get(ck, {}).get(case['key']),
                    image_same=g0 == g1, unreadable=g1.get('unreadable'))

    @staticmethod
    def _dump_embed(case, dcmmeta, res):
        path, px = Nitool._file(case, 'b')
        S, T, V = case['S'], case['T'], case.get('V', 1)
        _make_nii(path, S, T, V, embed=not case.get('noext'), **px)
        e0, g0 = _raw_ext(path), _geom(path)
        rm = ['-r'] if case['remove'] else []
        me = ['-m'] if case.get('make_empty') else []
        if case['stdout']:
            r1 = _run_nitool(['dump'] + rm + me + [path], res, path)
            open('m.json', 'w').write(r1['stdout'])
        else:
            r1 = _run_nitool(['dump'] + rm + me + [path, 'm.json'], res, path)
        try:
            dumped = json.loads(open('m.json').read())
        except (OSError, ValueError):
            dumped = None
        e_mid, g_mid = (_raw_ext(path), _geom(path))
        r2 = None
        if not r1['refused']:
            r2 = _run_nitool(['embed'] + ([] if (case['remove'] or case.get('noext')) else ['-f']) + ['m.json', path], res, path)
        e1, g1 = (_raw_ext(path) if not _geom(path).get('unreadable') else None), _geom(path)
        return {'r1': r1, 'r2': r2, 'ext_before': e0, 'dumped': dumped, 'mid_has_ext': e_mid is not None, 'mid_geom_same': g_mid == g0,
                'ext_after': e1, 'geom_same': g1 == g0, 'unreadable': g1.get('unreadable') or g_mid.get('unreadable')}

    @staticmethod
    def _split(case, dcmmeta, res):
        import nibabel as nb
        os.makedirs('sub')
        name, px = Nitool._file(case)
        src = 'sub/' + name
        S, T, V = case['S'], case['T'], case.get('V', 1)
        _make_nii(src, S, T, V, **px)
        argv = ['split'] + (['-d', str(case['dim'])] if case['dim'] is not None else []) + (['-o', case['fmt']] if case.get('fmt') else []) + [src]
        r = _run_nitool(argv, res, src)
        names = sorted(p for p in _listing(['sub']) if p != src)
        got = [_file_summary(p) for p in names]
        try:
            with _quiet():
                want = [_mem_summary(s.nii_img) for s in dcmmeta.NiftiWrapper(nb.load(src, mmap=False)).split(case['dim'])]
            api_raised = None
        except Exception as e:
            want, api_raised = None, type(e).__name__
        exp_names = None
        if want is not None:
            if case.get('fmt'):      # ground truth: the time split of the generated series has EchoTime 2 + 3t
                exp_names = sorted(case['fmt'] % {'EchoTime': float(2 + 3 * t)} for t in range(T))
            else:
                exp_names = ['sub/%03d-%s' % (i, name) for i in range(len(want))]
        by_name = None
        if want is not None and len(got) == len(want):
            order = names if not case.get('fmt') else [case['fmt'] % {'EchoTime': float(2 + 3 * t)} for t in range(T)]
            by = dict(zip(names, got))
            by_name = [[x for x in w if by.get(nm, {}).get(x) != w[x]] for nm, w in zip(order, want)]
        return dict(r, names=names, exp_names=exp_names, n_api=None if want is None else len(want), api_raised=api_raised,
                    diff=by_name, src_same=_file_summary(src).get('unreadable') is None)

    @staticmethod
    def _merge(case, dcmmeta, res):
        import nibabel as nb, numpy as np
        nv, S, dim = case['nv'], case['S'], case['dim']
        sdim = 3 if dim is None else dim
        sfx = '.nii.gz' if case.get('gz', True) else '.nii'
        # a series with nv parts along the merge dimension
        if sdim == 2:
            _make_nii('all' + sfx, nv, 1, 1)
        elif sdim == 3:
            _make_nii('all' + sfx, S, nv, 1, keys=case['keys'])
        else:
            _make_nii('all' + sfx, S, 2, nv)
        with _quiet():
            vols = list(dcmmeta.NiftiWrapper(nb.load('all' + sfx, mmap=False)).split(sdim))
        paths = []
        for i, v in enumerate(vols):
            p = 'v%d%s' % (i, sfx)
            v.to_filename(p)
            paths.append(p)
        hashes = [hashlib.sha1(np.ascontiguousarray(np.asanyarray(nb.load(p, mmap=False).dataobj)).tobytes()).hexdigest() for p in paths]
        given = [paths[i] for i in (case.get('perm') or range(len(paths))) if i < len(paths)]
        outname = ('m_%(RepetitionTime)s' + sfx) if case.get('fmt') else 'out' + sfx
        argv = ['merge'] + (['-d', str(dim)] if dim is not None else []) + (['-s', 'AcquisitionNumber'] if case['sort'] else []) \
            + (['-c'] if case['clear'] else []) + [outname] + given
        r = _run_nitool(argv, res, None)
        produced = sorted(p for p in _listing(['.']) if p[2:] not in set(paths) | {'all' + sfx})
        order, diff, api_raised, want = None, None, None, None
        try:
            with _quiet():
                seq = [dcmmeta.NiftiWrapper(nb.load(p, mmap=False)) for p in given]
                if case['sort']:
                    seq.sort(key=lambda w: w.get_meta('AcquisitionNumber'))
                want = dcmmeta.NiftiWrapper.from_sequence(seq, dim)
                if case['clear']:
                    want.meta_ext.clear_slice_meta()
        except Exception as e:
            want, api_raised = None, type(e).__name__
        exp_name = './' + (outname % {'RepetitionTime': 100.0} if case.get('fmt') else outname)
        if want is not None and exp_name in produced:
            g = _file_summary(exp_name)
            w = _mem_summary(want.nii_img)
            diff = [x for x in w if g.get(x) != w[x]]
            if not g.get('unreadable'):
                data = np.asanyarray(nb.load(exp_name, mmap=False).dataobj)
                if sdim == 3 and data.ndim == 4 and data.shape[3] == len(given):
                    hg = [hashes[paths.index(q)] for q in given]
                    order = []
                    for t in range(len(given)):
                        h = hashlib.sha1(np.ascontiguousarray(data[..., t]).tobytes()).hexdigest()
                        order.append(hg.index(h) if h in hg else -1)
        return dict(r, order=order, diff=diff, api_raised=api_raised, produced=produced, exp_name=exp_name,
                    given_keys=[case['keys'][paths.index(p)] if sdim == 3 else 0 for p in given])

    @staticmethod
    def _plant(path, S, T, V, dcmmeta):
        """keys with falsy values (constants, per slice, per volume), put in through the API"""
        import nibabel as nb
        w = dcmmeta.NiftiWrapper(nb.load(path, mmap=False))
        e = w.meta_ext
        e.get_class_dict(('global', 'const')).update({'ZeroInt': 0, 'ZeroFloat': 0.0, 'EmptyStr': '', 'EmptyList': [], 'FalseVal': False,
                                                        'NullVal': None, 'OneInt': 1})
        ns = S * T * V
        gs = e.get_class_dict(('global', 'slices'))
        truth = {'SliceInts': [i % 2 for i in range(ns)], 'SliceStrs': ['' if i % 2 == 0 else 's%d' % i for i in range(ns)],
                 'SliceFloats': [0.0 if i % 3 == 0 else i / 2.0 for i in range(ns)]}
        gs.update(truth)
        if T > 1 and V == 1:
            ts = e.get_class_dict(('time', 'samples'))
            tv = {'VolFloats': [0.0 if i % 2 == 0 else 1.5 for i in range(T)], 'VolStrs': ['' if i % 2 == 0 else 'v' for i in range(T)],
                  'VolInts': [0 if i % 2 == 1 else 7 for i in range(T)]}
            ts.update(tv)
            truth.update(tv)
        e.check_valid()
        w.to_filename(path)
        return truth

    @staticmethod
    def _truth_lookup(case, planted):
        """ground truth for the planted keys (None = not judged from the generator's side: keys of the converted series)"""
        key, idx = case['key'], case['index']
        S, T, V = case['S'], case['T'], case.get('V', 1)
        consts = {'ZeroInt': 0, 'ZeroFloat': 0.0, 'EmptyStr': '', 'EmptyList': [], 'FalseVal': False, 'NullVal': None, 'OneInt': 1, 'Nope': None}
        if key in consts:
            return ('known', consts[key])
        if key in planted:
            if idx is None:
                return ('known', None)
            if key.startswith('Slice'):
                t = idx[3] if len(idx) > 3 else 0
                v = idx[4] if len(idx) > 4 else 0
                return ('known', planted[key][idx[2] + S * (t + T * v)])
            return ('known', planted[key][idx[3]])
        return ('unknown', None)

    @staticmethod
    def _lookup(case, dcmmeta, res):
        path, px = Nitool._file(case)
        S, T, V = case['S'], case['T'], case.get('V', 1)
        _make_nii(path, S, T, V, **px)
        planted = Nitool._plant(path, S, T, V, dcmmeta)
        argv = ['lookup'] + (['-i', ','.join(str(x) for x in case['index'])] if case['index'] is not None else []) + [case['key'], path]
        r = _run_nitool(argv, res, None)
        api, api_raised, v = None, None, None
        try:
            v = dcmmeta.NiftiWrapper.from_filename(path).get_meta(case['key'], None if case['index'] is None else tuple(case['index']))
            api = None if v is None else str(v)
        except Exception as ex:
            api_raised = type(ex).__name__
        how, tv = Nitool._truth_lookup(case, planted)
        buf = io.StringIO()
        val = tv if how == 'known' else v
        if val is not None:
            print(val, file=buf)            # `print(v)` unless v is None: '0', '0.0', 'False', '[]', an EMPTY LINE for ''
        return dict(r, api=api, api_repr=None if api_raised else repr(v), api_raised=api_raised, truth=how, truth_repr=repr(tv),
                    want=None if (how == 'unknown' and api_raised) else buf.getvalue(), api_agrees=(how == 'unknown' or api_raised or _same_value(v, tv)))

    @staticmethod
    def _history(case, dcmmeta, res):
        path, px = Nitool._file(case, 'h')
        S, T, V = case['S'], case['T'], case.get('V', 1)
        table = _class_table(S, T, V)
        mult = dict(('/'.join(c), m) for c, m in table)
        _make_nii(path, S, T, V, **px)
        g0 = _geom(path)
        expect = _class_dicts(_raw_ext(path), table)          # ground truth, updated by the harness per the property text
        steps = []
        for op in case['ops']:
            st = {'op': op}
            if op[0] == 'inject':
                _, cls, key, values, force = op
                ck = '/'.join(cls)
                exists = [c for c in expect if key in expect[c]]
                ok = ck in mult and len(values) == mult[ck] and (not exists or force)
                r = _run_nitool(['inject'] + (['-f'] if force else []) + [path] + cls + [key] + values, res, path)
                if ok:
                    for c in exists:
                        del expect[c][key]
                    expect[ck][key] = _py_convert(values, None)
                st.update(refused=r['refused'], should=ok)
            elif op[0] == 'lookup':
                r = _run_nitool(['lookup', op[1], path], res, None)
                v = expect['global/const'].get(op[1])
                buf = io.StringIO()
                if v is not None:
                    print(v, file=buf)
                st.update(refused=r['refused'], stdout=r['stdout'], want=buf.getvalue())
            else:
                rm = op[0] == 'dump-remove-embed'
                r1 = _run_nitool(['dump'] + (['-r'] if rm else []) + [path, 'h.json'], res, path)
                r2 = _run_nitool(['embed'] + ([] if rm else ['-f']) + ['h.json', path], res, path)
                st.update(refused=r1['refused'] or r2['refused'])
            g = _geom(path)
            st['geom_same'] = g == g0
            st['unreadable'] = g.get('unreadable')
            now = _class_dicts(_raw_ext(path), table) if not g.get('unreadable') else None
            st['ext_as_expected'] = now is not None and all(set(now[c]) == set(expect[c]) and all(_same_value(now[c][k], expect[c][k]) for k in expect[c]) for c in expect)
            if not st['ext_as_expected'] and now is not None:
                st['ext_diff'] = [[c, sorted(set(now[c]) ^ set(expect[c])) or [k for k in expect[c] if not _same_value(now[c][k], expect[c][k])]] for c in expect
                                  if set(now[c]) != set(expect[c]) or any(not _same_value(now[c][k], expect[c][k]) for k in expect[c])][:2]
            steps.append(st)
        return {'steps': steps}

    # ------------------------------------------------------------------------------------ Coq
    @staticmethod
    def coq_case(case, obs):
        if 'harness' in obs:
            raise ValueError('harness: %s' % obs['harness'])
        if 'died' in obs or 'crash' in obs:
            return 'NCOracleOnly'
        k = case['kind']
        cl = lambda c: cpair(cstr(c[0]), cstr(c[1]))
        if k == 'inject':
            va = 'None'
            if obs['has_value']:
                try:
                    va = '(Some %s)' % _stored_lit(obs['value_after'])
                except ValueError:
                    va = 'None'
            return ('(NCInject {| j_valid := %s; j_mult := %s; j_keys := %s; j_cls := %s; j_key := %s; j_values := %s; j_type := %s; '
                    'j_force := %s; j_refused := %s; j_saved := %s; j_keys_after := %s; j_value_after := %s |})') % (
                clist(cl(c) for c in obs['lib0']['valid']), clist(cpair(cl(c), cnat(m)) for c, m in obs['lib0']['mult']),
                clist(cpair(cl(c), clist(cstr(x) for x in ks)) for c, ks in obs['lib0']['keys']), cl(case['cls']), cstr(case['key']),
                clist(cstr(v) for v in case['values']), copt(case['type'], cstr), cbool(case['force']), cbool(obs['refused']), cbool(obs['saved']),
                clist(cpair(cl(c), clist(cstr(x) for x in ks)) for c, ks in obs['keys_after']), va)
        if k == 'split' and not obs['refused'] and not case.get('fmt'):
            return '(NCSplitNames %s %s %s)' % (cstr('sub/' + Nitool._file(case)[0]), cnat(len(obs['names'])), clist(cstr(n) for n in obs['names']))
        if k == 'lookup' and not obs.get('api_raised') and not obs['refused']:
            return '(NCLookup %s %s %s)' % (copt(None if case['index'] is None else ','.join(str(x) for x in case['index']), cstr),
                                            copt(obs['api'], cstr), cstr(obs['stdout']))
        if k == 'merge' and obs.get('order') is not None and -1 not in obs['order']:
            return '(NCMergeOrder %s %s %s)' % (cbool(bool(case['sort'])), clist(cz(x) for x in obs['given_keys']), clist(cnat(x) for x in obs['order']))
        return 'NCOracleOnly'

    # ------------------------------------------------------------------------------------ oracle
    @staticmethod
    def oracle(case, obs):
        if 'crash' in obs or 'harness' in obs:
            return None
        k = case['kind']
        if 'died' in obs:
            p = obs.get('progress') or {}
            return '[nitool/%s/killed] `nitool %s` killed the interpreter (signal %s)%s' % (
                k, ' '.join(p.get('argv') or []), obs['died'], ' while rewriting the file it had loaded (%s)' % p['file'] if p.get('file') else '')
        msgs = []
        if obs.get('globals_same') is False:
            msgs.append('[nitool/state-leak] a nitool invocation changed module-level state')
        if k == 'inject':
            S, T, V = case['S'], case['T'], case.get('V', 1)
            table = _class_table(S, T, V)
            ck = '/'.join(case['cls'])
            mult = dict(('/'.join(c), m) for c, m in table)
            if [c for c, m in table] != obs['lib0']['valid'] or [[c, m] for c, m in table] != obs['lib0']['mult']:
                msgs.append('[nitool/inject/table] the library reports classifications %s for an image of shape %s, the format says %s' % (
                    obs['lib0']['mult'], _shape_of(S, T, V), table))
            d0, d1 = obs['dicts_before'], obs['dicts_after']
            key_before = [c for c in d0 if case['key'] in d0[c]]
            should = ck in mult and len(case['values']) == mult[ck] and (not key_before or case['force'])
            conv_ok, want = True, None
            if should:
                try:
                    want = _py_convert(case['values'], case['type'])
                except (ValueError, KeyError):
                    conv_ok = False
            if obs.get('unreadable'):
                msgs.append('[nitool/inject/file-destroyed] after inject the file cannot be read any more (%s)' % obs['unreadable'])
            elif not obs['image_same']:
                msgs.append('[nitool/inject/image] inject changed the image data or geometry')
            else:
                others = all({kk: vv for kk, vv in d0[c].items() if kk != case['key']} == {kk: vv for kk, vv in d1.get(c, {}).items() if kk != case['key']} for c in d0)
                if not others:
                    msgs.append('[nitool/inject/other-keys] inject changed the value of a key other than %r' % case['key'])
                if not (should and conv_ok):
                    if obs['saved'] or d1 != d0:
                        why = ('classification %s is not valid for this image' % (case['cls'],) if ck not in mult else
                               '%d values given, the classification holds %s' % (len(case['values']), mult[ck]) if len(case['values']) != mult[ck] else
                               'the key exists and --force-overwrite was not given' if not should else 'the values do not convert to --type')
                        msgs.append('[nitool/inject/not-refused] inject rewrote the file although %s' % why)
                elif obs['refused']:
                    msgs.append('[nitool/inject/refused] inject with a valid classification, %d values (the classification holds %s), key %s%s was refused: rc=%r %r' % (
                        len(case['values']), mult[ck], 'existing' if key_before else 'new', ' (forced)' if case['force'] else '', obs['rc'], obs['raised']))
                elif not obs['saved'] or not obs['has_value']:
                    msgs.append('[nitool/inject/not-stored] inject reported success but the key is not in the file')
                elif not _same_value(obs['value_after'], want):
                    msgs.append('[nitool/inject/value] inject stored %r under %s/%s, the given values are %r' % (obs['value_after'], ck, case['key'], want))
                elif [c for c in d1 if c != ck and case['key'] in d1[c]]:
                    msgs.append('[nitool/inject/twice] after inject the key is also classified as %s' % [c for c in d1 if c != ck and case['key'] in d1[c]])
        elif k == 'dump-embed':
            r1, r2 = obs['r1'], obs['r2']
            if obs.get('unreadable'):
                msgs.append('[nitool/dump-embed/file-destroyed] after dump%s / embed the file cannot be read any more (%s)' % (' -r' if case['remove'] else '', obs['unreadable']))
            elif case.get('noext') and not case.get('make_empty'):
                if not r1['refused']:
                    msgs.append('[nitool/dump/no-extension] dump of a file without extension (no --make-empty) was not refused')
            elif r1['refused']:
                msgs.append('[nitool/dump/refused] nitool dump failed: rc=%r %r' % (r1['rc'], r1['raised']))
            else:
                if not case.get('noext') and obs['dumped'] != obs['ext_before']:
                    msgs.append('[nitool/dump/content] nitool dump did not write the JSON of the extension')
                if case.get('noext') and not (isinstance(obs['dumped'], dict) and not _ext_keys(obs['dumped'])):
                    msgs.append('[nitool/dump/make-empty] dump --make-empty of a file without extension did not write an empty extension')
                if not obs['mid_geom_same']:
                    msgs.append('[nitool/dump/image] dump changed the image')
                if not case.get('noext') and case['remove'] == obs['mid_has_ext']:
                    msgs.append('[nitool/dump/remove] dump %s: extension %s afterwards' % ('-r' if case['remove'] else 'without -r', 'present' if obs['mid_has_ext'] else 'missing'))
                if r2 is None or r2['refused']:
                    msgs.append('[nitool/embed/refused] nitool embed failed: %r' % (r2,))
                elif obs['ext_after'] != obs['dumped'] or not obs['geom_same']:
                    msgs.append('[nitool/dump-embed/roundtrip] dump followed by embed does not reproduce the %s' % ('extension' if obs['geom_same'] else 'image'))
        elif k == 'split':
            if obs['api_raised']:
                if not obs['refused']:
                    msgs.append('[nitool/split/not-refused] the API split raises %s, nitool split ended with rc=%r' % (obs['api_raised'], obs['rc']))
            elif obs['refused']:
                msgs.append('[nitool/split/refused] nitool split failed (%r %r) although the API split works' % (obs['rc'], obs['raised']))
            elif len(obs['names']) != obs['n_api']:
                msgs.append('[nitool/split/count] nitool split wrote %d files, the API split yields %d parts' % (len(obs['names']), obs['n_api']))
            elif sorted(obs['names']) != sorted(obs['exp_names']):
                msgs.append('[nitool/split/names] nitool split wrote %s, expected %s' % (obs['names'], obs['exp_names']))
            elif obs['diff'] is None or any(obs['diff']):
                msgs.append('[nitool/split/content] nitool split files differ from the API split results in %s' % (obs['diff'],))
            elif not obs['src_same']:
                msgs.append('[nitool/split/source] the source file is unreadable after the split')
        elif k == 'merge':
            if obs['api_raised']:
                if not obs['refused'] or obs['exp_name'] in obs['produced']:
                    msgs.append('[nitool/merge/not-refused] NiftiWrapper.from_sequence raises %s, nitool merge ended with rc=%r and wrote %s' % (
                        obs['api_raised'], obs['rc'], obs['produced']))
            elif obs['refused']:
                msgs.append('[nitool/merge/refused] nitool merge failed: rc=%r %r' % (obs['rc'], obs['raised']))
            elif obs['produced'] != [obs['exp_name']]:
                msgs.append('[nitool/merge/name] nitool merge wrote %s, expected %s' % (obs['produced'], obs['exp_name']))
            elif obs['diff']:
                msgs.append('[nitool/merge/content] nitool merge output differs from NiftiWrapper.from_sequence in %s' % (obs['diff'],))
        elif k == 'lookup':
            if not obs['api_agrees']:
                msgs.append('[nitool/lookup/api] get_meta returns %s for a planted key whose value is %s' % (obs['api_repr'], obs['truth_repr']))
            if obs['want'] is None:
                if not obs['refused']:
                    msgs.append('[nitool/lookup/not-refused] get_meta raises %s but nitool lookup printed %r' % (obs['api_raised'], obs['stdout']))
            elif obs['refused']:
                msgs.append('[nitool/lookup/refused] nitool lookup failed: %r %r' % (obs['rc'], obs['raised']))
            elif obs['stdout'] != obs['want']:
                msgs.append('[nitool/lookup/output] nitool lookup %s%s printed %r, but the value is %s, i.e. print() gives %r' % (
                    case['key'], '' if case['index'] is None else ' -i ' + ','.join(str(x) for x in case['index']),
                    obs['stdout'], obs['truth_repr'] if obs['truth'] == 'known' else obs['api_repr'], obs['want']))
        elif k == 'history':
            for i, st in enumerate(obs['steps']):
                what = 'step %d (%s)' % (i + 1, ' '.join(str(x) for x in st['op']))
                if st.get('unreadable'):
                    msgs.append('[nitool/history/file-destroyed] after %s the file cannot be read any more (%s)' % (what, st['unreadable']))
                    break
                if not st['geom_same']:
                    msgs.append('[nitool/history/image] %s changed the image' % what)
                if st['op'][0] == 'inject' and st['should'] == st['refused']:
                    msgs.append('[nitool/history/inject] %s was %s' % (what, 'refused although valid' if st['should'] else 'accepted although it must be refused'))
                if st['op'][0] == 'lookup' and (st['refused'] or st['stdout'] != st['want']):
                    msgs.append('[nitool/history/lookup] %s printed %r, the value injected earlier prints as %r' % (what, st.get('stdout'), st['want']))
                if st['op'][0].startswith('dump') and st['refused']:
                    msgs.append('[nitool/history/dump-embed] %s failed' % what)
                if not st['ext_as_expected']:
                    msgs.append('[nitool/history/extension] after %s the extension is not what the commands so far must have produced: %s' % (what, st.get('ext_diff')))
                if msgs:
                    break
        return _tagged(msgs)

    @staticmethod
    def signature(case, obs, msg):
        return _tag_of(msg)

    @staticmethod
    def nontrivial(case, obs):
        k = case['kind']
        rewrites_raw = not case.get('gz', True) and k in ('inject', 'dump-embed', 'history')
        return k in ('inject', 'history') or rewrites_raw or (k == 'merge' and case['sort']) or \
            (k == 'lookup' and obs.get('truth_repr') in ('0', '0.0', "''", '[]', 'False'))

    @staticmethod
    def shrink(case):
        if case['kind'] == 'history':
            for i in range(len(case['ops'])):
                if len(case['ops']) > 1:
                    c = dict(case)
                    c['ops'] = case['ops'][:i] + case['ops'][i + 1:]
                    yield c
        for f in ('S', 'T', 'V'):
            if case.get(f, 1) > 1 and case['kind'] in ('inject', 'dump-embed', 'history'):
                c = dict(case)
                c[f] = case[f] - 1
                if case['kind'] == 'inject':
                    continue         # the value count is tied to the shape
                yield c


PARTS = [Names, State, Nitool]

if __name__ == '__main__':
    _repo = os.environ.get('DCMSTACK_REPO', '/repo')
    sys.path.insert(0, os.path.join(_repo, 'src'))
    warnings.simplefilter('ignore')
    if len(sys.argv) == 4 and sys.argv[1] == 'fresh':
        _fresh_main(sys.argv[2], sys.argv[3])
    elif len(sys.argv) == 6 and sys.argv[1] == 'case':
        _child_main(sys.argv[2], sys.argv[3], sys.argv[4], sys.argv[5])


# source tie (integrator): make_key_regex_filter and its inner function are TRANSLATED from the Python AST on every run
# (tools/tables/t_src_filter.py -> Generated/T_src_filter.v) and Filter.Model.key_regex_filter is proved equal to the translation
COQ_PROPS = (list(COQ_PROPS) if isinstance(COQ_PROPS, (list, tuple)) else [COQ_PROPS]) + ['Props/SRCfilter.v']
THEOREMS = list(THEOREMS) + ['SRC_key_regex_filter', 'SRC_make_key_regex_filter']
TABLES = sorted(set(list(globals().get('TABLES') or []) + ['t_src_filter'])) if globals().get('TABLES') else None
TRUSTED_BASE = list(TRUSTED_BASE) + ['tools/tables/py2coq.py + t_src_filter.py: translator of make_key_regex_filter into Gallina (re.compile / search are parameters)']


# link (integrator): the abstract extension model (coq/Ext) is tied to the raw JSON content model (coq/Content, coq/Json,
# coq/Cli) through Link/Abs.v to_content / of_content; LinkPart compares to_content with the real _content on every run
from props import link as _link
COQ_PROPS = (list(COQ_PROPS) if isinstance(COQ_PROPS, (list, tuple)) else [COQ_PROPS]) + ['Props/C07link.v']
THEOREMS = list(THEOREMS) + ['C07_C19_inject_models_agree']
if globals().get('TABLES'): TABLES = sorted(set(list(TABLES) + _link.TABLES))
PARTS = list(PARTS) + [_link.LinkPart]
