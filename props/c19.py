"""C19 — the command-line tools do what the API does and keep no hidden state.

Three parts, all driving the REAL tools in-process (dcmstack_cli.main / nitool_cli.main) on tiny
generated DICOM / NIfTI files under $VERIF_WORK:
  names  : lists of natural names -> the file names dcmstack produces (the naming loop of main);
  state  : sequences of 2-4 dcmstack invocations with different options in ONE process; the API calls
           the tool makes are recorded (parse_and_group / stack_group / make_key_regex_filter /
           to_nifti arguments), the module default lists are read before and after every call, every
           written file is compared with the equivalent API calls and with the same invocation run
           first in a fresh sub-process;
  nitool : dump/embed, split, merge (--sort), lookup, inject.
The Coq side (Cli/Corr.v) runs the model on the same options and recorded environment."""
import os, sys, io, json, re, shutil, hashlib, contextlib, warnings, subprocess, itertools
from fractions import Fraction
from vlib.coqlit import *

ID = "C19"
COQ_PROPS = "Props/C19.v"
THEOREMS = ["C19_no_state", "C19_no_state_nitool", "C19_seq", "C19_args", "C19_filter", "C19_default_regexes",
            "C19_names", "C19_name_choice", "C19_names_main", "C19_paths_main", "C19_names_global", "C19_paths_global", "C19_one_per_group",
            "C19_inject", "C19_inject_effect", "C19_inject_unique",
            "C19_split", "C19_merge", "C19_merge_sorted", "C19_dump_embed", "C19_lookup", "C19_inject_file"]
ALLOWED_AXIOMS = []
TABLES = ["t_cli", "t_filter", "t_group", "t_extract"]
TRUSTED_BASE = [
    "argparse is not modelled: the model starts from the parsed namespace (`args` record); the harness builds the argv AND the record from the same option dict",
    "glob, open/readlines, os.path (join/split modelled for POSIX), the filesystem, nibabel load/save, pydicom: the environment answers are recorded from the real run and handed to the model as `inputs`",
    "the library behind the API calls (parse_and_group, stack_group, DicomStack.to_nifti, NiftiWrapper.split/from_sequence/get_meta, DcmMetaExtension.to_json/from_json) is abstract in the C19 theorems (Section variables); what the tools write is compared with those API calls differentially only",
    "Section variable `matches` standing for Python re.search (as in C14)",
    "Common/PyNum.v py_int / py_float as models of Python int() / float() for `nitool inject` value conversion",
    "recording wrappers installed by the harness around dcmstack_cli.glob / parse_and_group / stack_group, dcmstack.make_key_regex_filter, DicomStack.to_nifti, extract.MetaExtractor, Nifti1Image.to_filename (they delegate to the originals)",
]
ASSUMPTIONS = [
    "POSIX paths; natural names are non-empty text without backslash / control characters (pydicom strips trailing blanks of LO values: the harness feeds the model the names the tool really saw)",
    "SeriesNumber is an int and ProtocolName / SeriesDescription are strings when present (default name format)",
    "the suffix format is zero padded ('-%03d'): required by the injectivity proof, re-checked from the translated literal",
    "nitool inject: multiplicity-1 classifications store a scalar (convert_values unwraps single values) -- modelled as is; values are ASCII ints / decimals / words; --sort keys are ints",
    "nitool embed without --force-overwrite on a file that has an extension asks on stdin: modelled by the `confirm` input, not exercised",
    "C19_paths_global: the output extension contains no '/', and without --dest-dir the source directories are pairwise different "
    "directories (generated: d0, d1)",
]

# ------------------------------------------------------------------------------------------------ helpers

_CNT = itertools.count()
_PRISTINE = None
_PRISTINE_OBJ = {}
ERRMAP = {'InvalidStackError': 'EInvalidStack', 'IncongruentImageError': 'EIncongruent', 'ImageCollisionError': 'ECollision',
          'NonImageDataSetError': 'ENonImage', 'TypeError': 'EType', 'KeyError': 'EKey', 'ValueError': 'EValue',
          'IndexError': 'EIndex', 'AttributeError': 'EAttr', 'MissingExtensionError': 'EMissingExt',
          'InvalidExtensionError': 'EInvalidExt'}


def _err(e):
    return ERRMAP.get(type(e).__name__, 'ECrash')


def _scratch():
    base = os.environ.get('VERIF_WORK') or os.path.join(os.path.dirname(os.path.dirname(os.path.abspath(__file__))), 'work', 'C19')
    d = os.path.join(base, 'c19_%d_%d' % (os.getpid(), next(_CNT)))
    shutil.rmtree(d, ignore_errors=True)
    os.makedirs(d)
    return d


def _impl():
    """Import the implementation lazily; remember the module default lists as they were at import."""
    global _PRISTINE
    import dcmstack
    import dcmstack.dcmstack as core
    from dcmstack import dcmstack_cli, nitool_cli, extract, dcmmeta
    if _PRISTINE is None:
        _PRISTINE = (list(core.default_key_excl_res), list(core.default_key_incl_res))
        _PRISTINE_OBJ.update(dx=extract.default_extractor, flt=core.default_meta_filter,
                             dx_rules=extract.default_extractor.ignore_rules, dx_trans=extract.default_extractor.translators,
                             dx_conv=extract.default_extractor.conversions, group_keys=core.default_group_keys,
                             rules=extract.default_ignore_rules, trans=extract.default_translators)
        _PRISTINE_OBJ['hidden'] = _hidden_state()
    return core, dcmstack_cli, nitool_cli, extract, dcmmeta


def _hidden_state():
    """Everything module-level the tools could leave behind: the regex lists, the shared default extractor
    (its configuration and identity), the default filter, the default group keys / rule / translator tuples."""
    import dcmstack.dcmstack as core
    from dcmstack import extract
    dx = extract.default_extractor

    def rules(r):
        return [getattr(f, '__name__', repr(f)) for f in (r or [])]

    def trans(t):
        return [[x.name, int(x.tag.group), int(x.tag.elem)] for x in (t or [])]
    return {'excl': list(core.default_key_excl_res), 'incl': list(core.default_key_incl_res),
            'dx': {'kind': 'meta', 'ignore': rules(dx.ignore_rules), 'trans': trans(dx.translators)},
            'dx_same_object': dx is _PRISTINE_OBJ.get('dx', dx), 'dx_conversions_same': dx.conversions is _PRISTINE_OBJ.get('dx_conv', dx.conversions),
            'filter_same_object': core.default_meta_filter is _PRISTINE_OBJ.get('flt', core.default_meta_filter),
            'group_keys': list(core.default_group_keys), 'rules': rules(extract.default_ignore_rules),
            'translators': trans(extract.default_translators)}


def _case_start():
    """Every case starts from the module state at import (as if it ran in its own process), so that a case
    is self-contained and replayable; nothing is reset BETWEEN the invocations of a case."""
    core, cli, nit, extract, dcmmeta = _impl()
    core.default_key_excl_res[:] = _PRISTINE[0]
    core.default_key_incl_res[:] = _PRISTINE[1]
    extract.default_extractor = _PRISTINE_OBJ['dx']
    extract.default_extractor.ignore_rules = _PRISTINE_OBJ['dx_rules']
    extract.default_extractor.translators = _PRISTINE_OBJ['dx_trans']
    extract.default_extractor.conversions = _PRISTINE_OBJ['dx_conv']
    core.default_meta_filter = _PRISTINE_OBJ['flt']


@contextlib.contextmanager
def _quiet():
    out, err = io.StringIO(), io.StringIO()
    with contextlib.redirect_stdout(out), contextlib.redirect_stderr(err), warnings.catch_warnings():
        warnings.simplefilter('ignore')
        yield out, err


def _build_csa2(tags):
    """hand-built Siemens CSA2 ('SV10') header (same layout as props/c16.py build_csa2):
    tags = [{name, vr, items: [str]}]"""
    import struct
    out = b"SV10" + b"\x04\x03\x02\x01" + struct.pack("<2I", len(tags), 77)
    for t in tags:
        items = [x.encode("latin-1") + b"\x00" for x in t["items"]]
        out += struct.pack("<64si4s3i", t["name"].encode("latin-1"), len(items), t["vr"].encode("ascii"), 0, len(items), 77 if items else 205)
        for it in items:
            out += struct.pack("<4i", len(it), len(it), 77, len(it)) + it + b"\x00" * ((4 - len(it) % 4) % 4)
    return out


def _add_private(ds, k):
    """Untranslated private elements (a creator pydicom knows: key 'B_value'; one it does not: key
    'PrivateTagData', excluded by the default regexes) and the two Siemens CSA headers the default
    translators read -- so that --extract-private and --disable-translator change the extracted keys."""
    ds.add_new((0x0019, 0x0010), 'LO', 'SIEMENS MR HEADER')
    ds.add_new((0x0019, 0x100c), 'IS', str(1000 + 50 * (k % 3)))
    ds.add_new((0x0021, 0x0010), 'LO', 'ACME')
    ds.add_new((0x0021, 0x1001), 'DS', '2.5')
    # elements only the ignore rules keep out of the meta data (ASCII payloads would otherwise be extracted as text)
    ds.add_new((0x6000, 0x3000), 'OW', b'OVLY')
    ds.add_new((0x0028, 0x1201), 'OW', b'LUTR')
    ds.add_new((0x0029, 0x0010), 'LO', 'SIEMENS CSA HEADER')
    ds.add_new((0x0029, 0x1010), 'OB', _build_csa2([{'name': 'B_value', 'vr': 'IS', 'items': [str(1000 + 50 * (k % 3))]},
                                                      {'name': 'ImaCoilString', 'vr': 'LO', 'items': ['HEA;HEP']}]))
    ds.add_new((0x0029, 0x1020), 'OB', _build_csa2([{'name': 'UsedPatientWeight', 'vr': 'IS', 'items': ['70']},
                                                      {'name': 'MrProtocolVersion', 'vr': 'IS', 'items': ['21']}]))


def _write_series(dirpath, start, series):
    """series: {'uid': int, 'num': int|None, 'proto': str|None, 'descr': str|None, 'S':, 'T':, 'tags': {..},
                'bad': bool (last file has another pixel spacing -> IncongruentImageError), 'gap': bool (drop a middle slice)}"""
    import random
    from props import stacklib
    S, T = series.get('S', 1), series.get('T', 1)
    files = stacklib.make_grid(random.Random(0), S, T, 1, rows=2, cols=2,
                               tagrules={'EchoTime': 't', 'AcquisitionNumber': 't'} if T > 1 else None)
    if series.get('gap') and S >= 3:
        files = [f for f in files if f['cell'][0] != 1]
    if series.get('bad') and len(files) >= 2:
        files[-1] = dict(files[-1], ps=[2.0, 2.0])        # incongruent with the rest of the series
    n = start
    for f in files:
        f = dict(f)
        f['id'] = n
        tags = dict(f.get('tags') or {})
        tags['SeriesInstanceUID'] = '1.2.3.%04d' % series['uid']
        tags['SpecificCharacterSet'] = 'ISO_IR 192'
        tags['PatientName'] = 'Doe^John'
        tags['StudyDate'] = '20200102'
        tags['RepetitionTime'] = 100.0
        if T == 1:
            tags['EchoTime'] = 3.0
            tags['AcquisitionNumber'] = 4
        for k, a in (('num', 'SeriesNumber'), ('proto', 'ProtocolName'), ('descr', 'SeriesDescription')):
            if series.get(k) is not None:
                tags[a] = series[k]
        tags.update(series.get('tags') or {})
        f['tags'] = tags
        ds = stacklib.build_ds(f)
        for k, a in (('num', 'SeriesNumber'), ('proto', 'ProtocolName')):
            if series.get(k) is None and a in ds:
                delattr(ds, a)
        if series.get('priv', True):
            _add_private(ds, f['cell'][1])
        ds.save_as(os.path.join(dirpath, '%04d.dcm' % n), enforce_file_format=True)
        n += 1
    return n


def _mjson(v):
    """meta value -> JSON for the model: int / str, anything else is outside the modelled domain."""
    if v is None:
        return {'t': 'none'}
    if isinstance(v, bool):
        return {'t': 'other'}
    if isinstance(v, int):
        return {'t': 'int', 'v': int(v)}
    if isinstance(v, str):
        return {'t': 'str', 'v': str(v)}
    return {'t': 'other', 'r': repr(v)}


def _img_summary(img, dcmmeta):
    import numpy as np
    data = np.asanyarray(img.dataobj)
    hdr = img.header
    try:
        ext = dcmmeta.NiftiWrapper(img).meta_ext.to_json()
    except dcmmeta.MissingExtensionError:
        ext = None
    try:
        st = [float(x).hex() for x in hdr.get_slice_times()]
    except Exception:
        st = None
    return {'shape': [int(x) for x in data.shape], 'dtype': str(data.dtype),
            'data': hashlib.sha1(np.ascontiguousarray(data).tobytes()).hexdigest(),
            'affine': [float(x).hex() for x in np.asarray(img.affine).ravel()],
            'pixdim': [float(x).hex() for x in hdr['pixdim']],
            'dim_info': [None if x is None else int(x) for x in hdr.get_dim_info()],
            'xyzt': list(hdr.get_xyzt_units()), 'slice_times': st, 'ext': ext}


def _file_summary(path, dcmmeta):
    import nibabel as nb
    if path.endswith('.json'):
        return {'json': open(path).read()}
    return _img_summary(nb.load(path), dcmmeta)


def _listing(dirs):
    out = {}
    for d in dirs:
        if os.path.isdir(d):
            for fn in sorted(os.listdir(d)):
                p = os.path.join(d, fn)
                if os.path.isfile(p) and not fn.endswith('.dcm') and not fn.endswith('.txt'):
                    out[p] = None
    return out


def _summarise(dirs, dcmmeta):
    return {p: _file_summary(p, dcmmeta) for p in sorted(_listing(dirs))}


def _clean(dirs):
    for p in _listing(dirs):
        os.remove(p)


# ------------------------------------------------------------------------------------------------ options

OPT_DEFAULT = {'src_dirs': [], 'force_read': False, 'file_ext': None, 'dest_dir': None, 'output_name': None, 'output_ext': None,
               'dump_meta': False, 'embed_meta': False, 'group_by': None, 'voxel_order': None, 'time_var': None,
               'vector_var': None, 'time_order': None, 'vector_order': None, 'list_translators': False,
               'disable_translator': None, 'extract_private': False, 'include_regex': [], 'exclude_regex': [],
               'default_regexes': False, 'verbose': False, 'strict': False, 'version': False}
DFLT = {'file_ext': '.dcm', 'output_ext': '.nii.gz', 'voxel_order': 'LAS'}     # cross-checked against T_cli by the model run


def _argv(o):
    a = ['dcmstack']
    for flag, k in (('--force-read', 'force_read'), ('--dump-meta', 'dump_meta'), ('--embed-meta', 'embed_meta'),
                    ('--list-translators', 'list_translators'), ('--extract-private', 'extract_private'),
                    ('--default-regexes', 'default_regexes'), ('-v', 'verbose'), ('--strict', 'strict'), ('--version', 'version')):
        if o.get(k):
            a.append(flag)
    for flag, k in (('--file-ext', 'file_ext'), ('--dest-dir', 'dest_dir'), ('--output-name', 'output_name'),
                    ('--output-ext', 'output_ext'), ('--group-by', 'group_by'), ('--voxel-order', 'voxel_order'),
                    ('--time-var', 'time_var'), ('--vector-var', 'vector_var'), ('--time-order', 'time_order'),
                    ('--vector-order', 'vector_order'), ('--disable-translator', 'disable_translator')):
        if o.get(k) is not None:
            a += [flag, o[k]]
    for r in o.get('include_regex') or []:
        a += ['-i', r]
    for r in o.get('exclude_regex') or []:
        a += ['-e', r]
    return a + list(o.get('src_dirs') or [])


def _coq_args(o):
    def so(k):
        return copt(o.get(k), cstr)
    return ('{| a_src_dirs := %s; a_force_read := %s; a_file_ext := %s; a_dest_dir := %s; a_output_name := %s; a_output_ext := %s; '
            'a_dump_meta := %s; a_embed_meta := %s; a_group_by := %s; a_voxel_order := %s; a_time_var := %s; a_vector_var := %s; '
            'a_time_order := %s; a_vector_order := %s; a_list_translators := %s; a_disable_translator := %s; a_extract_private := %s; '
            'a_include_regex := %s; a_exclude_regex := %s; a_default_regexes := %s; a_verbose := %s; a_strict := %s; a_version := %s |}') % (
        clist(cstr(s) for s in o.get('src_dirs') or []), cbool(bool(o.get('force_read'))),
        'dflt_file_ext' if o.get('file_ext') is None else cstr(o['file_ext']), so('dest_dir'), so('output_name'),
        'dflt_output_ext' if o.get('output_ext') is None else cstr(o['output_ext']),
        cbool(bool(o.get('dump_meta'))), cbool(bool(o.get('embed_meta'))), so('group_by'),
        'dflt_voxel_order' if o.get('voxel_order') is None else cstr(o['voxel_order']), so('time_var'), so('vector_var'),
        so('time_order'), so('vector_order'), cbool(bool(o.get('list_translators'))), so('disable_translator'),
        cbool(bool(o.get('extract_private'))), clist(cstr(s) for s in o.get('include_regex') or []),
        clist(cstr(s) for s in o.get('exclude_regex') or []), cbool(bool(o.get('default_regexes'))),
        cbool(bool(o.get('verbose'))), cbool(bool(o.get('strict'))), cbool(bool(o.get('version'))))


# ------------------------------------------------------------------------------------------------ recorded run

def _ordering_json(o):
    if o is None:
        return None
    return {'key': o.key, 'abs': None if o.abs_ordering is None else [str(x) for x in o.abs_ordering], 'as_str': bool(o.abs_as_str)}


def _run_recorded(opts):
    """Run dcmstack_cli.main(argv(opts)) in this process with recording wrappers around every API
    entry point the tool uses.  Returns the observation dict (JSON serialisable)."""
    import nibabel as nb
    core, cli, nit, extract, dcmmeta = _impl()
    rec = {'globs': [], 'dirs': [], 'filters': {}, 'extractors': {}, 'writes': [], 'stack_err': [], 'nifti_err': []}
    state = {'cur': None, 'stacks': {}}
    orig = {'glob': cli.glob, 'pg': cli.parse_and_group, 'sg': cli.stack_group, 'mf': core.make_key_regex_filter,
            'tn': core.DicomStack.to_nifti, 'me': extract.MetaExtractor}
    had_tf = 'to_filename' in nb.Nifti1Image.__dict__
    orig_tf = nb.Nifti1Image.to_filename

    def r_glob(pat):
        res = orig['glob'](pat)
        rec['globs'].append([pat, list(res)])
        return res

    def r_me(*a, **k):
        x = orig['me'](*a, **k)
        ign = a[0] if len(a) > 0 else k.get('ignore_rules')
        tr = a[1] if len(a) > 1 else k.get('translators')
        rec['extractors'][id(x)] = {'kind': 'meta', 'ignore': [f.__name__ for f in (ign or [])],
                                    'trans': [[t.name, int(t.tag.group), int(t.tag.elem)] for t in (tr or [])]}
        state.setdefault('keep', []).append(x)
        return x

    def r_mf(excl, incl=None):
        f = orig['mf'](excl, incl)
        rec['filters'][id(f)] = {'excl': list(excl), 'incl': None if incl is None else list(incl)}
        state.setdefault('keep', []).append(f)
        return f

    def r_pg(src_paths, group_by=None, extractor=None, force=False, warn_on_except=False, *more, **kw):
        if more or kw:
            raise RuntimeError('harness: unexpected arguments to parse_and_group: %r %r' % (more, kw))
        if extractor is extract.minimal_extractor:
            xd = {'kind': 'minimal'}
        else:
            xd = rec['extractors'].get(id(extractor), {'kind': 'unknown:' + repr(extractor)})
        d = {'paths': list(src_paths), 'group_by': [str(x) for x in group_by], 'extractor': xd, 'force': bool(force),
             'warn': bool(warn_on_except), 'groups': None, 'files': []}
        rec['dirs'].append(d)
        state['cur'] = d
        try:
            res = orig['pg'](src_paths, group_by, extractor, force, warn_on_except)
        except Exception as e:
            d['groups'] = {'err': _err(e), 'cls': type(e).__name__}
            raise
        gl = []
        for gi, (key, group) in enumerate(res.items()):
            meta = group[0][1]
            g = {'num': _mjson(meta.get('SeriesNumber')) if 'SeriesNumber' in meta else None,
                 'n1': _mjson(meta.get('ProtocolName')) if 'ProtocolName' in meta else None,
                 'n2': _mjson(meta.get('SeriesDescription')) if 'SeriesDescription' in meta else None}
            if opts.get('output_name') is not None:
                try:
                    g['custom'] = str(opts['output_name'] % meta)
                except Exception as e:
                    g['custom'] = {'err': _err(e)}
            else:
                g['custom'] = {'err': 'ECrash'}
            gl.append(g)
            state['stacks'][id(group)] = gi
        d['groups'] = gl
        state.setdefault('keep', []).append(res)
        return res

    def r_sg(group, warn_on_except=False, **stack_args):
        d = state['cur']
        gi = state['stacks'].get(id(group), -1)
        extra = sorted(set(stack_args) - {'time_order', 'vector_order', 'meta_filter'})
        f = {'group': gi, 'warn': bool(warn_on_except), 'time': _ordering_json(stack_args.get('time_order')),
             'vec': _ordering_json(stack_args.get('vector_order')),
             'filter': rec['filters'].get(id(stack_args.get('meta_filter'))), 'extra_kw': extra, 'nifti': None, 'path': None}
        try:
            st = orig['sg'](group, warn_on_except, **stack_args)
        except Exception as e:
            rec['stack_err'].append([len(rec['dirs']) - 1, gi, _err(e), type(e).__name__])
            raise
        d['files'].append(f)
        state['curfile'] = f
        return st

    def r_tn(self, voxel_order='LAS', embed_meta=False):
        f = state.get('curfile')
        if f is not None:
            f['nifti'] = {'vo': voxel_order, 'embed': bool(embed_meta)}
        try:
            return orig['tn'](self, voxel_order, embed_meta)
        except Exception as e:
            if f is not None:
                rec['nifti_err'].append([len(rec['dirs']) - 1, f['group'], _err(e), type(e).__name__])
                state['cur']['files'].remove(f)
                state['curfile'] = None
            raise

    def r_tf(self, path, *a, **k):
        f = state.get('curfile')
        if f is not None:
            f['path'] = path
        rec['writes'].append(path)
        return orig_tf(self, path, *a, **k)

    before = [list(core.default_key_excl_res), list(core.default_key_incl_res)]
    hidden_before = _hidden_state()
    status, raised = None, None
    cli.glob, cli.parse_and_group, cli.stack_group = r_glob, r_pg, r_sg
    core.make_key_regex_filter, core.DicomStack.to_nifti, extract.MetaExtractor = r_mf, r_tn, r_me
    nb.Nifti1Image.to_filename = r_tf
    try:
        with _quiet() as (so, se):
            try:
                status = cli.main(_argv(opts))
            except SystemExit as e:
                status = 'exit:%s' % (e.code,)
            except Exception as e:
                raised = {'err': _err(e), 'cls': type(e).__name__, 'msg': str(e)[:200]}
    finally:
        cli.glob, cli.parse_and_group, cli.stack_group = orig['glob'], orig['pg'], orig['sg']
        core.make_key_regex_filter, core.DicomStack.to_nifti, extract.MetaExtractor = orig['mf'], orig['tn'], orig['me']
        if had_tf:
            nb.Nifti1Image.to_filename = orig_tf
        else:
            del nb.Nifti1Image.to_filename
    after = [list(core.default_key_excl_res), list(core.default_key_incl_res)]
    hidden_after = _hidden_state()
    # files of a directory whose stack was built but never written (exception between stack_group and to_filename)
    for d in rec['dirs']:
        d['files'] = [f for f in d['files'] if f['path'] is not None]
    for d, (pat, res) in zip(rec['dirs'], rec['globs']):
        d['glob'] = pat
    return {'before': before, 'after': after, 'hidden_before': hidden_before, 'hidden_after': hidden_after, 'status': status, 'raised': raised, 'stdout': so.getvalue(),
            'dirs': rec['dirs'], 'n_globs': len(rec['globs']), 'stack_err': rec['stack_err'], 'nifti_err': rec['nifti_err'],
            'writes': rec['writes']}


def _api_equivalent(opts, pristine):
    """What the API produces for the same request: parse_and_stack + to_nifti with the filter built from the
    PRISTINE defaults plus the -e / -i options (parse_and_group, stack_group, to_nifti).  Returns {path-less list per dir: [summary...]} or the error."""
    from glob import glob
    core, cli, nit, extract, dcmmeta = _impl()
    gen_meta = bool(opts.get('embed_meta') or opts.get('dump_meta'))
    if gen_meta:
        ign = extract.default_ignore_rules
        tr = extract.default_translators
        dt = opts.get('disable_translator')
        if dt:
            if dt.lower() == 'all':
                tr = ()
            else:
                tags = cli.parse_tags(dt)
                tr = [t for t in tr if t.tag not in tags]
        if opts.get('extract_private'):
            ign = (extract.ignore_pixel_data, extract.ignore_overlay_data, extract.ignore_color_lut_data)
        extractor = extract.MetaExtractor(ign, tr)
    else:
        extractor = extract.minimal_extractor
    flt = core.make_key_regex_filter(pristine[0] + list(opts.get('exclude_regex') or []),
                                     pristine[1] + list(opts.get('include_regex') or []))

    def order(var, fn):
        if not var:
            return None
        if fn:
            return core.DicomOrdering(var, [l.strip() for l in open(fn).readlines()], True)
        return core.DicomOrdering(var)
    t_ord = order(opts.get('time_var'), opts.get('time_order'))
    v_ord = order(opts.get('vector_var'), opts.get('vector_order'))
    group_by = opts['group_by'].split(',') if opts.get('group_by') is not None else core.default_group_keys
    vo = opts['voxel_order'] if opts.get('voxel_order') is not None else 'LAS'
    out = []
    for d in opts.get('src_dirs') or []:
        ext = opts['file_ext'] if opts.get('file_ext') is not None else '.dcm'
        paths = glob(os.path.join(d, '*') + (ext or ''))
        res = []
        try:
            with _quiet():
                # parse_and_stack = parse_and_group + stack_group per group; done group by group, as the tool does, so that
                # an exception on a later group leaves the earlier results in place
                groups = core.parse_and_group(paths, group_by, extractor, bool(opts.get('force_read')), not opts.get('strict'))
                for key, group in groups.items():
                    st = core.stack_group(group, warn_on_except=not opts.get('strict'), time_order=t_ord, vector_order=v_ord,
                                          meta_filter=flt)
                    nii = st.to_nifti(vo, bool(opts.get('embed_meta')))
                    s = _img_summary(nii, dcmmeta)
                    if opts.get('dump_meta'):
                        s['dump'] = dcmmeta.NiftiWrapper(st.to_nifti(vo, True)).meta_ext.to_json()
                    res.append(s)
        except Exception as e:
            out.append({'files': res, 'raised': type(e).__name__})
            break
        out.append({'files': res, 'raised': None})
    return out


def _api_probe(probe_dir):
    """Plain API use with every default: parse_and_stack without extractor / filter, the default extractor on
    one file, the default filter on a few keys.  Must not depend on CLI invocations made earlier in the process."""
    from glob import glob
    import pydicom
    core, cli, nit, extract, dcmmeta = _impl()
    out = {}
    try:
        paths = sorted(glob(os.path.join(probe_dir, '*.dcm')))
        with _quiet():
            stacks = core.parse_and_stack(paths)
            exts = []
            for key, st in stacks.items():
                try:
                    nii = st.to_nifti('LAS', True)
                    exts.append(dcmmeta.NiftiWrapper(nii).meta_ext.to_json())
                except core.InvalidStackError:
                    exts.append('InvalidStackError')
            out['stacks'] = [hashlib.sha1(e.encode('utf-8')).hexdigest() for e in exts]
            out['stack_keys'] = [sorted(json.loads(e)['global']['const'].keys()) if e != 'InvalidStackError' else None for e in exts]
            if paths:
                meta = extract.default_extractor(pydicom.dcmread(paths[0]))
                out['extractor_keys'] = sorted(meta.keys())
        out['filter'] = [bool(core.default_meta_filter(k, None)) for k in
                         ('PatientName', 'EchoTime', 'ImagePositionPatient', 'SeriesInstanceUID', 'Foo', 'Bar', 'Rows', 'CsaImage.B_value')]
    except Exception as e:
        out['raised'] = '%s: %s' % (type(e).__name__, str(e)[:200])
    return out


def _fresh(cwd, opts, dirs):
    """The same invocation as the first thing a new interpreter does; returns the summaries of what it wrote."""
    spec = os.path.join(cwd, 'fresh_spec.json')
    res = os.path.join(cwd, 'fresh_res.json')
    json.dump({'cwd': cwd, 'opts': opts, 'dirs': dirs}, open(spec, 'w'))
    if os.path.exists(res):
        os.remove(res)
    env = dict(os.environ)
    p = subprocess.run([sys.executable, '-m', 'props.c19', 'fresh', spec, res], cwd=os.path.dirname(os.path.dirname(os.path.abspath(__file__))),
                       env=env, stdout=subprocess.PIPE, stderr=subprocess.STDOUT, timeout=120)
    if not os.path.exists(res):
        return {'harness': 'fresh run failed: ' + p.stdout.decode('utf-8', 'replace')[-400:]}
    r = json.load(open(res))
    os.remove(spec)
    os.remove(res)
    return r


def _fresh_main(spec, res):
    repo = os.environ.get('DCMSTACK_REPO', '/repo')
    sys.path.insert(0, os.path.join(repo, 'src'))
    warnings.simplefilter('ignore')
    s = json.load(open(spec))
    os.chdir(s['cwd'])
    core, cli, nit, extract, dcmmeta = _impl()
    api_first = _api_probe('d0')          # the API, before any command-line invocation in this interpreter
    status, raised = None, None
    with _quiet() as (so, se):
        try:
            status = cli.main(_argv(s['opts']))
        except SystemExit as e:
            status = 'exit:%s' % (e.code,)
        except Exception as e:
            raised = type(e).__name__
    out = {'status': status, 'raised': raised, 'stdout': so.getvalue(), 'files': _summarise(s['dirs'], dcmmeta),
           'api_first': api_first}
    json.dump(out, open(res, 'w'))


# ================================================================================================ part: names

NAME_POOL = ['a', 'a', 'a', 'a-001', 'a-002', 'a-003', 'a-002-003', 'b', 'b c', 'b/c', 'b_c', 'T1 MPRAGE', 'ep2d:bold', 'x.y', 'x y', 'é',
             'é', 'ü', 'a-000', 'a-004', 'A', 'fmap (mag)', 'fmap_(mag)', 'a-1', 'a-01', 'a-0002', 'β', 'a b', 'a+b', 'a_b']


def _model_groups(groups):
    def mv(x):
        if x is None:
            return 'None'
        if x['t'] == 'int':
            return '(Some (MInt %s))' % cz(x['v'])
        if x['t'] == 'str':
            return '(Some (MStr %s))' % cstr(x['v'])
        raise ValueError('meta value outside the modelled domain: %r' % (x,))
    out = []
    for g in groups:
        c = g['custom']
        cu = '(Err %s)' % c['err'] if isinstance(c, dict) else '(Ok %s)' % cstr(c)
        out.append('{| gm_num := %s; gm_name1 := %s; gm_name2 := %s; gm_custom := %s |}' % (mv(g['num']), mv(g['n1']), mv(g['n2']), cu))
    return clist(out)


class Names:
    NAME = "names"
    CORR_REQUIRE = "From DV Require Import Generated.T_cli Cli.Model Cli.Corr."
    CORR_CASE_TYPE = "Corr.names_case"
    CORR_CHECK = "Corr.check_names"
    CORR_SHOW = "Corr.show_names"
    SHARD = 60
    IMPL_TIMEOUT = 60
    RULE = ("lists of 2-9 natural names with duplicates, names that look like suffixed names (a-002), and characters "
            "sanitize_path_comp rewrites; one 1-slice series per name in one directory (ProtocolName = name), custom "
            "--output-name '%(ProtocolName)s' or the default format (SeriesNumber / ProtocolName / SeriesDescription present or "
            "absent); non-trivial = at least one name needed a suffix")

    @staticmethod
    def gen_cases(rng, tier):
        n = 70 if tier == 'quick' else 800
        out = [{'kind': 'f13', 'mode': 'custom', 'ext': None, 'dest': False, 'embed': False,
                'series': [{'uid': i + 1, 'num': i + 1, 'proto': p, 'descr': None} for i, p in enumerate(['a-002', 'a', 'a'])]}]
        for i in range(n):
            r = rng.random()
            k = rng.randrange(2, 10)
            if r < 0.6:
                pool = rng.sample(NAME_POOL, rng.randrange(1, 5))
                names = [rng.choice(pool) for _ in range(k)]
                if rng.random() < 0.5:
                    base = rng.choice(['a', 'b c', 'é'])
                    names = [rng.choice([base, base, '%s-%03d' % (sanitize(base), rng.randrange(0, k + 1))]) for _ in range(k)]
                series = [{'uid': j + 1, 'num': rng.randrange(1, 30), 'proto': nm, 'descr': None} for j, nm in enumerate(names)]
                out.append({'kind': 'custom', 'mode': 'custom', 'ext': rng.choice([None, None, '.nii']), 'dest': rng.random() < 0.3,
                            'embed': False, 'series': series})
            else:
                series = []
                for j in range(k):
                    num = rng.choice([1, 1, 2, 3, 12, 123, 1234, None])
                    proto = rng.choice(['a', 'a', 'b c', 'a-001', None])
                    descr = rng.choice(['sd', 'sd', 's d', None])
                    series.append({'uid': j + 1, 'num': num, 'proto': proto, 'descr': descr})
                out.append({'kind': 'default-format', 'mode': 'default', 'ext': rng.choice([None, '.nii']), 'dest': rng.random() < 0.3,
                            'embed': rng.random() < 0.5, 'series': series})
        return out

    @staticmethod
    def _opts(case):
        o = dict(OPT_DEFAULT)
        o['src_dirs'] = ['src']
        if case['mode'] == 'custom':
            o['output_name'] = '%(ProtocolName)s'
        if case.get('ext'):
            o['output_ext'] = case['ext']
        if case.get('dest'):
            o['dest_dir'] = 'out'
        if case.get('embed'):
            o['embed_meta'] = True
        return o

    @staticmethod
    def run_impl(case):
        core, cli, nit, extract, dcmmeta = _impl()
        _case_start()
        cwd0 = os.getcwd()
        d = _scratch()
        try:
            os.chdir(d)
            os.makedirs('src')
            os.makedirs('out')
            n = 0
            for s in case['series']:
                n = _write_series('src', n, dict(s, S=1, T=1, priv=False))
            o = Names._opts(case)
            obs = _run_recorded(o)
            dest = 'out' if case.get('dest') else 'src'
            listing = sorted(os.path.basename(p) for p in _listing([dest]))
            return {'status': obs['status'], 'raised': obs['raised'], 'groups': obs['dirs'][0]['groups'] if obs['dirs'] else None,
                    'files': [os.path.basename(p) for p in obs['writes']], 'listing': listing,
                    'paths_ok': all(os.path.dirname(p) == dest for p in obs['writes']),
                    'before': obs['before'], 'after': obs['after']}
        finally:
            os.chdir(cwd0)
            shutil.rmtree(d, ignore_errors=True)

    @staticmethod
    def coq_case(case, obs):
        if not isinstance(obs.get('groups'), list):
            raise ValueError('no groups recorded')
        return '{| n_custom := %s; n_ext := %s; n_groups := %s; n_obs := %s |}' % (
            cbool(case['mode'] == 'custom'), 'dflt_output_ext' if not case.get('ext') else cstr(case['ext']),
            _model_groups(obs['groups']), clist(cstr(f) for f in obs['files']))

    @staticmethod
    def oracle(case, obs):
        if 'crash' in obs:
            return 'harness/implementation crashed: %s %s' % (obs.get('crash'), str(obs.get('msg'))[:200])
        if obs.get('raised'):
            return 'dcmstack raised %s on a directory of valid one-slice series' % obs['raised']['cls']
        if obs.get('status') != 0:
            return 'dcmstack exited with %r' % (obs.get('status'),)
        ng = len(case['series'])
        if not isinstance(obs.get('groups'), list) or len(obs['groups']) != ng:
            return None        # grouping is C18's business; the naming property is about the groups found
        if len(obs['files']) != ng:
            return '%d groups but %d files written' % (ng, len(obs['files']))
        if len(set(obs['files'])) != ng or len(obs['listing']) != ng:
            return '%d groups but only %d distinct output files (%s): an output overwrote another' % (ng, len(set(obs['files'])), sorted(obs['files']))
        if not obs.get('paths_ok'):
            return 'an output was written outside the destination directory'
        if obs['before'] != obs['after']:
            return 'module default regex lists changed by the invocation'
        return None

    @staticmethod
    def signature(case, obs, msg):
        return 'names'

    @staticmethod
    def nontrivial(case, obs):
        fs = obs.get('files') or []
        gs = obs.get('groups') if isinstance(obs.get('groups'), list) else []
        if case['mode'] == 'custom':
            nat = [sanitize(g['custom']) for g in gs if isinstance(g.get('custom'), str)]
            return len(set(nat)) < len(nat) and len(set(fs)) == len(fs)
        return any(re.search(r'-\d\d\d+\.nii', f) for f in fs) and len(set(fs)) == len(fs)

    @staticmethod
    def shrink(case):
        s = case['series']
        for i in range(len(s)):
            if len(s) > 1:
                c = dict(case)
                c['series'] = s[:i] + s[i + 1:]
                yield c


def sanitize(s):
    import string
    return ''.join(c if c in string.ascii_letters + string.digits + '-_.' else '_' for c in s)


# ================================================================================================ part: state

class State:
    NAME = "state"
    CORR_REQUIRE = "From DV Require Import Generated.T_cli Cli.Model Cli.Corr."
    CORR_CASE_TYPE = "Corr.state_case"
    CORR_CHECK = "Corr.check_state"
    CORR_SHOW = "Corr.show_state"
    SHARD = 5
    IMPL_TIMEOUT = 240
    RULE = ("sequences of 2-4 dcmstack invocations in one process over 1-2 generated directories (1-3 series of 1-3 slices x 1-2 "
            "time points, 2x2 pixels; equal series numbers / protocol names across directories are frequent): -e/-i lists, --embed-meta/--dump-meta, --voxel-order, --time-var with and without an order "
            "file, --group-by, --output-name/--output-ext/--dest-dir, --extract-private, --disable-translator, --force-read, "
            "--strict, plus the print-and-exit options and the error exits (no source directory, bad translator tag, an incongruent "
            "file under --strict, incomplete stack); non-trivial = some invocation carries -e/-i and a later one does not")

    EXCL = ['EchoTime', 'Series', 'Rows', 'Foo', 'Repetition', '^Pixel']
    INCL = ['PatientName', 'StudyDate', 'Bar', 'SeriesInstanceUID']

    @staticmethod
    def _inv(rng, dirs, k):
        o = dict(OPT_DEFAULT)
        r = rng.random()
        if r < 0.05:
            o[rng.choice(['default_regexes', 'default_regexes', 'list_translators', 'version'])] = True
            if rng.random() < 0.5:
                o['exclude_regex'] = rng.sample(State.EXCL, 1)
            o['src_dirs'] = ['d0']
            return o
        o['src_dirs'] = [rng.choice(['d0', 'd1'][:len(dirs)])] if rng.random() < 0.7 else ['d%d' % j for j in range(len(dirs))]
        if r < 0.08:
            o['src_dirs'] = []
        m = rng.random()
        if m < 0.3:
            o['embed_meta'] = True
        elif m < 0.5:
            o['dump_meta'] = True
        elif m < 0.6:
            o['embed_meta'] = o['dump_meta'] = True
        if rng.random() < 0.6:
            o['exclude_regex'] = rng.sample(State.EXCL, rng.randrange(1, 3))
        if rng.random() < 0.5:
            o['include_regex'] = rng.sample(State.INCL, rng.randrange(1, 3))
        if rng.random() < 0.5:
            o['voxel_order'] = rng.choice(['RAS', 'LPI', '', 'ASL', 'LAS'])
        has_t = any(s.get('T', 1) > 1 for d in o['src_dirs'] for s in dirs[int(d[1:])])
        if has_t and rng.random() < 0.6:
            o['time_var'] = rng.choice(['EchoTime', 'AcquisitionNumber'])
            if rng.random() < 0.5:
                o['time_order'] = 'order_%s.txt' % o['time_var']
        if rng.random() < 0.15:
            o['group_by'] = rng.choice(['SeriesInstanceUID', 'SeriesNumber,ProtocolName', 'SeriesInstanceUID,ImageOrientationPatient'])
        if rng.random() < 0.3:
            o['output_name'] = rng.choice(['%(ProtocolName)s', 'x', '%(SeriesNumber)d_%(ProtocolName)s'])
        if rng.random() < 0.3:
            o['output_ext'] = rng.choice(['.nii', '.nii.gz'])
        if rng.random() < 0.3:
            o['dest_dir'] = 'out%d' % k
        if rng.random() < 0.3:
            o['extract_private'] = True
        if rng.random() < 0.3:
            o['disable_translator'] = rng.choice(['all', 'ALL', '0x29_0x1010', '0x29_0x1010,0x29_0x1020', '29_1020', 'zz', '0x29'])
        if rng.random() < 0.1:
            o['force_read'] = True
        if rng.random() < 0.15:
            o['strict'] = True
        if rng.random() < 0.2:
            o['verbose'] = True
        return o

    @staticmethod
    def gen_cases(rng, tier):
        n = 72 if tier == 'quick' else 600
        out = [{'kind': 'f10', 'dirs': [[{'uid': 1, 'num': 1, 'proto': 'a', 'descr': 'sd', 'S': 2, 'T': 1}]],
                'invs': [dict(OPT_DEFAULT, src_dirs=['d0'], exclude_regex=['Foo'], include_regex=['Bar'], embed_meta=True),
                         dict(OPT_DEFAULT, src_dirs=['d0'], embed_meta=True),
                         dict(OPT_DEFAULT, src_dirs=['d0'], default_regexes=True)]}]
        # F18: equal names from two source directories in one destination
        out.append({'kind': 'f18',
                    'dirs': [[{'uid': 1, 'num': 8, 'proto': 'b c', 'descr': None, 'S': 2, 'T': 1}],
                             [{'uid': 2, 'num': 8, 'proto': 'b c', 'descr': None, 'S': 2, 'T': 1}]],
                    'invs': [dict(OPT_DEFAULT, src_dirs=['d0', 'd1'], dest_dir='out0', embed_meta=True),
                             dict(OPT_DEFAULT, src_dirs=['d0', 'd1'], dest_dir='out1', output_name='x'),
                             dict(OPT_DEFAULT, src_dirs=['d0', 'd1'])]})
        for i in range(n):
            nd = rng.choice([1, 1, 2])
            dirs = []
            uid = 1
            for j in range(nd):
                ser = []
                for s in range(rng.randrange(1, 4)):
                    ser.append({'uid': uid, 'num': rng.randrange(1, 4), 'proto': rng.choice(['a', 'a', 'b c', 'a-001']),
                                'descr': rng.choice(['sd', None]), 'S': rng.randrange(1, 4), 'T': rng.choice([1, 1, 2])})
                    uid += 1
                dirs.append(ser)
            kind = 'valid'
            r = rng.random()
            if r < 0.08:
                dirs[0][0]['bad'] = True
                dirs[0][0]['S'] = max(2, dirs[0][0]['S'])
                kind = 'incongruent'
            elif r < 0.16:
                dirs[0][0]['S'] = 3
                dirs[0][0]['gap'] = True
                kind = 'incomplete'
            invs = [State._inv(rng, dirs, k) for k in range(rng.randrange(2, 5))]
            if kind == 'incongruent':
                v = invs[rng.randrange(len(invs))]
                v['strict'] = True
                if not v['src_dirs']:
                    v['src_dirs'] = ['d0']
            out.append({'kind': kind, 'dirs': dirs, 'invs': invs})
        return out

    @staticmethod
    def run_impl(case):
        core, cli, nit, extract, dcmmeta = _impl()
        _case_start()
        pristine = (list(_PRISTINE[0]), list(_PRISTINE[1]))
        cwd0 = os.getcwd()
        d = _scratch()
        try:
            os.chdir(d)
            n = 0
            for j, ser in enumerate(case['dirs']):
                os.makedirs('d%d' % j)
                for s in ser:
                    n = _write_series('d%d' % j, n, s)
            for k in range(5):
                os.makedirs('out%d' % k)
            # order files: EchoTime / AcquisitionNumber values of make_grid's rule 't' (2 + 3t), reversed, with blanks
            open('order_EchoTime.txt', 'w').write(' 5.0 \n2.0\n\t8.0\n3.0\n')
            open('order_AcquisitionNumber.txt', 'w').write('5\n 2\n8 \n4')
            invs = []
            api_baseline = None
            for k, o in enumerate(case['invs']):
                out_dirs = sorted(set(['d%d' % j for j in range(len(case['dirs']))] + ['out%d' % j for j in range(5)]))
                _clean(out_dirs)
                obs = _run_recorded(o)
                obs['lines'] = {fn: open(fn).readlines() for fn in (o.get('time_order'), o.get('vector_order')) if fn}
                mine = _summarise(out_dirs, dcmmeta)
                obs['written'] = sorted(mine)
                # the written files carry an extension?
                for dd in obs['dirs']:
                    for f in dd['files']:
                        f['has_ext'] = mine.get(f['path'], {}).get('ext') is not None
                # --- oracle material 1: the equivalent API calls
                try:
                    api = _api_equivalent(o, pristine) if obs['status'] == 0 or obs['raised'] else None
                    api_err = None
                except SystemExit:
                    api, api_err = None, 'exit'
                except Exception as e:
                    api, api_err = None, '%s: %s' % (type(e).__name__, str(e)[:200])
                obs['api_cmp'] = State._compare_api(o, obs, mine, api, api_err)
                _clean(out_dirs)
                # --- oracle material 1b: the plain API (all defaults) called after this invocation
                obs['api_after'] = _api_probe('d0')
                # --- oracle material 2: the same invocation run first in a fresh interpreter
                # (from the second invocation of the sequence on: the first has no history inside this case)
                if k >= 1:
                    fr = _fresh(d, o, out_dirs)
                    obs['fresh_cmp'] = State._compare_fresh(obs, mine, fr)
                    if 'api_first' in fr:
                        api_baseline = fr['api_first']
                else:
                    obs['fresh_cmp'] = None
                _clean(out_dirs)
                obs['pristine'] = [pristine[0], pristine[1]]
                del obs['writes']
                invs.append(obs)
            if api_baseline is None:          # a one-invocation case (shrinking / replay): ask a fresh interpreter anyway
                fr = _fresh(d, dict(OPT_DEFAULT, version=True), [])
                api_baseline = fr.get('api_first')
            return {'invs': invs, 'api_baseline': api_baseline, 'hidden_pristine': _PRISTINE_OBJ['hidden']}
        finally:
            os.chdir(cwd0)
            shutil.rmtree(d, ignore_errors=True)

    @staticmethod
    def _compare_api(o, obs, mine, api, api_err):
        """None = the tool's files equal the API results; else a message."""
        if obs['status'] != 0 and not obs['raised']:
            return None                      # usage error / print-and-exit: nothing to compare
        if any(o.get(k) for k in ('version', 'list_translators', 'default_regexes')):
            return None
        if api is None:
            return 'equivalent API calls failed (%s) although the tool ran' % api_err if not obs['raised'] else None
        for di, dd in enumerate(obs['dirs']):
            if di >= len(api):
                return 'the tool processed more directories than the API equivalent'
            want = api[di]['files']
            got = dd['files']
            if len(got) != len(want):
                return 'directory %s: tool wrote %d files, API yields %d stacks' % (dd.get('glob'), len(got), len(want))
            for f, w in zip(got, want):
                m = mine.get(f['path'])
                if m is None:
                    return 'file %s reported written but not found' % f['path']
                for k in ('shape', 'dtype', 'data', 'affine', 'pixdim', 'dim_info', 'xyzt', 'slice_times', 'ext'):
                    if m[k] != w[k]:
                        return 'file %s differs from the API result in %s' % (f['path'], k)
                if o.get('dump_meta'):
                    t = f['path'].split('.')
                    if t[-1] == 'gz':
                        t = t[:-1]
                    if t[-1] == 'nii':
                        t = t[:-1]
                    jp = '.'.join(t + ['json'])
                    if jp not in mine:
                        return 'meta data dump %s missing' % jp
                    if mine[jp]['json'] != w['dump']:
                        return 'meta data dump %s differs from the extension the API builds' % jp
        if obs['raised']:
            last = api[len(obs['dirs']) - 1] if obs['dirs'] and len(obs['dirs']) <= len(api) else None
            if last is not None and last['raised'] != obs['raised']['cls']:
                return 'the tool raised %s, the API equivalent %s' % (obs['raised']['cls'], last['raised'])
        elif any(x['raised'] for x in api):
            return 'the API equivalent raised %s but the tool returned normally' % [x['raised'] for x in api if x['raised']][0]
        return None

    @staticmethod
    def _compare_fresh(obs, mine, fr):
        if 'harness' in fr:
            return 'HARNESS ' + fr['harness']
        if fr['status'] != obs['status'] or (fr['raised'] or None) != (obs['raised']['cls'] if obs['raised'] else None):
            return 'in a fresh process the invocation ends with %r/%r, here with %r/%r' % (
                fr['status'], fr['raised'], obs['status'], obs['raised']['cls'] if obs['raised'] else None)
        if fr['stdout'] != obs['stdout']:
            return 'printed output differs from the same invocation in a fresh process'
        if sorted(fr['files']) != sorted(mine):
            return 'files written %s, in a fresh process %s' % (sorted(mine), sorted(fr['files']))
        for p in mine:
            if mine[p] != fr['files'][p]:
                k = [x for x in mine[p] if mine[p][x] != fr['files'][p].get(x)]
                return 'file %s differs (%s) from the same invocation run first in a fresh process' % (p, ','.join(k))
        return None

    # ---------------------------------------------------------------- Coq rendering
    @staticmethod
    def _coq_order(o):
        if o is None:
            return 'None'
        return '(Some {| o_key := %s; o_abs := %s; o_abs_as_str := %s |})' % (
            cstr(o['key']), copt(o['abs'], lambda l: clist(cstr(x) for x in l)), cbool(o['as_str']))

    @staticmethod
    def _coq_extractor(x):
        if x['kind'] == 'minimal':
            return 'XMinimal'
        if x['kind'] == 'meta':
            return '(XMeta %s %s)' % (clist(cstr(s) for s in x['ignore']),
                                      clist(cpair(cstr(t[0]), cpair(cN(t[1]), cN(t[2]))) for t in x['trans']))
        raise ValueError('unknown extractor ' + x['kind'])

    @staticmethod
    def _coq_inv(o, obs):
        dirs = []
        for dd in obs['dirs']:
            files = []
            for f in dd['files']:
                if f['filter'] is None or f['filter']['incl'] is None or f['nifti'] is None or f['extra_kw']:
                    raise ValueError('stack built with unexpected arguments: %r' % (f,))
                jp = None
                if o.get('dump_meta'):
                    t = f['path'].split('.')
                    if t and t[-1] == 'gz':
                        t = t[:-1]
                    if t and t[-1] == 'nii':
                        t = t[:-1]
                    cand = '.'.join(t + ['json'])
                    jp = cand if cand in obs['written'] else None
                files.append('{| fb_group := %s; fb_excl := %s; fb_incl := %s; fb_time := %s; fb_vec := %s; fb_warn := %s; fb_vo := %s; '
                             'fb_embed := %s; fb_path := %s; fb_json := %s; fb_has_ext := %s |}' % (
                                 cnat(f['group']), clist(cstr(s) for s in f['filter']['excl']), clist(cstr(s) for s in f['filter']['incl']),
                                 State._coq_order(f['time']), State._coq_order(f['vec']), cbool(f['warn']), cstr(f['nifti']['vo']),
                                 cbool(f['nifti']['embed']), cstr(f['path']), copt(jp, cstr), cbool(f['has_ext'])))
            g = dd['groups']
            groups = '(Err %s)' % g['err'] if isinstance(g, dict) else '(Ok %s)' % _model_groups(g)
            dirs.append('{| db_glob := %s; db_paths := %s; db_group_by := %s; db_extractor := %s; db_force := %s; db_warn := %s; '
                        'db_groups := %s; db_files := %s |}' % (
                            cstr(dd['glob']), clist(cstr(p) for p in dd['paths']), clist(cstr(s) for s in dd['group_by']),
                            State._coq_extractor(dd['extractor']), cbool(dd['force']), cbool(dd['warn']), groups, clist(files)))
        if o.get('version') and obs['status'] == 0:
            out = 'BVersion'
        elif obs['status'] == 0 and obs['stdout'].startswith('Default exclude regular expressions:') and o.get('default_regexes'):
            lines = obs['stdout'].split('\n')
            i = lines.index('Default include regular expressions:')
            ex = [l[1:] for l in lines[1:i]]
            inc = [l[1:] for l in lines[i + 1:] if l]
            out = '(BRegexes %s %s)' % (clist(cstr(s) for s in ex), clist(cstr(s) for s in inc))
        elif obs['status'] == 0 and o.get('list_translators') and not obs['dirs']:
            out = '(BTranslators %s)' % clist(cstr(l.split(' -> ', 1)[1]) for l in obs['stdout'].split('\n') if ' -> ' in l)
        elif obs['status'] == 'exit:2':
            out = 'BUsage'
        elif obs['status'] == 0 or obs['raised']:
            out = '(BRun %s %s)' % (clist(dirs), copt(obs['raised'], lambda r: r['err']))
        else:
            raise ValueError('unexpected exit status %r' % (obs['status'],))
        dname = lambda i: obs['dirs'][i]['glob'].rsplit('/', 1)[0] if i < len(obs['dirs']) else ''
        return ('{| v_args := %s; v_lines := %s; v_stack_err := %s; v_nifti_err := %s; v_before := %s; v_after := %s; v_dx_before := %s; '
                'v_dx_after := %s; v_out := %s |}' % (
            _coq_args(o), clist(cpair(cstr(fn), clist(cstr(l) for l in ls)) for fn, ls in sorted(obs['lines'].items())),
            clist(cpair(cpair(cstr(dname(e[0])), cnat(e[1])), e[2]) for e in obs['stack_err']),
            clist(cpair(cpair(cstr(dname(e[0])), cnat(e[1])), e[2]) for e in obs['nifti_err']),
            cpair(clist(cstr(s) for s in obs['before'][0]), clist(cstr(s) for s in obs['before'][1])),
            cpair(clist(cstr(s) for s in obs['after'][0]), clist(cstr(s) for s in obs['after'][1])),
            State._coq_extractor(obs['hidden_before']['dx']), State._coq_extractor(obs['hidden_after']['dx']), out))

    @staticmethod
    def coq_case(case, obs):
        return '{| s_invs := %s |}' % clist(State._coq_inv(o, ob) for o, ob in zip(case['invs'], obs['invs']))

    @staticmethod
    def oracle(case, obs):
        if 'crash' in obs:
            return 'harness/implementation crashed: %s %s' % (obs.get('crash'), str(obs.get('msg'))[:300])
        for k, (o, ob) in enumerate(zip(case['invs'], obs['invs'])):
            tag = 'invocation %d (%s)' % (k + 1, ' '.join(_argv(o)))
            if ob['before'] != ob['pristine']:
                return '%s starts with module default regex lists that differ from the ones at import (%d/%d instead of %d/%d patterns): an earlier invocation leaked its options' % (
                    tag, len(ob['before'][0]), len(ob['before'][1]), len(ob['pristine'][0]), len(ob['pristine'][1]))
            if ob['after'] != ob['before']:
                return '%s changed the module default regex lists (%d->%d exclude, %d->%d include)' % (
                    tag, len(ob['before'][0]), len(ob['after'][0]), len(ob['before'][1]), len(ob['after'][1]))
            hp = obs.get('hidden_pristine')
            for when, h in (('starts with', ob['hidden_before']), ('leaves behind', ob['hidden_after'])):
                diff = [x for x in h if hp is not None and h[x] != hp[x]]
                if diff:
                    return '%s %s module-level state that differs from the state at import: %s (now %s, at import %s)' % (
                        tag, when, ', '.join(diff), json.dumps(h[diff[0]])[:200], json.dumps(hp[diff[0]])[:200])
            if obs.get('api_baseline') is not None and ob.get('api_after') != obs['api_baseline']:
                d_ = [x for x in obs['api_baseline'] if ob['api_after'].get(x) != obs['api_baseline'][x]] or sorted(ob['api_after'])
                return ('after %s the plain API (parse_and_stack / default_extractor / default_meta_filter with all defaults) behaves differently '
                        'from a fresh process: %s is %s, fresh %s' % (tag, d_[0], json.dumps(ob['api_after'].get(d_[0]))[:300],
                                                                       json.dumps(obs['api_baseline'].get(d_[0]))[:300]))
            seen = {}
            for di, dd in enumerate(ob['dirs']):
                for f in dd['files']:
                    if f['path'] in seen and seen[f['path']] != di:
                        return ('%s: dest-dir collision: groups of two source directories (%s, %s) were both written to %s; the '
                                'names are unique per source directory only, one output is lost' % (
                                    tag, ob['dirs'][seen[f['path']]]['glob'], dd['glob'], f['path']))
                    seen.setdefault(f['path'], di)
            if ob['api_cmp']:
                return '%s: %s' % (tag, ob['api_cmp'])
            if ob['fresh_cmp'] and not ob['fresh_cmp'].startswith('HARNESS'):
                return '%s: %s' % (tag, ob['fresh_cmp'])
            for dd in ob['dirs']:
                names = [f['path'] for f in dd['files']]
                if len(set(names)) != len(names):
                    return '%s: two groups of one directory written to the same path' % tag
        return None

    @staticmethod
    def signature(case, obs, msg):
        if 'module default regex lists' in (msg or '') or 'module-level state' in (msg or '') or 'plain API' in (msg or ''):
            return 'state-leak'
        if 'dest-dir collision' in (msg or ''):
            return 'dest-dir-collision'
        return 'state'

    @staticmethod
    def nontrivial(case, obs):
        seen = False
        for o in case['invs']:
            if (o.get('exclude_regex') or o.get('include_regex')):
                seen = True
            elif seen:
                return True
        return False

    @staticmethod
    def shrink(case):
        invs = case['invs']
        for i in range(len(invs)):
            if len(invs) > 1:
                c = dict(case)
                c['invs'] = invs[:i] + invs[i + 1:]
                yield c
        for j, ser in enumerate(case['dirs']):
            for i in range(len(ser)):
                if len(ser) > 1:
                    c = dict(case)
                    c['dirs'] = [list(x) for x in case['dirs']]
                    c['dirs'][j] = ser[:i] + ser[i + 1:]
                    yield c


# ================================================================================================ part: nitool

def _make_nii(path, S, T, keys=None, embed=True):
    """A generated S x T series converted through the API and saved to `path`."""
    import random, nibabel as nb
    from props import stacklib
    core, cli, nit, extract, dcmmeta = _impl()
    files = stacklib.make_grid(random.Random(0), S, T, 1, rows=2, cols=2, tagrules={'EchoTime': 't'} if T > 1 else None,
                               consts={'RepetitionTime': 100.0, 'FlipAngle': 30.0})
    st = core.DicomStack()
    for f in files:
        if keys is not None:
            f['tags']['AcquisitionNumber'] = int(keys[f['cell'][1]])
        f['tags']['InstanceNumber'] = f['id'] + 1
        ds = stacklib.build_ds(f)
        with _quiet():
            st.add_dcm(ds)
    with _quiet():
        nii = st.to_nifti('LAS', embed)
    nb.save(nii, path)
    return nii


def _ext_view(path, dcmmeta):
    import nibabel as nb
    w = dcmmeta.NiftiWrapper(nb.load(path), make_empty=True)
    e = w.meta_ext
    valid = [list(c) for c in e.get_valid_classes()]
    return {'valid': valid, 'mult': [[list(c), int(e.get_multiplicity(c))] for c in e.get_valid_classes()],
            'keys': [[list(c), list(e.get_class_dict(c).keys())] for c in e.get_valid_classes()],
            'dicts': {'/'.join(c): json.loads(json.dumps(e.get_class_dict(c))) for c in e.get_valid_classes()}}


def _run_nitool(argv, stdin_text=None):
    core, cli, nit, extract, dcmmeta = _impl()
    rc, raised = None, None
    with _quiet() as (so, se):
        try:
            rc = nit.main(['nitool'] + argv)
        except SystemExit as e:
            rc = 'exit:%s' % (e.code,)
        except Exception as e:
            raised = {'err': _err(e), 'cls': type(e).__name__, 'msg': str(e)[:200]}
    return {'rc': rc, 'raised': raised, 'stdout': so.getvalue()}


def _py_convert(values, ty):
    """Independent statement of what `inject` must store (property text: exactly the given values)."""
    def conv(f):
        return [f(v) for v in values]
    if ty is None:
        try:
            l = conv(int)
        except ValueError:
            try:
                l = conv(float)
            except ValueError:
                l = list(values)
    else:
        l = conv({'int': int, 'float': float, 'str': str}[ty])
    return l[0] if len(l) == 1 else l


def _stored_lit(v):
    def iv(x):
        if isinstance(x, bool):
            raise ValueError('bool')
        if isinstance(x, int):
            return '(IVInt %s)' % cz(x)
        if isinstance(x, float):
            if x != x or x in (float('inf'), float('-inf')):
                raise ValueError('non-finite')
            return '(IVFloat (FFin %s))' % cq(x)
        if isinstance(x, str):
            return '(IVStr %s)' % cstr(x)
        raise ValueError('not a value inject can store: %r' % (x,))
    if isinstance(v, list):
        return '(SList %s)' % clist(iv(x) for x in v)
    return '(SScalar %s)' % iv(v)


class Nitool:
    NAME = "nitool"
    CORR_REQUIRE = "From DV Require Import Common.PyNum Generated.T_cli Cli.Model Cli.Corr."
    CORR_CASE_TYPE = "Corr.nitool_case"
    CORR_CHECK = "Corr.check_nitool"
    CORR_SHOW = "Corr.show_nitool"
    SHARD = 60
    IMPL_TIMEOUT = 120
    RULE = ("generated 3-D / 4-D NIfTI files with embedded extension (2x2 pixels, 1-3 slices, 1-3 time points): dump then embed "
            "(file / stdout, with and without removing), split along each dimension, merge of shuffled volumes with and without "
            "--sort (ties included) and --clear-slices, lookup with and without index of constant / per-slice / per-volume keys "
            "including planted falsy values (0, 0.0, '', [], False) and None, inject with valid / invalid classification, "
            "right / wrong value count, new / existing key with and without --force-overwrite, --type; non-trivial = inject, a "
            "merge with --sort, or a lookup whose value is falsy")

    @staticmethod
    def gen_cases(rng, tier):
        n = 130 if tier == 'quick' else 1400
        out = []
        for i in range(n):
            r = rng.random()
            S, T = rng.randrange(1, 4), rng.choice([1, 2, 3])
            if r < 0.5:
                classes = [['global', 'const'], ['global', 'slices'], ['time', 'samples'], ['time', 'slices'], ['vector', 'samples'],
                           ['vector', 'slices'], ['foo', 'bar'], ['global', 'samples'], ['const', 'global']]
                valid = classes[:4] if T > 1 else classes[:2]
                cls = rng.choice(valid if rng.random() < 0.8 else classes)
                table = {'global/const': 1, 'global/slices': S * T, 'time/samples': T, 'time/slices': S} if T > 1 else \
                    {'global/const': 1, 'global/slices': S}
                mult = table.get('/'.join(cls), rng.randrange(1, 4))
                cnt = mult if rng.random() < 0.8 else max(1, mult + rng.choice([-1, 1, 2]))
                key = rng.choice(['NewKey', 'NewKey', 'Other', 'EchoTime', 'RepetitionTime', 'Rows', 'InstanceNumber', 'FlipAngle'])
                vt = rng.choice(['int', 'int', 'float', 'word', 'mixed'])
                vals = []
                for j in range(cnt):
                    t = vt if vt != 'mixed' else rng.choice(['int', 'float', 'word'])
                    vals.append({'int': str(rng.randrange(0, 500)), 'float': '%d.%d' % (rng.randrange(0, 50), rng.randrange(0, 100)),
                                 'word': rng.choice(['abc', 'x1', '1e', 'T2', '1_0', '0x10', ' 7', '1.5.2'])}[t])
                ty = rng.choice([None, None, None, 'int', 'float', 'str', 'bogus'])
                out.append({'kind': 'inject', 'S': S, 'T': T, 'cls': cls, 'key': key, 'values': vals, 'type': ty, 'force': rng.random() < 0.5})
            elif r < 0.62:
                out.append({'kind': 'dump-embed', 'S': S, 'T': T, 'stdout': rng.random() < 0.3, 'remove': rng.random() < 0.5})
            elif r < 0.74:
                out.append({'kind': 'split', 'S': S, 'T': T, 'dim': rng.choice([None, None, 2, 3 if T > 1 else 2, 0])})
            elif r < 0.84:
                nv = rng.randrange(2, 5)
                keys = [rng.randrange(1, 4) for _ in range(nv)] if rng.random() < 0.6 else rng.sample(range(1, 20), nv)
                out.append({'kind': 'merge', 'S': S, 'nv': nv, 'keys': keys, 'sort': rng.random() < 0.7, 'clear': rng.random() < 0.3,
                            'dim': rng.choice([None, 3])})
            else:
                # keys of the generated image plus keys planted by the harness whose values are FALSY (0, 0.0, '', [], False)
                # or None, as constants and per slice / per volume: a value that prints as '0' or as an empty line must not
                # be confused with "key not found" (nothing printed)
                consts = ['EchoTime', 'RepetitionTime', 'Rows', 'Nope', 'ZeroInt', 'ZeroFloat', 'EmptyStr', 'EmptyList', 'FalseVal',
                          'NullVal', 'OneInt', 'ZeroInt', 'EmptyStr', 'ZeroFloat']
                varying = ['InstanceNumber', 'SliceInts', 'SliceStrs', 'SliceFloats'] + (['VolFloats', 'VolStrs', 'VolInts', 'EchoTime'] if T > 1 else [])
                if rng.random() < 0.45:
                    key, index = rng.choice(consts), rng.choice([None, None, [0, 0, 0] + ([0] if T > 1 else [])])
                else:
                    key = rng.choice(varying)
                    index = [rng.randrange(2), rng.randrange(2), rng.randrange(S)] + ([rng.randrange(T)] if T > 1 else [])
                    if rng.random() < 0.1:
                        index = None
                out.append({'kind': 'lookup', 'S': S, 'T': T, 'key': key, 'index': index})
        return out

    # ------------------------------------------------------------------------------------ run
    @staticmethod
    def run_impl(case):
        import numpy as np, nibabel as nb
        core, cli, nit, extract, dcmmeta = _impl()
        _case_start()
        cwd0 = os.getcwd()
        d = _scratch()
        before = [list(core.default_key_excl_res), list(core.default_key_incl_res)]
        try:
            os.chdir(d)
            k = case['kind']
            if k == 'inject':
                obs = Nitool._inject(case, dcmmeta)
            elif k == 'dump-embed':
                obs = Nitool._dump_embed(case, dcmmeta)
            elif k == 'split':
                obs = Nitool._split(case, dcmmeta)
            elif k == 'merge':
                obs = Nitool._merge(case, dcmmeta)
            else:
                obs = Nitool._lookup(case, dcmmeta)
            obs['globals_same'] = before == [list(core.default_key_excl_res), list(core.default_key_incl_res)]
            return obs
        finally:
            os.chdir(cwd0)
            shutil.rmtree(d, ignore_errors=True)

    @staticmethod
    def _inject(case, dcmmeta):
        import nibabel as nb
        _make_nii('in.nii.gz', case['S'], case['T'])
        os.utime('in.nii.gz', (10 ** 9, 10 ** 9))
        v0 = _ext_view('in.nii.gz', dcmmeta)
        s0 = _img_summary(nb.load('in.nii.gz'), dcmmeta)
        argv = ['inject', 'in.nii.gz'] + case['cls'] + [case['key']] + case['values']
        if case['force']:
            argv.insert(1, '-f')
        if case['type'] is not None:
            argv[1:1] = ['-t', case['type']]
        r = _run_nitool(argv)
        saved = os.stat('in.nii.gz').st_mtime_ns != 10 ** 18
        v1 = _ext_view('in.nii.gz', dcmmeta)
        s1 = _img_summary(nb.load('in.nii.gz'), dcmmeta)
        ck = '/'.join(case['cls'])
        val = v1['dicts'].get(ck, {}).get(case['key'], None) if ck in v1['dicts'] and case['key'] in v1['dicts'][ck] else None
        others_same = True
        for c in v0['dicts']:
            a = {kk: vv for kk, vv in v0['dicts'][c].items() if kk != case['key']}
            b = {kk: vv for kk, vv in v1['dicts'].get(c, {}).items() if kk != case['key']}
            if a != b:
                others_same = False
        key_elsewhere = [c for c in v1['dicts'] if c != ck and case['key'] in v1['dicts'][c]]
        key_before = [c for c in v0['dicts'] if case['key'] in v0['dicts'][c]]
        return dict(r, saved=saved, v0={x: v0[x] for x in ('valid', 'mult', 'keys')}, keys_after=v1['keys'], value_after=val,
                    has_value=(ck in v1['dicts'] and case['key'] in v1['dicts'][ck]), others_same=others_same,
                    key_elsewhere=key_elsewhere, key_before=key_before, old_value=(v0['dicts'][key_before[0]][case['key']] if key_before else None),
                    image_same=all(s0[x] == s1[x] for x in ('shape', 'dtype', 'data', 'affine', 'pixdim')))

    @staticmethod
    def _dump_embed(case, dcmmeta):
        import nibabel as nb
        _make_nii('in.nii.gz', case['S'], case['T'])
        s0 = _img_summary(nb.load('in.nii.gz'), dcmmeta)
        shutil.copy('in.nii.gz', 'b.nii.gz')
        if case['stdout']:
            r1 = _run_nitool(['dump'] + (['-r'] if case['remove'] else []) + ['b.nii.gz'])
            open('m.json', 'w').write(r1['stdout'])
        else:
            r1 = _run_nitool(['dump'] + (['-r'] if case['remove'] else []) + ['b.nii.gz', 'm.json'])
        dumped = open('m.json').read() if os.path.exists('m.json') else None
        s_mid = _img_summary(nb.load('b.nii.gz'), dcmmeta)
        r2 = _run_nitool(['embed'] + ([] if case['remove'] else ['-f']) + ['m.json', 'b.nii.gz'])
        s1 = _img_summary(nb.load('b.nii.gz'), dcmmeta)
        return {'r1': r1, 'r2': r2, 'dump_is_ext': dumped == (s0['ext'] + '\n'), 'mid_has_ext': s_mid['ext'] is not None,
                'same_after': s1 == s0, 'diff': [x for x in s0 if s0[x] != s1.get(x)]}

    @staticmethod
    def _split(case, dcmmeta):
        import nibabel as nb
        os.makedirs('sub')
        _make_nii('sub/in.nii.gz', case['S'], case['T'])
        r = _run_nitool(['split'] + (['-d', str(case['dim'])] if case['dim'] is not None else []) + ['sub/in.nii.gz'])
        names = sorted(p for p in _listing(['sub']) if not p.endswith('/in.nii.gz'))
        got = [_img_summary(nb.load(p), dcmmeta) for p in names]
        try:
            with _quiet():
                want = [_img_summary(s.nii_img, dcmmeta) for s in dcmmeta.NiftiWrapper(nb.load('sub/in.nii.gz')).split(case['dim'])]
            api_raised = None
        except Exception as e:
            want, api_raised = None, type(e).__name__
        return dict(r, names=names, n_api=None if want is None else len(want), api_raised=api_raised,
                    equal=None if want is None else (got == want),
                    diff=None if want is None or got == want else [[x for x in g if g[x] != w.get(x)] for g, w in zip(got, want)])

    @staticmethod
    def _merge(case, dcmmeta):
        import nibabel as nb, numpy as np
        nv = case['nv']
        _make_nii('all.nii.gz', case['S'], nv, keys=case['keys'])
        with _quiet():
            vols = list(dcmmeta.NiftiWrapper(nb.load('all.nii.gz')).split(3))
        paths = []
        for i, v in enumerate(vols):
            p = 'v%d.nii.gz' % i
            v.to_filename(p)
            paths.append(p)
        hashes = [hashlib.sha1(np.ascontiguousarray(np.asanyarray(nb.load(p).dataobj)).tobytes()).hexdigest() for p in paths]
        argv = ['merge'] + (['-d', str(case['dim'])] if case['dim'] is not None else []) + (['-s', 'AcquisitionNumber'] if case['sort'] else []) \
            + (['-c'] if case['clear'] else []) + ['out.nii.gz'] + paths
        r = _run_nitool(argv)
        order, equal, diff, api_raised = None, None, None, None
        try:
            with _quiet():
                seq = [dcmmeta.NiftiWrapper(nb.load(p)) for p in paths]
                if case['sort']:
                    seq.sort(key=lambda w: w.get_meta('AcquisitionNumber'))
                want = dcmmeta.NiftiWrapper.from_sequence(seq, case['dim'])
                if case['clear']:
                    want.meta_ext.clear_slice_meta()
        except Exception as e:
            want, api_raised = None, type(e).__name__
        if os.path.exists('out.nii.gz') and want is not None:
            got_img = nb.load('out.nii.gz')
            data = np.asanyarray(got_img.dataobj)
            if data.ndim == 4 and data.shape[3] == nv:
                order = []
                for t in range(nv):
                    h = hashlib.sha1(np.ascontiguousarray(data[..., t]).tobytes()).hexdigest()
                    order.append(hashes.index(h) if h in hashes else -1)
            g, w = _img_summary(got_img, dcmmeta), _img_summary(want.nii_img, dcmmeta)
            equal = g == w
            diff = [x for x in g if g[x] != w[x]]
        return dict(r, order=order, equal=equal, diff=diff, api_raised=api_raised, wrote=os.path.exists('out.nii.gz'))

    @staticmethod
    def _lookup(case, dcmmeta):
        import nibabel as nb
        S, T = case['S'], case['T']
        _make_nii('in.nii.gz', S, T)
        # plant keys with falsy values through the API (constants, per slice, per volume)
        w = dcmmeta.NiftiWrapper(nb.load('in.nii.gz'))
        e = w.meta_ext
        gc = e.get_class_dict(('global', 'const'))
        gc.update({'ZeroInt': 0, 'ZeroFloat': 0.0, 'EmptyStr': '', 'EmptyList': [], 'FalseVal': False, 'NullVal': None, 'OneInt': 1})
        ns = e.get_multiplicity(('global', 'slices'))
        gs = e.get_class_dict(('global', 'slices'))
        gs['SliceInts'] = [i % 2 for i in range(ns)]                        # 0, 1, 0, ...
        gs['SliceStrs'] = ['' if i % 2 == 0 else 's%d' % i for i in range(ns)]
        gs['SliceFloats'] = [0.0 if i % 3 == 0 else i / 2.0 for i in range(ns)]
        if T > 1:
            ts = e.get_class_dict(('time', 'samples'))
            ts['VolFloats'] = [0.0 if i % 2 == 0 else 1.5 for i in range(T)]
            ts['VolStrs'] = ['' if i % 2 == 0 else 'v' for i in range(T)]
            ts['VolInts'] = [0 if i % 2 == 1 else 7 for i in range(T)]
        e.check_valid()
        w.to_filename('in.nii.gz')
        argv = ['lookup'] + (['-i', ','.join(str(x) for x in case['index'])] if case['index'] is not None else []) + [case['key'], 'in.nii.gz']
        r = _run_nitool(argv)
        api = None
        try:
            v = dcmmeta.NiftiWrapper.from_filename('in.nii.gz').get_meta(case['key'], None if case['index'] is None else tuple(case['index']))
            # `print(v)` unless v is None: exactly str(v) and a newline -- '0', '0.0', 'False', '[]', and an EMPTY LINE for ''
            buf = io.StringIO()
            if v is not None:
                print(v, file=buf)
            want = buf.getvalue()
            api = None if v is None else str(v)
            api_raised = None
        except Exception as ex:
            want, api_raised = None, type(ex).__name__
        r['api'] = api
        r['api_repr'] = None if api_raised else repr(v)
        return dict(r, want=want, api_raised=api_raised)

    # ------------------------------------------------------------------------------------ Coq
    @staticmethod
    def coq_case(case, obs):
        k = case['kind']
        cl = lambda c: cpair(cstr(c[0]), cstr(c[1]))
        if k == 'inject':
            if obs.get('raised'):
                rc = '(Err %s)' % obs['raised']['err']
            elif isinstance(obs['rc'], int):
                rc = '(Ok %s)' % cz(obs['rc'])
            else:
                raise ValueError('unexpected exit %r' % (obs['rc'],))
            va = 'None'
            if obs['has_value']:
                try:
                    va = '(Some %s)' % _stored_lit(obs['value_after'])
                except ValueError:
                    va = 'None'
            return ('(NCInject {| j_valid := %s; j_mult := %s; j_keys := %s; j_cls := %s; j_key := %s; j_values := %s; j_type := %s; '
                    'j_force := %s; j_rc := %s; j_saved := %s; j_keys_after := %s; j_value_after := %s |})') % (
                clist(cl(c) for c in obs['v0']['valid']), clist(cpair(cl(c), cnat(m)) for c, m in obs['v0']['mult']),
                clist(cpair(cl(c), clist(cstr(x) for x in ks)) for c, ks in obs['v0']['keys']), cl(case['cls']), cstr(case['key']),
                clist(cstr(v) for v in case['values']), copt(case['type'], cstr), cbool(case['force']), rc, cbool(obs['saved']),
                clist(cpair(cl(c), clist(cstr(x) for x in ks)) for c, ks in obs['keys_after']), va)
        if k == 'split' and case.get('dim') is not None and obs.get('rc') == 0:
            return '(NCSplitNames %s %s %s)' % (cstr('sub/in.nii.gz'), cnat(len(obs['names'])), clist(cstr(n) for n in obs['names']))
        if k == 'split' and obs.get('rc') == 0:
            return '(NCSplitNames %s %s %s)' % (cstr('sub/in.nii.gz'), cnat(len(obs['names'])), clist(cstr(n) for n in obs['names']))
        if k == 'lookup' and not obs.get('api_raised') and not obs.get('raised') and obs.get('rc') == 0:
            return '(NCLookup %s %s %s)' % (copt(None if case['index'] is None else ','.join(str(x) for x in case['index']), cstr),
                                            copt(obs['api'], cstr), cstr(obs['stdout']))
        if k == 'merge' and case['sort'] and obs.get('order') is not None and -1 not in obs['order']:
            return '(NCMergeOrder %s %s)' % (clist(cz(x) for x in case['keys']), clist(cnat(x) for x in obs['order']))
        return 'NCOracleOnly'

    # ------------------------------------------------------------------------------------ oracle
    @staticmethod
    def oracle(case, obs):
        if 'crash' in obs:
            return 'harness/implementation crashed: %s %s' % (obs.get('crash'), str(obs.get('msg'))[:300])
        if obs.get('globals_same') is False:
            return 'a nitool invocation changed the module default regex lists'
        k = case['kind']
        if k == 'inject':
            ck = '/'.join(case['cls'])
            valid = case['cls'] in obs['v0']['valid']
            mult = dict(('/'.join(c), m) for c, m in obs['v0']['mult']).get(ck)
            is_new = not obs['key_before']
            should = valid and len(case['values']) == mult and (is_new or case['force'])
            conv_ok, want = True, None
            if should:
                try:
                    want = _py_convert(case['values'], case['type'])
                except (ValueError, KeyError):
                    conv_ok = False
            if not obs['image_same']:
                return 'inject changed the image data or geometry'
            if not obs['others_same']:
                return 'inject changed the value of a key other than %r' % case['key']
            if not (should and conv_ok):
                if obs['saved'] or obs['keys_after'] != obs['v0']['keys']:
                    why = ('classification %s is not valid for this image' % (case['cls'],) if not valid else
                           '%d values given, multiplicity is %s' % (len(case['values']), mult) if len(case['values']) != mult else
                           'key exists and --force-overwrite was not given' if should is False else 'the values do not convert to --type')
                    return 'inject rewrote the file although %s' % why
                if should is False and obs['rc'] != 1:
                    return 'inject refused (as it must) but exit status is %r' % (obs['rc'],)
                return None
            if obs['raised'] or obs['rc'] != 0:
                return 'inject with valid classification, %d values (multiplicity %s), key %s%s failed: rc=%r %r' % (
                    len(case['values']), mult, 'new' if is_new else 'existing', ' (forced)' if case['force'] else '', obs['rc'], obs['raised'])
            if not obs['saved'] or not obs['has_value']:
                return 'inject reported success but the key is not in the file'
            if obs['value_after'] != want or type(obs['value_after']) is not type(want) or \
                    (isinstance(want, list) and [type(x) for x in want] != [type(x) for x in obs['value_after']]):
                return 'inject stored %r under %s/%s, the given values are %r' % (obs['value_after'], ck, case['key'], want)
            if obs['key_elsewhere']:
                return 'after inject the key is also classified as %s' % obs['key_elsewhere']
            return None
        if k == 'dump-embed':
            if obs['r1']['raised'] or obs['r1']['rc'] != 0:
                return 'nitool dump failed: %r' % (obs['r1'],)
            if not obs['dump_is_ext']:
                return 'nitool dump did not write the JSON of the extension'
            if case['remove'] == obs['mid_has_ext']:
                return 'dump %s: extension %s afterwards' % ('-r' if case['remove'] else 'without -r', 'present' if obs['mid_has_ext'] else 'missing')
            if obs['r2']['raised'] or obs['r2']['rc'] != 0:
                return 'nitool embed failed: %r' % (obs['r2'],)
            if not obs['same_after']:
                return 'dump followed by embed does not reproduce the file (differs in %s)' % obs['diff']
            return None
        if k == 'split':
            if obs['api_raised']:
                return None if (obs['raised'] and obs['raised']['cls'] == obs['api_raised']) else \
                    'API split raises %s, nitool split ended with rc=%r raised=%r' % (obs['api_raised'], obs['rc'], obs['raised'])
            if obs['raised'] or obs['rc'] != 0:
                return 'nitool split failed (%r %r) although the API split works' % (obs['rc'], obs['raised'])
            if len(obs['names']) != obs['n_api']:
                return 'nitool split wrote %d files, the API split yields %d parts' % (len(obs['names']), obs['n_api'])
            if not obs['equal']:
                return 'nitool split files differ from the API split results in %s' % (obs['diff'],)
            return None
        if k == 'merge':
            if obs['api_raised']:
                return None if (obs['raised'] and obs['raised']['cls'] == obs['api_raised'] and not obs['wrote']) else \
                    'NiftiWrapper.from_sequence raises %s, nitool merge ended with rc=%r raised=%r' % (obs['api_raised'], obs['rc'], obs['raised'])
            if obs['raised'] or obs['rc'] != 0:
                return 'nitool merge failed: rc=%r %r' % (obs['rc'], obs['raised'])
            if not obs['equal']:
                return 'nitool merge output differs from NiftiWrapper.from_sequence in %s' % (obs['diff'],)
            return None
        if k == 'lookup':
            if obs['api_raised']:
                return None if obs['raised'] else 'get_meta raises %s but nitool lookup printed %r' % (obs['api_raised'], obs['stdout'])
            if obs['raised'] or obs['rc'] != 0:
                return 'nitool lookup failed: %r %r' % (obs['rc'], obs['raised'])
            if obs['stdout'] != obs['want']:
                return 'nitool lookup %s%s printed %r, but get_meta returns %s, i.e. print() gives %r' % (
                    case['key'], '' if case['index'] is None else ' -i ' + ','.join(str(x) for x in case['index']),
                    obs['stdout'], obs['api_repr'], obs['want'])
            return None
        return None

    @staticmethod
    def signature(case, obs, msg):
        return 'nitool-' + case['kind']

    @staticmethod
    def nontrivial(case, obs):
        return case['kind'] == 'inject' or (case['kind'] == 'merge' and case['sort']) or \
            (case['kind'] == 'lookup' and obs.get('api_repr') in ('0', '0.0', "''", '[]', 'False'))

    @staticmethod
    def shrink(case):
        if case['kind'] == 'inject':
            for f in ('S', 'T'):
                if case[f] > 1:
                    c = dict(case)
                    c[f] = case[f] - 1
                    yield c


PARTS = [Names, State, Nitool]

if __name__ == '__main__':
    if len(sys.argv) == 4 and sys.argv[1] == 'fresh':
        _fresh_main(sys.argv[2], sys.argv[3])


# source tie (integrator): make_key_regex_filter and its inner function are TRANSLATED from the Python AST on every run
# (tools/tables/t_src_filter.py -> Generated/T_src_filter.v) and Filter.Model.key_regex_filter is proved equal to the translation
COQ_PROPS = (list(COQ_PROPS) if isinstance(COQ_PROPS, (list, tuple)) else [COQ_PROPS]) + ['Props/SRCfilter.v']
THEOREMS = list(THEOREMS) + ['SRC_key_regex_filter', 'SRC_make_key_regex_filter']
TABLES = sorted(set(list(globals().get('TABLES') or []) + ['t_src_filter'])) if globals().get('TABLES') else None
TRUSTED_BASE = list(TRUSTED_BASE) + ['tools/tables/py2coq.py + t_src_filter.py: translator of make_key_regex_filter into Gallina (re.compile / search are parameters)']


# link (integrator): the abstract extension model (coq/Ext) is tied to the raw JSON content model (coq/Content, coq/Json,
# coq/Cli) through Link/Abs.v to_content / of_content; LinkPart compares to_content with the real _content on every run
from props import link as _link
COQ_PROPS = (list(COQ_PROPS) if isinstance(COQ_PROPS, (list, tuple)) else [COQ_PROPS]) + ['Props/C07link.v']
THEOREMS = list(THEOREMS) + ['C07_C19_inject_models_agree']
if globals().get('TABLES'): TABLES = sorted(set(list(TABLES) + _link.TABLES))
PARTS = list(PARTS) + [_link.LinkPart]
