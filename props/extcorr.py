"""Development check (not a property): correspondence of the whole extension model (merge + subset + lookups)
and the table facts.  Run:  ./check EXTCORR [--tier thorough]"""
from props import extlib

ID = 'EXTCORR'
COQ_PROPS = 'Ext/TableFacts.v'
THEOREMS = ['tables_decode', 'classifications_eq', 'const_dests_eq', 'repeat_dests_eq', 'preserving_eq', 'copy_dests_eq',
            'preserving_none_is_pref_order', 'preserving_increasing', 'preserving_transitive', 'const_tests_ordered',
            'class_valid_ok', 'meta_valid_atol_nonneg']
ALLOWED_AXIOMS = []
TRUSTED_BASE = ['coq/Ext/Model.v (hand model)']
ASSUMPTIONS = ['see props/extlib.py']
PARTS = [extlib.MergePart, extlib.SubsetPart]


class _Merge(extlib.MergePart):
    @staticmethod
    def oracle(case, obs):
        m = extlib.MergePart.oracle(case, obs)
        return None if m and extlib.finding_sig_merge(case, obs) else m     # open findings N1/N3/N4: corpus of C03


class _Subset(extlib.SubsetPart):
    @staticmethod
    def oracle(case, obs):
        m = extlib.SubsetPart.oracle(case, obs)
        return None if m and extlib.finding_sig_subset(case, obs) else m    # open finding N2: corpus of C04


PARTS = [_Merge, _Subset]
