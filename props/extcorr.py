"""Development check (not a property): correspondence of the whole extension model (merge + subset + lookups)
and the table facts.  Run:  ./check EXTCORR [--tier thorough]"""
from props import extlib

ID = 'EXTCORR'
COQ_PROPS = 'Ext/TableFacts.v'
THEOREMS = ['tables_decode', 'classifications_eq', 'const_dests_eq', 'repeat_dests_eq', 'preserving_eq', 'copy_dests_eq',
            'preserving_none_is_pref_order', 'preserving_increasing', 'preserving_transitive', 'const_tests_ordered',
            'class_valid_ok', 'meta_valid_atol_eq']
ALLOWED_AXIOMS = []
TRUSTED_BASE = ['coq/Ext/Model.v (hand model)']
ASSUMPTIONS = ['see props/extlib.py']
PARTS = [extlib.MergePart, extlib.SubsetPart]
