"""C04 Split is restriction: DcmMetaExtension.get_subset (extension level) and NiftiWrapper.split (image level)."""
from props import extlib

ID = 'C04'
COQ_PROPS = ['Props/C04.v', 'Props/C04img.v', 'Props/C04total.v']
THEOREMS = ['C04_subset_shape', 'C04_subset_den', 'C04_subset_trailing1_refuted', 'C04_split_pieces', 'C04_split_piece',
            'C04_split_data', 'C04_split_affine']
ALLOWED_AXIOMS = []
TRUSTED_BASE = ['hand-written Gallina model coq/Ext/Split.v of NiftiWrapper.split (data hyperplanes on a C-order flat list, cumulative '
                'translation update, trailing-dim trimming, extension subset), tied by Ext/CorrSplit.v check_split',
                'nibabel Nifti1Image/header is a contract: shape, dim_info slice, best affine = sform stored as float32 (dyadic '
                'geometry with few significant bits is exact), header.copy() keeps dim_info; qform/sform codes, intent etc. not modelled',
                'hand-written Gallina model coq/Ext/Model.v of get_subset/_copy_slice/_copy_sample/_global_slice_subset/_simplify, '
                'tied to the code by the correspondence run (Ext/Corr.v check_subset) and by the generated class tables']
ASSUMPTIONS = ['image level: the image matches its extension (same shape; slice dim_info equal to the extension slice dim, or absent); '
               'lookups of pieces are compared with the parent through get_meta with default None (an absent key denotes None)',
               'C04_split_data states the hyperplane law in (outer, inner) C-order offsets, not in multi-indices',
               'totality (get_subset / split never raise on the domain) is PROVED (Props/C04total.v), each hypothesis shown necessary by a refuted lemma',
               'values: Python == coincides with structural equality (generators never mix 1 / 1.0 / True, no NaN)',
               'inputs are valid and nondegenerate (no key in a varying class of multiplicity 1); idx < shape[dim]',
               'key order of the result is not modelled (compared as unordered maps)',
               'about 10% of the generated shapes end in a singleton dim ((X,Y,Z,1), (X,Y,Z,T,1)); there the real code raises KeyError when '
               'the extension holds a key in the class that vanishes from the trimmed result (open finding N2; the signature '
               're-derives that mechanism: vanishing base from the case, KeyError naming exactly that dictionary)',
               'exception CLASSES are not compared for get_subset / split (the property names none): a dimension the extension does '
               'not have must be refused, with any exception; an index beyond the axis is outside the property (correspondence only)']
from props import imglib
PARTS = [extlib.SubsetPart, extlib.SplitPart, imglib.for_property(imglib.ImgSplitPart, 'C04')]
THEOREMS = list(THEOREMS) + imglib.THEOREMS['Props/C04img.v'] + ['C04_subset_total', 'C04_subset_den_total', 'C04_subset_total_trailing1_refuted', 'C04_subset_total_idx_refuted', 'C04_subset_total_invalid_refuted', 'C04_split_total', 'C04img_split_total', 'C04img_split_w_total']
TRUSTED_BASE = list(TRUSTED_BASE) + imglib.TRUSTED_BASE
ASSUMPTIONS = list(ASSUMPTIONS) + imglib.ASSUMPTIONS


# source tie (integrator): the helper functions the extension model rests on are TRANSLATED from the Python AST on every
# run (tools/tables/py2coq.py, t_src_ext.py -> Generated/T_src_ext.v) and the hand models are proved equal to the translation
COQ_PROPS = (list(COQ_PROPS) if isinstance(COQ_PROPS, (list, tuple)) else [COQ_PROPS]) + ['Props/SRC.v']
THEOREMS = list(THEOREMS) + ['SRC_valid_classes', 'SRC_class_valid', 'SRC_multiplicity', 'SRC_is_constant', 'SRC_is_repeating', 'SRC_const_period', 'SRC_n_slices']
TABLES = sorted(set(list(globals().get('TABLES') or ['t_classes', 't_ext_tol']) + ['t_src_ext', 't_classes', 't_ext_tol']))
TRUSTED_BASE = list(TRUSTED_BASE) + ['tools/tables/py2coq.py + t_src_ext.py: typed fail-closed translator of is_constant, is_repeating, get_valid_classes, get_multiplicity, _get_const_period, n_slices into Gallina; coq/Common/PyOps2.v as the meaning of the translated primitives']


# source tie, stage A (integrator): _global_slice_subset and _get_changed_class are TRANSLATED from the AST on every run and the
# hand model (global_slice_subset, changed_class) is proved equal to the translation on stored content (Props/SRCalg.v)
COQ_PROPS = list(COQ_PROPS) + ['Props/SRCalg.v']
THEOREMS = list(THEOREMS) + ['SRC_global_slice_subset', 'SRC_changed_class']


# source tie, stage B (integrator): _change_class / _simplify are TRANSLATED in state-passing form (t_src_state.py) and the per-key
# model (change_class_k, simplify_k) is proved to be a refinement of the translation on the stored content (Props/SRCstate.v)
COQ_PROPS = list(COQ_PROPS) + ['Props/SRCstate.v']
THEOREMS = list(THEOREMS) + ['SRC_change_class', 'SRC_simplify', 'SRC_to_content_holds']
TABLES = sorted(set(list(TABLES) + ['t_src_state', 't_content', 't_cli']))


# source tie, stage C (integrator): _copy_slice is TRANSLATED in state-passing form and copy_slice_k folded over the source class
# dictionary is proved equal to the translation (Props/SRCsubset.v)
COQ_PROPS = list(COQ_PROPS) + ['Props/SRCsubset.v']
THEOREMS = list(THEOREMS) + ['SRC_copy_slice_step', 'SRC_copy_slice']


# source tie, stage C2 (integrator): _copy_sample TRANSLATED in state-passing form; copy_sample_k folded over the source class dictionary
# is proved equal to the translation (Props/SRCsample.v)
COQ_PROPS = list(COQ_PROPS) + ['Props/SRCsample.v']
THEOREMS = list(THEOREMS) + ['SRC_copy_sample_step', 'SRC_copy_sample']


# source tie, stage C3 (integrator): get_subset as a whole TRANSLATED (class-major) and proved to produce, on to_content e, a content that
# Holds exactly the hand model's get_subset result (Props/SRCgetsubset.v, success-case form)
COQ_PROPS = list(COQ_PROPS) + ['Props/SRCgetsubset.v']
THEOREMS = list(THEOREMS) + ['SRC_get_subset_content', 'SRC_get_subset']


# source tie, end to end (integrator): Props/SRCtop.v composes the translated get_subset / from_sequence with Link.Abs.to_content:
# for valid nondegenerate extensions the code's method on to_content e returns a content that Holds exactly the hand model's result
COQ_PROPS = list(COQ_PROPS) + ['Props/SRCtop.v']
THEOREMS = list(THEOREMS) + ['SRC_top_get_subset', 'SRC_top_get_subset_valid', 'SRC_sideb_sound']
