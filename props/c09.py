"""C09  Serialisation round-trips exactly through JSON and through NIfTI files.

Three correspondence parts:
  codec  random JSON values -> json.dumps(v, indent=4) / json.loads(.., object_pairs_hook=OrderedDict)
         (ties DV.Json.Model.print / parse to CPython on the image of the printer)
  loads  arbitrary texts (random white space, every escape style, duplicate keys, malformed) -> json.loads
         (ties DV.Json.Model.parse to CPython on a superset of the printer's image, error cases included)
  ext    DcmMetaExtensions built with make_empty + values -> to_json / str / from_json / from_runtime_repr /
         .nii and .nii.gz files, twice; plus a separate stream of invalid extensions
  ext_hist  histories of a live extension object: encoded/written (or loaded from a file), edited in place through the
         DcmMeta API, written again (once or twice); the reloaded extension and the raw bytes in the file are compared
         with the CURRENT in-memory extension
Values travel between generator, runner and Coq printer in a tagged form ("tv") that does not depend on
JSON's own float/int/unicode handling:
  ["n"] | ["b",bool] | ["i","<decimal>"] | ["f","<float.hex()>"] | ["s",[code points]] | ["a",[tv..]] | ["o",[[[cps],tv]..]]
"""
import os, json, math

from vlib.coqlit import cstr, cz, cbool, clist, cpair

ID = "C09"
COQ_PROPS = "Props/C09.v"
THEOREMS = ["C09_parse_print", "C09_print_stable", "C09_print_int_roundtrip", "C09_print_injective",
            "C09_to_json_defined_iff_valid", "C09_from_to", "C09_from_runtime_repr_iff_valid",
            "C09_str_is_json", "C09_utf8_roundtrip", "C09_mangle_is_ascii_json", "C09_constructors_agree", "C09_file_roundtrip_partial",
            "C09_save_load_twice_partial", "C09_history_step_partial", "C09_history_cache_irrelevant_partial"]
ALLOWED_AXIOMS = []
RULE = ("codec: random JSON values (ints up to ~1200 digits, floats drawn from random bit patterns, subnormals, "
        "extreme exponents, -0.0, NaN/Infinity; strings over control characters, quotes, backslashes, DEL, Latin-1, "
        "BMP boundary code points and non-BMP code points; nested lists/dicts to depth 3 (quick) / 5 (thorough); weird and "
        "empty keys), non-trivial = contains a container or an escape; loads: texts printed with random white space, "
        "escape spellings, duplicate keys, then randomly damaged; ext: valid extensions of every shape class (3-D, 4-D, "
        "5-D, singleton time) with such values in every classification, plus invalid extensions of eight kinds")
TRUSTED_BASE = [
    "Section variable `check_valid : jv -> res unit` in Json/Model.v (the validity check, modelled and proved in DV.Content for C10); "
    "in the ext correspondence it is instantiated with the implementation's own check_valid() outcome on that content",
    "Section variable `store : str -> option str` with hypothesis `store b = Some b` standing for nibabel + gzip + the file system "
    "(to_filename followed by load hands back the extension bytes unchanged); exercised by the ext part on real .nii / .nii.gz files",
    "float tokens are opaque lexemes: float.__repr__ / float() shortest round-trip is not modelled; bit-exactness of floats is "
    "checked on the implementation by float.hex() in the oracle and by comparing the printed token with repr in the correspondence",
    "CPython 3.12 json (pure-Python encoder loop + C string encoder, C scanner) is tied to print/parse by the codec and loads parts",
]
ASSUMPTIONS = [
    "domain of the round-trip theorems (wf): strings and keys are sequences of Unicode scalar values (no lone surrogates: a Python "
    "str holding a high surrogate followed by a low surrogate does not survive json), object keys are strings and pairwise "
    "distinct, float tokens are lexemes of the JSON number grammar with a fraction or exponent, or NaN/Infinity/-Infinity",
    "integers are unbounded in the model; CPython refuses to print or parse more than 4300 digits (sys.set_int_max_str_digits), "
    "generators stay below 1300 digits",
    "extension generator: values are JSON-representable Python values (no tuples, no non-string dict keys, no NaN: NaN is not "
    "equal to itself so `==` of extensions fails although the bytes round-trip); key strings arbitrary non-surrogate text",
    "file half is labelled partial: nibabel/gzip I/O is a hypothesis of the theorem, exercised by the correspondence only",
]

REPO = os.environ.get('DCMSTACK_REPO', '/repo')

# ------------------------------------------------------------------------------------------------
# tagged values

def dec(tv):
    t = tv[0]
    if t == 'n':
        return None
    if t == 'b':
        return bool(tv[1])
    if t == 'i':
        return int(tv[1])
    if t == 'f':
        return float.fromhex(tv[1])
    if t == 's':
        return ''.join(chr(c) for c in tv[1])
    if t == 'a':
        return [dec(x) for x in tv[1]]
    if t == 'o':
        from collections import OrderedDict
        d = OrderedDict()
        for k, v in tv[1]:
            d[''.join(chr(c) for c in k)] = dec(v)
        return d
    raise ValueError(t)


class Tok(object):
    """A float lexeme kept verbatim (parse_float / parse_constant hook of json.loads)."""
    def __init__(self, s):
        self.s = s


def enc(v):
    if v is None:
        return ['n']
    if isinstance(v, bool):
        return ['b', v]
    if isinstance(v, int):
        return ['i', str(v)]
    if isinstance(v, float):
        return ['f', v.hex()]
    if isinstance(v, Tok):
        return ['t', [ord(c) for c in v.s]]
    if isinstance(v, str):
        return ['s', [ord(c) for c in v]]
    if isinstance(v, (list, tuple)):
        return ['a', [enc(x) for x in v]]
    if hasattr(v, 'items'):
        return ['o', [[[ord(c) for c in k], enc(x)] for k, x in v.items()]]
    raise TypeError('not a JSON value: %r' % type(v))


def ftok(x):
    if x != x:
        return 'NaN'
    if x == math.inf:
        return 'Infinity'
    if x == -math.inf:
        return '-Infinity'
    return float.__repr__(x)


def ctext(s):
    """A text as [str]: pure printable-ASCII/newline texts as a Coq string literal (fast to parse), others as code points."""
    if s and all(32 <= ord(c) < 127 or c == '\n' for c in s):
        return '(Corr.sos "%s"%%string)' % s.replace('"', '""')
    return cstr(s)


def ccps(cps):
    if not cps:
        return '(@nil N)'
    if all(32 <= c < 127 for c in cps):
        return '(Corr.sos "%s"%%string)' % ''.join(chr(c) for c in cps).replace('"', '""')
    return '[' + '; '.join('%d' % c for c in cps) + ']%N'


def tv_coq(tv):
    t = tv[0]
    if t == 'n':
        return 'JNull'
    if t == 'b':
        return '(JBool %s)' % cbool(bool(tv[1]))
    if t == 'i':
        z = int(tv[1])
        if abs(z) >= 10 ** 40:
            return '(JInt (Corr.zdec %s "%d"%%string))' % (cbool(z < 0), abs(z))
        return '(JInt %s)' % cz(z)
    if t == 'f':
        return '(JNum %s)' % ctext(ftok(float.fromhex(tv[1])))
    if t == 't':
        return '(JNum %s)' % ccps(tv[1])
    if t == 's':
        return '(JStr %s)' % ccps(tv[1])
    if t == 'a':
        return '(JArr %s)' % clist(tv_coq(x) for x in tv[1])
    if t == 'o':
        return '(JObj %s)' % clist(cpair(ccps(k), tv_coq(v)) for k, v in tv[1])
    raise ValueError(t)


def same(a, b):
    """Exact equality of JSON values: same types, same order of keys, floats bit for bit."""
    if a is None or b is None:
        return a is None and b is None
    if isinstance(a, bool) or isinstance(b, bool):
        return isinstance(a, bool) and isinstance(b, bool) and a == b
    if isinstance(a, int) or isinstance(b, int):
        return isinstance(a, int) and isinstance(b, int) and a == b
    if isinstance(a, float) or isinstance(b, float):
        if not (isinstance(a, float) and isinstance(b, float)):
            return False
        return (a != a and b != b) or a.hex() == b.hex()
    if isinstance(a, str) or isinstance(b, str):
        return isinstance(a, str) and isinstance(b, str) and a == b
    if isinstance(a, list) or isinstance(b, list):
        return (isinstance(a, list) and isinstance(b, list) and len(a) == len(b)
                and all(same(x, y) for x, y in zip(a, b)))
    if hasattr(a, 'items') and hasattr(b, 'items'):
        ia, ib = list(a.items()), list(b.items())
        return len(ia) == len(ib) and all(ka == kb and isinstance(ka, str) and isinstance(kb, str) and same(va, vb)
                                          for (ka, va), (kb, vb) in zip(ia, ib))
    return False


def tv_size(tv):
    t = tv[0]
    if t in ('a',):
        return 1 + sum(tv_size(x) for x in tv[1])
    if t == 'o':
        return 1 + sum(len(k) + tv_size(x) for k, x in tv[1])
    if t in ('s', 't'):
        return 1 + len(tv[1])
    if t == 'i':
        return 1 + len(tv[1])
    return 1


def tv_interesting(tv):
    """contains a container, or a string that needs an escape, or a big int"""
    t = tv[0]
    if t in ('a', 'o'):
        return True
    if t == 's':
        return any(c < 32 or c > 126 or c in (34, 92) for c in tv[1])
    if t == 'i':
        return len(tv[1]) > 18
    return t == 'f'


# ------------------------------------------------------------------------------------------------
# generators

SPECIAL_CPS = [0, 1, 8, 9, 10, 12, 13, 27, 31, 32, 34, 39, 47, 92, 117, 126, 127, 128, 159, 160, 233, 255, 256, 0x3b1,
               0x2028, 0x2029, 0xd7ff, 0xe000, 0xfeff, 0xfffd, 0xfffe, 0xffff, 0x10000, 0x10001, 0x103ff, 0x10400,
               0x1f600, 0x1d11e, 0xfffff, 0x100000, 0x10fc00, 0x10ffff]


def gen_cp(rng):
    r = rng.random()
    if r < 0.35:
        return rng.randrange(32, 127)
    if r < 0.6:
        return rng.choice(SPECIAL_CPS)
    if r < 0.7:
        return rng.randrange(0, 32)
    if r < 0.8:
        return rng.randrange(128, 0x800)
    if r < 0.9:
        c = rng.randrange(0x800, 0x10000)
        return c if not (0xd800 <= c <= 0xdfff) else 0x4e2d
    return rng.randrange(0x10000, 0x110000)


HOSTILE_WORDS = ['NaN', 'Infinity', '-Infinity', 'null', 'true', 'false', 'None', 'True', 'False', 'nan', 'inf', '-inf', 'NULL',
                 'undefined', '1e5', '-0.0', '0.0', '1.0', '12', '-1', '1e+22', '5e-324', '0x10', '{', '}', '[', ']', ':', ',', '{}',
                 '[]', '": "', ': ', '", "', '":', ',"', '\\n', '\\u0041', '\\"', '\\\\', '\\t', '\\', '#', '//', '/*', '*/', "'",
                 '"', '\n', '\t', ' ', '    ', '\r\n', ': NaN', ': Infinity,', '[NaN]', ', null', '= NaN;', ': true', ': -Infinity\n',
                 '\u2028', '\u00e9', '\U0001f600', '\x7f', '\x00', 'NaN,', ' NaN ', '-Infinity]', 'Infinity}', 'nullnull', 'NaNs',
                 'InfinityWar', 'truely', 'falsetto', '"NaN"', '"Infinity"', "'NaN'"]
HOSTILE_TEMPLATES = ['%s', '%s', ' %s', '%s ', '\t%s', '%s\t', ' %s ', 'zoom = %s (clipped)', 'fill value (%s or 0)', 'a%sb', '%s%s',
                     'x: %s, y: %s', '{"k": %s}', '[%s, %s]', 'key %s', '%s # comment', '"%s"', '%s: %s', 'value is %s.', '(%s)',
                     '  %s\n', '%s,%s,%s', 'pre\n    "%s": %s,\n', '\\%s', '%s\\']


def gen_hostile_str(rng, maxlen=None):
    """text containing JSON-significant words and fragments, alone and embedded, with and without surrounding space"""
    tpl = rng.choice(HOSTILE_TEMPLATES)
    s = tpl % tuple(rng.choice(HOSTILE_WORDS) for _ in range(tpl.count('%s')))
    return [ord(c) for c in s]


def gen_str(rng, maxlen=12):
    r = rng.random()
    if r < 0.08:
        return []
    if r < 0.16:   # text that looks like escapes / JSON syntax
        return [ord(c) for c in rng.choice(['\\u0041', '\\n', '\\"', '"', '\\', '\\\\', '/', '</script>', '{"a": 1}', '[1,]',
                                             'null', 'NaN', '-Infinity', '1e5', ' ', '\t\r\n', ': ', ',', '\\ud83d\\ude00'])]
    if r < 0.32:
        return gen_hostile_str(rng)
    n = rng.randrange(1, maxlen + 1)
    return [gen_cp(rng) for _ in range(n)]


def gen_int(rng):
    r = rng.random()
    if r < 0.3:
        return rng.choice([0, 1, -1, 7, 10, -10, 99, 100, 2**31 - 1, -2**31, 2**53, 2**53 + 1, -2**63, 2**64, 10**18, -10**19])
    if r < 0.6:
        return rng.randrange(-10**6, 10**6)
    if r < 0.9:
        bits = rng.randrange(40, 600)
    else:
        bits = rng.randrange(600, 4000)
    v = rng.getrandbits(bits) | (1 << (bits - 1))
    if rng.random() < 0.2:
        v = 10 ** rng.randrange(1, 300)
    return -v if rng.random() < 0.5 else v


FIXED_FLOATS = [0.0, -0.0, 1.0, -1.0, 0.1, 0.5, 1.5, 1e22, 1e21, 1e16, 1e15, 123456789012345680.0, 1e-5, 1e-4, 0.0001, 1e-7,
                5e-324, -5e-324, 2.2250738585072014e-308, 2.225073858507201e-308, 1.7976931348623157e308, -1.7976931348623157e308,
                4.9406564584124654e-324, 1 / 3.0, 2 / 3.0, 0.30000000000000004, 9007199254740993.0, 1e100, 1.2e-100, 6.02214076e23,
                3.141592653589793, 0.6, 100.0, 1e23, 8.41e21, 2.5e-8]


def gen_float(rng, nonfinite):
    import struct
    r = rng.random()
    if nonfinite and r < 0.08:
        return rng.choice([math.nan, math.inf, -math.inf])
    if r < 0.4:
        return rng.choice(FIXED_FLOATS)
    if r < 0.55:   # subnormals
        return math.ldexp(rng.randrange(1, 2**52), -1074) * rng.choice([1, -1])
    if r < 0.7:    # huge
        return math.ldexp(rng.random() + 1, rng.randrange(900, 1023)) * rng.choice([1, -1])
    if r < 0.8:
        return round(rng.uniform(-1000, 1000), rng.randrange(0, 6))
    while True:
        x = struct.unpack('<d', struct.pack('<Q', rng.getrandbits(64)))[0]
        if x == x and abs(x) != math.inf:
            return x


def gen_scalar(rng, nonfinite=True, strgen=None):
    strgen = strgen or gen_str
    r = rng.random()
    if strgen is gen_hostile_str:
        if r < 0.5:
            return ['s', strgen(rng)]
        if r < 0.75 and nonfinite:
            return ['f', rng.choice([math.nan, math.inf, -math.inf]).hex()]
    if r < 0.08:
        return ['n']
    if r < 0.16:
        return ['b', rng.random() < 0.5]
    if r < 0.42:
        return ['i', str(gen_int(rng))]
    if r < 0.68:
        return ['f', gen_float(rng, nonfinite).hex()]
    return ['s', strgen(rng)]


def gen_keys(rng, n, taken=None, strgen=None):
    strgen = strgen or gen_str
    seen = set(taken or ())
    out = []
    while len(out) < n:
        k = strgen(rng, 8)
        if tuple(k) in seen:
            k = k + [rng.randrange(97, 123), len(seen) % 10 + 48]
            if tuple(k) in seen:
                continue
        seen.add(tuple(k))
        out.append(k)
    return out


def gen_value(rng, depth, nonfinite=True, width=4, strgen=None):
    if depth <= 0 or rng.random() < 0.35:
        return gen_scalar(rng, nonfinite, strgen)
    n = rng.choice([0, 1, 1, 2, 2, 3, width])
    if rng.random() < 0.5:
        return ['a', [gen_value(rng, depth - 1, nonfinite, width, strgen) for _ in range(n)]]
    ks = gen_keys(rng, n, None, strgen)
    return ['o', [[k, gen_value(rng, depth - 1, nonfinite, width, strgen)] for k in ks]]


def tv_has_nan(tv):
    t = tv[0]
    if t == 'f':
        return tv[1] == 'nan'
    if t == 'a':
        return any(tv_has_nan(x) for x in tv[1])
    if t == 'o':
        return any(tv_has_nan(x) for _, x in tv[1])
    return False


def shrink_tv(tv):
    """strictly smaller candidates"""
    t = tv[0]
    if t in ('a', 'o'):
        items = tv[1]
        for i in range(len(items)):
            yield [t, items[:i] + items[i + 1:]]
        for i, it in enumerate(items):
            sub = it if t == 'a' else it[1]
            yield sub
            for s in shrink_tv(sub):
                yield [t, items[:i] + [s if t == 'a' else [it[0], s]] + items[i + 1:]]
            if t == 'o' and len(it[0]) > 1:
                yield [t, items[:i] + [[it[0][:1], it[1]]] + items[i + 1:]]
    elif t == 's':
        if len(tv[1]) > 1:
            yield ['s', tv[1][:len(tv[1]) // 2]]
            yield ['s', tv[1][len(tv[1]) // 2:]]
    elif t == 'i':
        if len(tv[1]) > 2:
            yield ['i', tv[1][:len(tv[1]) // 2].rstrip('-') or '0']


# ------------------------------------------------------------------------------------------------
# part 1: codec

class Codec:
    NAME = "codec"
    CORR_REQUIRE = "From Coq Require Import String.\nFrom DV Require Import Common.Str Common.Jv Json.Model Json.Corr."
    CORR_CASE_TYPE = "Corr.codec_case"
    CORR_CHECK = "Corr.check_codec"
    CORR_SHOW = "Corr.show_codec"
    SHARD = 24
    IMPL_TIMEOUT = 20
    RULE = "random JSON values; observation = exact json.dumps(indent=4) text; model must print the same text and parse it back"

    @staticmethod
    def gen_cases(rng, tier):
        n = 260 if tier == 'quick' else 1600
        depth = 3 if tier == 'quick' else 5
        out = []
        # a few fixed corner cases first
        fixed = [['a', []], ['o', []], ['a', [['a', []], ['o', []]]], ['s', []], ['o', [[[], ['n']]]],
                 ['i', '-' + '9' * 1200], ['s', [0x1f600, 34, 92, 10, 0x7f, 0xffff, 0x10000, 0x10ffff]],
                 ['f', '-0x0.0p+0'], ['f', 'nan'], ['f', 'inf'], ['f', '-inf'],
                 ['o', [[[0xe9], ['a', [['i', '-123456789012345678901234567890'], ['f', (5e-324).hex()]]]],
                        [[34, 92], ['o', [[[0x10000], ['n']]]]]]]]
        for v in fixed:
            out.append({'kind': 'fixed', 'v': v})
        nh = 80 if tier == 'quick' else 400
        for _ in range(nh):
            r = rng.random()
            if r < 0.3:
                v = ['s', gen_hostile_str(rng)]
            elif r < 0.5:
                v = ['a', [gen_scalar(rng, True, gen_hostile_str) for _ in range(rng.randrange(1, 5))]]
            else:
                v = ['o', [[k, gen_value(rng, rng.choice([0, 0, 1, 2]), True, 3, gen_hostile_str)]
                           for k in gen_keys(rng, rng.randrange(1, 5), None, gen_hostile_str)]]
            out.append({'kind': 'hostile', 'v': v})
        n += nh
        while len(out) < n:
            r = rng.random()
            if r < 0.25:
                v, kind = gen_scalar(rng), 'scalar'
            elif r < 0.4:
                v, kind = ['s', gen_str(rng, 40)], 'string'
            else:
                d = rng.randrange(1, depth + 1)
                v, kind = gen_value(rng, d, True, 3 if d > 3 else 4), 'nested%d' % d
            if tv_size(v) > 2500:
                continue
            out.append({'kind': kind, 'v': v})
        return out

    @staticmethod
    def run_impl(case):
        from collections import OrderedDict
        v = dec(case['v'])
        text = json.dumps(v, indent=4)
        back = json.loads(text, object_pairs_hook=OrderedDict)
        again = json.dumps(back, indent=4)
        return {'text': text, 'same': same(v, back), 'redump_same': again == text}

    @staticmethod
    def coq_case(case, obs):
        if not isinstance(obs, dict) or 'text' not in obs:
            return '{| Corr.cc_val := %s; Corr.cc_text := (@nil N) |}' % tv_coq(case['v'])
        return '{| Corr.cc_val := %s; Corr.cc_text := %s |}' % (tv_coq(case['v']), ctext(obs['text']))

    @staticmethod
    def oracle(case, obs):
        if not isinstance(obs, dict) or 'crash' in obs:
            return 'json.dumps/json.loads failed on a JSON value: %s' % (obs.get('crash') if isinstance(obs, dict) else obs)
        if not obs.get('same'):
            return 'json text does not read back to the same value (types, key order, float bits)'
        if not obs.get('redump_same'):
            return 're-serialised JSON differs from the first serialisation'
        return None

    @staticmethod
    def signature(case, obs, msg):
        return 'codec/' + msg.split(' ')[0]

    @staticmethod
    def nontrivial(case, obs):
        return tv_interesting(case['v'])

    @staticmethod
    def shrink(case):
        for v in shrink_tv(case['v']):
            yield {'kind': case['kind'], 'v': v}


# ------------------------------------------------------------------------------------------------
# part 2: loads (parser on a superset of the printer's image)

def rand_ws(rng):
    r = rng.random()
    if r < 0.5:
        return ''
    return ''.join(rng.choice(' \t\n\r') for _ in range(rng.randrange(1, 4)))


def sloppy_str(rng, cps):
    out = ['"']
    for c in cps:
        r = rng.random()
        if 0xd800 <= c <= 0xdfff:
            out.append('\\u%04x' % c)
        elif c in (34, 92) or c < 32:
            short = {34: '\\"', 92: '\\\\', 8: '\\b', 12: '\\f', 10: '\\n', 13: '\\r', 9: '\\t'}
            if c in short and r < 0.6:
                out.append(short[c])
            else:
                out.append(('\\u%04x' if r < 0.8 else '\\u%04X') % c)
        elif c == 47 and r < 0.5:
            out.append('\\/')
        elif r < 0.55:
            out.append(chr(c))                  # raw, also for non-ASCII
        elif c < 0x10000:
            out.append(('\\u%04x' if r < 0.8 else '\\u%04X') % c)
        else:
            v = c - 0x10000
            hi, lo = 0xd800 + (v >> 10), 0xdc00 + (v & 0x3ff)
            out.append(('\\u%04x\\u%04x' if r < 0.8 else '\\u%04X\\u%04x') % (hi, lo))
    out.append('"')
    return ''.join(out)


def sloppy_print(rng, tv):
    t = tv[0]
    if t == 'n':
        return 'null'
    if t == 'b':
        return 'true' if tv[1] else 'false'
    if t == 'i':
        return tv[1]
    if t == 'f':
        x = float.fromhex(tv[1])
        s = ftok(x)
        r = rng.random()
        if x == x and abs(x) != math.inf:
            if r < 0.15:
                s = '%e' % x
            elif r < 0.3:
                s = s.replace('e', 'E')
            elif r < 0.4 and 'e' not in s:
                s = s + '0'
            elif r < 0.5 and 'e' in s:
                s = s.replace('e+', 'e').replace('e-0', 'e-')
        return s
    if t == 's':
        return sloppy_str(rng, tv[1])
    if t == 'a':
        return '[' + rand_ws(rng) + (rand_ws(rng) + ',' + rand_ws(rng)).join(sloppy_print(rng, x) for x in tv[1]) + rand_ws(rng) + ']'
    if t == 'o':
        items = list(tv[1])
        if items and rng.random() < 0.3:      # duplicate keys
            k, v = rng.choice(items)
            items.insert(rng.randrange(len(items) + 1), [k, gen_scalar(rng)])
        return ('{' + rand_ws(rng)
                + (rand_ws(rng) + ',' + rand_ws(rng)).join(sloppy_str(rng, k) + rand_ws(rng) + ':' + rand_ws(rng) + sloppy_print(rng, v)
                                                            for k, v in items)
                + rand_ws(rng) + '}')
    raise ValueError(t)


DAMAGE_CHARS = list('{}[],:"\\ \n\tntfuNI-+.eE0123456789/x') + ['\x00', '\x1f', '\x7f', '\u00e9', '\ud800', '\ufeff', '\U0001f600']
HAND_TEXTS = ['', ' ', '[]', '{}', '[ ]', '{ }', '[,]', '[1,]', '{"a":1,}', '{,}', '[1 2]', '{"a" 1}', '{"a":}', '{a:1}', "{'a':1}",
              '01', '-', '-0', '-01', '1.', '1.e5', '1e', '1e+', '.5', '+1', '1.5e', '1.5e+', '1E5', '1e-0', '-0.0', '0.0e0', '00',
              '0x10', '1_000', 'NaN', 'Infinity', '-Infinity', '-Inf', 'nan', 'Nan', 'Infinit', '-NaN', 'nul', 'nullx', 'null null',
              'true', 'tru', 'True', 'false', 'fals', '"', '"a', '"\\', '"\\u', '"\\u12"', '"\\u123g"', '"\\x41"', '"\\a"',
              '"\\ud800"', '"\\udc00"', '"\\ud800\\udc00"', '"\\ud800\\ud800"', '"\\ud800\\u0041"', '"\\udc00\\ud800"',
              '"\\ud800\\n"', '"\\ud800\\', '"\\ud800\\u', '"\\ud800\\udc0', '"\\ud800\\udc0g"', '"\\ud800\\uDC00"', '"\\uD83D\\uDE00"',
              '"\\ud800x\\udc00"', '"\t"', '"\n"', '"\x7f"', '"\x1f"', '"\u2028"', '\ufeff[]', '[]\ufeff', ' [] ', '\n{\n}\n', '[] []',
              '[[[[[[]]]]]]', '[[]', '[]]', '{"a":{"a":{"a":{}}}}', '{"a":1,"a":2}', '{"a":1,"b":2,"a":3}', '{"":0}', '{"a":1 ,"b":2}',
              '{"a"\n:\n1}', '\x0b[]', '\x0c1', '[1\x0b]', '\u00a01', '1 \u00a0', '[1,\u20282]', '123456789012345678901234567890',
              '-123456789012345678901234567890', '1.7976931348623157e+308', '1e999', '-1e999', '5e-324', '1e-999', '0e0', '0E+0', '-0e-0',
              '{"a":[1,2,{"b":null}],"c":"\\u00e9"}', '[1.5,2e3,-3.25E-2, 4 ]', '"\\/"', '"/"', '"\\b\\f\\n\\r\\t\\"\\\\"',
              '--1', '1-', '1+1', '1e1.5', '1.5.5', '[1.]', '[.1]', '[-]', '{"a":-}', '[nul]', '[NaN,Infinity,-Infinity]', '[-Infinity1]',
              'Infinity8', 'NaNa', '[tru]', '"abc" x', '{} x', '1 2', '\t1\r', '"\\u0000"', '"\\uffff"', '"\\uFFFF"', '"\\uAbCd"',
              '"\\u00zz"', '"\\u 123"', '"\\u+123"', '"\\u1_23"', '"\\u12345"', '"\\ud83d\\ude00\\ud83d"', '"\\ud83d\\ud83d\\ude00"']


class Loads:
    NAME = "loads"
    CORR_REQUIRE = "From Coq Require Import String.\nFrom DV Require Import Common.Str Common.Jv Json.Model Json.Corr."
    CORR_CASE_TYPE = "Corr.loads_case"
    CORR_CHECK = "Corr.check_loads"
    CORR_SHOW = "Corr.show_loads"
    SHARD = 30
    IMPL_TIMEOUT = 20
    RULE = ("texts with random white space / escape spellings / duplicate keys / non-canonical float lexemes, hand-written corner "
            "cases and randomly damaged texts; observation = json.loads result with float lexemes kept verbatim "
            "(parse_float/parse_constant hooks) or JSONDecodeError")

    @staticmethod
    def gen_cases(rng, tier):
        n = 300 if tier == 'quick' else 1500
        out = [{'kind': 'hand', 'text': [ord(c) for c in t]} for t in HAND_TEXTS]
        while len(out) < len(HAND_TEXTS) + n:
            v = gen_value(rng, rng.randrange(0, 4), True, 3)
            if tv_size(v) > 600:
                continue
            text = sloppy_print(rng, v)
            if rng.random() < 0.5:
                text = rand_ws(rng) + text + rand_ws(rng)
            kind = 'sloppy'
            if rng.random() < 0.45 and text:
                kind = 'damaged'
                for _ in range(rng.choice([1, 1, 2])):
                    i = rng.randrange(len(text) + 1)
                    r = rng.random()
                    if r < 0.35 and i < len(text):
                        text = text[:i] + text[i + 1:]
                    elif r < 0.7:
                        text = text[:i] + rng.choice(DAMAGE_CHARS) + text[i:]
                    elif r < 0.85 and i < len(text):
                        text = text[:i] + rng.choice(DAMAGE_CHARS) + text[i + 1:]
                    else:
                        text = text[:i]
            out.append({'kind': kind, 'text': [ord(c) for c in text]})
        return out

    @staticmethod
    def run_impl(case):
        from collections import OrderedDict
        text = ''.join(chr(c) for c in case['text'])
        try:
            v = json.loads(text, object_pairs_hook=OrderedDict, parse_float=Tok, parse_constant=Tok)
        except json.JSONDecodeError:
            return {'err': 'EValue'}
        return {'res': enc(v)}

    @staticmethod
    def coq_case(case, obs):
        if isinstance(obs, dict) and 'res' in obs:
            res = '(Some %s)' % tv_coq(obs['res'])
        elif isinstance(obs, dict) and obs.get('err') == 'EValue':
            res = 'None'
        else:   # unexpected crash of the implementation runner: make the case visible as a mismatch
            res = '(Some (JArr [JNull; JNull; JNull]))' if case['text'] != [91, 93] else 'None'
        return '{| Corr.lc_text := %s; Corr.lc_result := %s |}' % (ccps(case['text']), res)

    @staticmethod
    def oracle(case, obs):
        return None       # the property says nothing about arbitrary texts; this part only ties the parser model

    @staticmethod
    def signature(case, obs, msg):
        return 'loads'

    @staticmethod
    def nontrivial(case, obs):
        return len(case['text']) > 2


# ------------------------------------------------------------------------------------------------
# part 3: extensions

CLASSES = [('global', 'const'), ('global', 'slices'), ('time', 'samples'), ('time', 'slices'),
           ('vector', 'samples'), ('vector', 'slices')]


def valid_classes(shape):
    if len(shape) == 3:
        return CLASSES[:2]
    if len(shape) == 4:
        return CLASSES[:4]
    if shape[3] != 1:
        return CLASSES
    return CLASSES[:2] + CLASSES[-2:]


def multiplicity(shape, slice_dim, cls):
    base, sub = cls
    if sub == 'const':
        return 1
    if sub == 'slices':
        if slice_dim is None:
            return 0
        n = shape[slice_dim]
        if base == 'vector':
            n *= shape[3]
        elif base == 'global':
            for d in shape[3:]:
                n *= d
        return n
    if base == 'time':
        n = shape[3]
        if len(shape) == 5:
            n *= shape[4]
        return n
    return shape[4]


CORRUPTIONS = ['del_req', 'bad_count', 'dup_key', 'slice_dim_bad', 'shape_len', 'affine_shape', 'slices_without_dim', 'missing_sub']
PATHS = ['json', 'runtime', 'nii', 'nii2', 'niigz', 'niigz2']


def gen_affine(rng):
    r = rng.random()
    if r < 0.3:
        m = [[1.0, 0.0, 0.0, 0.0], [0.0, 1.0, 0.0, 0.0], [0.0, 0.0, 1.0, 0.0], [0.0, 0.0, 0.0, 1.0]]
    else:
        m = [[rng.uniform(-3, 3) if rng.random() < 0.8 else gen_float(rng, False) for _ in range(4)] for _ in range(3)]
        m = [[x if abs(x) < 1e30 else 1.5 for x in row] for row in m]
        m.append([0.0, 0.0, 0.0, 1.0])
    return [[x.hex() for x in row] for row in m]


def gen_ext_case(rng, depth, corrupt=None, hostile=False):
    strgen = gen_hostile_str if hostile else None
    nonfin = bool(hostile)
    nd = rng.choice([3, 3, 4, 4, 5, 5])
    shape = [rng.randrange(1, 4) for _ in range(nd)]
    if nd == 5 and rng.random() < 0.3:
        shape[3] = 1
    slice_dim = rng.choice([None, 0, 1, 2, 2])
    if corrupt == 'slices_without_dim':
        slice_dim = None
    entries = []
    taken = set()
    for cls in valid_classes(shape):
        m = multiplicity(shape, slice_dim, cls)
        if m == 0:
            continue
        for k in gen_keys(rng, rng.choice([0, 1, 1, 2, 3]) + (1 if hostile else 0), taken, strgen):
            taken.add(tuple(k))
            if cls[1] == 'const':
                v = gen_value(rng, depth, nonfin, 3, strgen)
            else:
                d = rng.choice([0, 0, 1, max(0, depth - 1)])
                v = ['a', [gen_value(rng, d, nonfin, 3, strgen) for _ in range(m)]]
            entries.append([cls[0], cls[1], k, v])
    rng.shuffle(entries)
    extra = []
    if rng.random() < 0.25:
        for k in gen_keys(rng, rng.choice([1, 2]), taken | {tuple(map(ord, s)) for s in
                                                            ('global', 'time', 'vector', 'dcmmeta_shape', 'dcmmeta_affine',
                                                             'dcmmeta_reorient_transform', 'dcmmeta_slice_dim', 'dcmmeta_version')},
                          strgen):
            extra.append([k, gen_value(rng, 1, nonfin, 2, strgen)])
    return {'kind': ('invalid/' + corrupt) if corrupt else ('hostile%dd' % nd if hostile else 'valid%dd' % nd), 'shape': shape, 'slice_dim': slice_dim,
            'affine': gen_affine(rng), 'reorient': gen_affine(rng) if rng.random() < 0.5 else None,
            'entries': entries, 'extra': extra, 'corrupt': corrupt, 'csel': rng.randrange(1000)}


def build_ext(case):
    import numpy as np
    from dcmstack.dcmmeta import DcmMetaExtension
    shape = tuple(case['shape'])
    aff = np.array([[float.fromhex(x) for x in row] for row in case['affine']])
    reo = None if case['reorient'] is None else np.array([[float.fromhex(x) for x in row] for row in case['reorient']])
    ext = DcmMetaExtension.make_empty(shape, aff, reo, case['slice_dim'])
    for base, sub, k, v in case['entries']:
        ext.get_class_dict((base, sub))[''.join(chr(c) for c in k)] = dec(v)
    for k, v in case.get('extra', []):
        ext._content[''.join(chr(c) for c in k)] = dec(v)
    c = case.get('corrupt')
    if c:
        corrupt_ext(ext, case, c)
    return ext


def corrupt_ext(ext, case, c):
    content = ext._content
    sel = case.get('csel', 0)
    shape, sd = case['shape'], case['slice_dim']
    vcs = valid_classes(shape)
    if c == 'bad_count':
        cands = [cl for cl in vcs if multiplicity(shape, sd, cl) > 1]
        if cands:
            cl = cands[sel % len(cands)]
            m = multiplicity(shape, sd, cl)
            ext.get_class_dict(cl)['badcount'] = [0] * (m + 1 if sel % 2 else m - 1)
            return
        c = 'slice_dim_bad'
    if c == 'dup_key':
        cands = [cl for cl in vcs if multiplicity(shape, sd, cl) >= 1]
        if len(cands) >= 2:
            a, b = cands[sel % len(cands)], cands[(sel + 1) % len(cands)]
            ext.get_class_dict(a)['dup'] = [1] * multiplicity(shape, sd, a) if a[1] != 'const' else 1
            ext.get_class_dict(b)['dup'] = [1] * multiplicity(shape, sd, b) if b[1] != 'const' else 1
            return
        c = 'slice_dim_bad'
    if c == 'del_req':
        req = ['dcmmeta_affine', 'dcmmeta_reorient_transform', 'dcmmeta_slice_dim', 'dcmmeta_shape', 'global']
        del content[req[sel % len(req)]]
    elif c == 'slice_dim_bad':
        content['dcmmeta_slice_dim'] = [3, -1, 7][sel % 3]
    elif c == 'shape_len':
        content['dcmmeta_shape'] = [[2, 2], [2, 2, 2, 2, 2, 2]][sel % 2]
    elif c == 'affine_shape':
        content['dcmmeta_affine'] = content['dcmmeta_affine'][:3]
    elif c == 'slices_without_dim':
        content['global']['slices']['orphan'] = [1, 2]
    elif c == 'missing_sub':
        base = vcs[sel % len(vcs)]
        del content[base[0]][base[1]]


ERRMAP = {'InvalidExtensionError': 'EInvalidExt', 'ValueError': 'EValue', 'KeyError': 'EKey', 'TypeError': 'EType',
          'AttributeError': 'EAttr', 'IndexError': 'EIndex', 'MissingExtensionError': 'EMissingExt', 'JSONDecodeError': 'EValue'}


def errname(e):
    return ERRMAP.get(type(e).__name__, 'ECrash:' + type(e).__name__)


def key_orders(content):
    out = [list(content.keys())]
    for b in ('global', 'time', 'vector'):
        if b in content and hasattr(content[b], 'items'):
            out.append(list(content[b].keys()))
            for s in content[b]:
                if hasattr(content[b][s], 'keys'):
                    out.append(list(content[b][s].keys()))
    return out


class Ext:
    NAME = "ext"
    CORR_REQUIRE = "From Coq Require Import String.\nFrom DV Require Import Common.Str Common.Jv Json.Model Json.Corr."
    CORR_CASE_TYPE = "Corr.ext_case"
    CORR_CHECK = "Corr.check_ext"
    CORR_SHOW = "Corr.show_ext"
    SHARD = 10
    IMPL_TIMEOUT = 60
    RULE = ("DcmMetaExtension.make_empty + values in every valid classification; observation = to_json text, str(ext), and for each of "
            "from_json / from_runtime_repr / .nii / .nii.gz (once and twice): ==, exact ordered equality with float bits, key "
            "order, re-serialised bytes; invalid extensions: to_json must raise InvalidExtensionError")

    @staticmethod
    def gen_cases(rng, tier):
        nvalid = 110 if tier == 'quick' else 600
        ninv = 32 if tier == 'quick' else 160
        depth = 2 if tier == 'quick' else 4
        out = [gen_ext_case(rng, depth) for _ in range(nvalid)]
        out += [gen_ext_case(rng, 1, None, True) for _ in range(48 if tier == 'quick' else 240)]
        out += [gen_ext_case(rng, 1, CORRUPTIONS[i % len(CORRUPTIONS)]) for i in range(ninv)]
        return out

    @staticmethod
    def run_impl(case):
        import copy, shutil, tempfile
        import numpy as np
        import nibabel as nb
        from dcmstack.dcmmeta import DcmMetaExtension, NiftiWrapper
        ext = build_ext(case)
        obs = {'content': enc(ext._content)}
        try:
            ext.check_valid()
            obs['valid'] = 'ok'
        except Exception as e:
            obs['valid'] = errname(e)
        try:
            text = ext.to_json()
            obs['to_json'] = {'ok': text} if isinstance(text, str) else {'err': 'ECrash:not-a-str'}
        except Exception as e:
            text = None
            obs['to_json'] = {'err': errname(e)}
        try:
            s = str(ext)
            obs['str'] = {'ok': s}
        except Exception as e:
            obs['str'] = {'err': errname(e)}
        obs['paths'] = {}
        if text is None:
            return obs
        orig = copy.deepcopy(ext._content)

        def observe(e2):
            r = {}
            r['eq'] = bool(e2 == ext) and bool(ext == e2)
            r['exact'] = same(e2._content, orig)
            r['order'] = key_orders(e2._content) == key_orders(orig)
            try:
                t2 = e2.to_json()
                r['reser'] = t2
            except Exception as e:
                r['reser_err'] = errname(e)
            try:
                r['str_is_json'] = str(e2) == r.get('reser')
            except Exception as e:
                r['str_is_json'] = False
            return r

        def attempt(name, f):
            try:
                obs['paths'][name] = observe(f())
            except Exception as e:
                obs['paths'][name] = {'err': errname(e), 'msg': str(e)[:200]}

        attempt('json', lambda: DcmMetaExtension.from_json(text))
        attempt('runtime', lambda: DcmMetaExtension.from_runtime_repr(copy.deepcopy(orig)))
        base = os.environ.get('VERIF_WORK') or os.path.join('/verif', 'work')
        os.makedirs(base, exist_ok=True)
        tmp = tempfile.mkdtemp(prefix='c09_', dir=base)
        try:
            for suffix, tag in (('.nii', 'nii'), ('.nii.gz', 'niigz')):
                state = {}

                def first():
                    img = nb.Nifti1Image(np.zeros(tuple(case['shape']), dtype=np.int16), np.array(ext.affine))
                    img.header.extensions.append(ext)
                    nw = NiftiWrapper(img)
                    p1 = os.path.join(tmp, 'a' + suffix)
                    nw.to_filename(p1)
                    state['p1'] = p1
                    state['nw2'] = NiftiWrapper.from_filename(p1)
                    return state['nw2'].meta_ext

                def second():
                    p2 = os.path.join(tmp, 'b' + suffix)
                    state['nw2'].to_filename(p2)
                    state['p2'] = p2
                    return NiftiWrapper.from_filename(p2).meta_ext

                def raw_of(path):
                    exts = [c for code, c in file_ext_bytes(path) if code == 0]
                    return exts[0].decode('utf-8') if len(exts) == 1 else None
                attempt(tag, first)
                if 'p1' in state and 'err' not in obs['paths'][tag]:
                    obs['paths'][tag]['file'] = raw_of(state['p1'])
                if 'nw2' in state:
                    attempt(tag + '2', second)
                    if 'p2' in state and 'err' not in obs['paths'][tag + '2']:
                        obs['paths'][tag + '2']['file'] = raw_of(state['p2'])
                else:
                    obs['paths'][tag + '2'] = {'err': 'skipped'}
        finally:
            shutil.rmtree(tmp, ignore_errors=True)
        return obs

    @staticmethod
    def coq_case(case, obs):
        def cerr(name):
            return name if name in ERRMAP.values() else 'ECrash'
        if not isinstance(obs, dict) or 'content' not in obs:
            # the runner crashed outside the observed calls: a literal that cannot pass
            return ('{| Corr.ec_content := JNull; Corr.ec_valid := Ok tt; Corr.ec_to_json := Err ECrash; '
                    'Corr.ec_str := (@nil N); Corr.ec_reser := [] |}')
        valid = 'Ok tt' if obs['valid'] == 'ok' else 'Err %s' % cerr(obs['valid'])
        # identical texts are written once and shared through let-bindings (the literal is the same term)
        names, binds = {}, []

        def text(s):
            if not isinstance(s, str):
                return '[0]%N'
            if s not in names:
                names[s] = 't%d' % len(names)
                binds.append('let %s := %s in ' % (names[s], ctext(s)))
            return names[s]
        tj = obs['to_json']
        tjs = ('Ok %s' % text(tj['ok'])) if 'ok' in tj else ('Err %s' % cerr(tj['err']))
        st = text(obs['str'].get('ok'))
        reser = []
        if 'ok' in tj:
            for p in PATHS:
                reser.append(text(obs['paths'].get(p, {}).get('reser')))
                if p.startswith('nii'):
                    reser.append(text(obs['paths'].get(p, {}).get('file')))
        return ('(%s{| Corr.ec_content := %s; Corr.ec_valid := %s; Corr.ec_to_json := %s; Corr.ec_str := %s; Corr.ec_reser := %s |})'
                % (''.join(binds), tv_coq(obs['content']), valid, tjs, st, clist(reser)))

    @staticmethod
    def oracle(case, obs):
        if not isinstance(obs, dict) or 'content' not in obs:
            return 'building or observing the extension crashed: %s' % (obs.get('crash') if isinstance(obs, dict) else obs)
        tj = obs['to_json']
        if case.get('corrupt'):
            if 'ok' in tj:
                return 'to_json accepted an invalid extension (%s)' % case['corrupt']
            if tj['err'] != 'EInvalidExt':
                return 'to_json of an invalid extension (%s) raised %s instead of InvalidExtensionError' % (case['corrupt'], tj['err'])
            return None
        if 'ok' not in tj:
            return 'to_json failed on a valid extension: %s' % tj['err']
        text = tj['ok']
        if obs['str'].get('ok') != text:
            return 'str(ext) is not the JSON of the extension: %s' % (obs['str'].get('err') or 'different text')
        for p in PATHS:
            r = obs['paths'].get(p)
            if r is None or 'err' in r:
                return 'reload via %s failed: %s' % (p, (r or {}).get('err'))
            if not r.get('eq') and not tv_has_nan(obs['content']):      # NaN != NaN: == cannot hold, exactness below must
                return 'reload via %s: extension not equal (==) to the original' % p
            if p.startswith('nii') and r.get('file') != text:
                return 'reload via %s: extension bytes stored in the file are not to_json() of the extension' % p
            if not r.get('exact'):
                return 'reload via %s: content differs (types, float bits, nesting or key order)' % p
            if not r.get('order'):
                return 'reload via %s: key order changed' % p
            if r.get('reser') != text:
                return 'reload via %s: re-serialised JSON is not byte-identical' % p
            if not r.get('str_is_json'):
                return 'reload via %s: str() of the reloaded extension is not its JSON' % p
        return None

    @staticmethod
    def signature(case, obs, msg):
        return 'ext/' + msg.split(':')[0].replace(' ', '-')[:60]

    @staticmethod
    def nontrivial(case, obs):
        return bool(case['entries']) or bool(case.get('corrupt'))

    @staticmethod
    def shrink(case):
        ents = case['entries']
        if case.get('extra'):
            c = dict(case); c['extra'] = []
            yield c
        if case.get('reorient') is not None:
            c = dict(case); c['reorient'] = None
            yield c
        for i in range(len(ents)):
            c = dict(case); c['entries'] = ents[:i] + ents[i + 1:]
            yield c
        for i, (b, s, k, v) in enumerate(ents):
            if s == 'const':
                for v2 in shrink_tv(v):
                    c = dict(case); c['entries'] = ents[:i] + [[b, s, k, v2]] + ents[i + 1:]
                    yield c
            if len(k) > 1 and not any(e[2] == k[:1] for e in ents):
                c = dict(case); c['entries'] = ents[:i] + [[b, s, k[:1], v]] + ents[i + 1:]
                yield c


# ------------------------------------------------------------------------------------------------
# part 4: histories (encode/save -> edit in place -> save -> load; load -> edit -> save -> load; two edits)

TOUCHES = ['to_filename', 'nbsave', 'content', 'get_content', 'sizeondisk', 'str', 'to_json', 'none']
EDIT_KINDS = ['add_key', 'change_value', 'del_key', 'move_key', 'filter_meta', 'clear_slice_meta']


def gen_class_value(rng, shape, slice_dim, cls, depth=1):
    m = multiplicity(shape, slice_dim, cls)
    if cls[1] == 'const':
        return gen_value(rng, depth, False, 3)
    return ['a', [gen_value(rng, rng.choice([0, 0, 1]), False, 2) for _ in range(m)]]


def gen_edit(rng, case, entries):
    """One in-place edit that keeps the extension valid; `entries` (the generator's view of the current keys)
    is updated."""
    shape, sd = case['shape'], case['slice_dim']
    usable = [cl for cl in valid_classes(shape) if multiplicity(shape, sd, cl) >= 1]
    kind = rng.choice(EDIT_KINDS)
    if kind in ('change_value', 'del_key', 'move_key') and not entries:
        kind = 'add_key'
    if kind == 'move_key' and len(usable) < 2:
        kind = 'change_value'
    if kind == 'add_key':
        cl = rng.choice(usable)
        k = gen_keys(rng, 1, {tuple(e[2]) for e in entries})[0]
        v = gen_class_value(rng, shape, sd, cl)
        entries.append([cl[0], cl[1], k, v])
        return {'op': 'set', 'cls': list(cl), 'key': k, 'val': v}
    if kind == 'change_value':
        i = rng.randrange(len(entries))
        b, s, k, _ = entries[i]
        v = gen_class_value(rng, shape, sd, (b, s))
        entries[i] = [b, s, k, v]
        return {'op': 'set', 'cls': [b, s], 'key': k, 'val': v}
    if kind == 'del_key':
        i = rng.randrange(len(entries))
        b, s, k, _ = entries.pop(i)
        return {'op': 'del', 'cls': [b, s], 'key': k}
    if kind == 'move_key':
        i = rng.randrange(len(entries))
        b, s, k, _ = entries.pop(i)
        cl = rng.choice([c for c in usable if c != (b, s)])
        v = gen_class_value(rng, shape, sd, cl)
        entries.append([cl[0], cl[1], k, v])
        return {'op': 'move', 'cls': [b, s], 'to': list(cl), 'key': k, 'val': v}
    if kind == 'filter_meta':
        drop = [e[2] for e in entries if rng.random() < 0.5]
        entries[:] = [e for e in entries if e[2] not in drop]
        return {'op': 'filter', 'keys': drop}
    entries[:] = [e for e in entries if e[1] != 'slices']
    return {'op': 'clear_slices'}


def apply_edit(ext, ed):
    def ks(cps):
        return ''.join(chr(c) for c in cps)
    op = ed['op']
    if op == 'set':
        ext.get_class_dict(tuple(ed['cls']))[ks(ed['key'])] = dec(ed['val'])
    elif op == 'del':
        ext.get_class_dict(tuple(ed['cls'])).pop(ks(ed['key']), None)
    elif op == 'move':
        ext.get_class_dict(tuple(ed['cls'])).pop(ks(ed['key']), None)
        ext.get_class_dict(tuple(ed['to']))[ks(ed['key'])] = dec(ed['val'])
    elif op == 'filter':
        drop = set(ks(k) for k in ed['keys'])
        ext.filter_meta(lambda key, vals: key in drop)
    elif op == 'clear_slices':
        ext.clear_slice_meta()
    else:
        raise ValueError(op)


def file_ext_bytes(path):
    """The extension section of a single-file NIfTI-1, parsed from the raw bytes (no nibabel objects involved):
    list of (ecode, content with the zero padding removed)."""
    import gzip, struct
    with (gzip.open(path, 'rb') if path.endswith('.gz') else open(path, 'rb')) as f:
        data = f.read()
    en = '<' if struct.unpack('<i', data[:4])[0] == 348 else '>'
    vox_offset = int(struct.unpack(en + 'f', data[108:112])[0])
    out = []
    if len(data) < 352 or data[348] == 0:
        return out
    pos = 352
    while pos + 8 <= vox_offset:
        esize, ecode = struct.unpack(en + 'ii', data[pos:pos + 8])
        if esize < 8 or pos + esize > len(data):
            break
        out.append((ecode, data[pos + 8:pos + esize].rstrip(b'\x00')))
        pos += esize
    return out


class Hist:
    NAME = "ext_hist"
    CORR_REQUIRE = "From Coq Require Import String.\nFrom DV Require Import Common.Str Common.Jv Json.Model Json.Corr."
    CORR_CASE_TYPE = "Corr.hist_case"
    CORR_CHECK = "Corr.check_hist"
    CORR_SHOW = "Corr.show_hist"
    SHARD = 8
    IMPL_TIMEOUT = 60
    RULE = ("a valid extension attached to an image is first encoded or written (to_filename, nb.save, .content, get_content, "
            "get_sizeondisk, str, to_json, or nothing), or is obtained from a file with from_filename (and then optionally touched); it "
            "is then edited in place through the DcmMeta API (set/change/delete/move a key, filter_meta, clear_slice_meta) and "
            "written again, once or twice, to .nii or .nii.gz; observation per write = content of the in-memory object, to_json, "
            "str, the raw extension bytes parsed out of the file, and the extension NiftiWrapper.from_filename finds in the file")

    @staticmethod
    def gen_cases(rng, tier):
        n = 96 if tier == 'quick' else 480
        out = []
        for i in range(n):
            c = gen_ext_case(rng, 1, None, i % 3 == 2)
            mode = ['save_edit_save', 'load_edit_save'][i % 2]
            entries = [list(e) for e in c['entries']]
            nedits = rng.choice([1, 1, 2, 2, 3])
            # an edit is a group of 1-2 API calls; each group is followed by a write
            groups = []
            for _ in range(nedits):
                groups.append([gen_edit(rng, c, entries) for _ in range(rng.choice([1, 1, 2]))])
            c['hist'] = {'mode': mode, 'suffix': ['.nii', '.nii.gz'][(i // 2) % 2], 'touch': TOUCHES[(i // 4) % len(TOUCHES)],
                         'edits': groups}
            c['kind'] = 'hist/%s/%s/%d' % (mode, c['hist']['touch'], nedits)
            out.append(c)
        return out

    @staticmethod
    def run_impl(case):
        import copy, shutil, tempfile
        import numpy as np
        import nibabel as nb
        from dcmstack.dcmmeta import NiftiWrapper, dcm_meta_ecode
        h = case['hist']
        ext = build_ext(case)
        img = nb.Nifti1Image(np.zeros(tuple(case['shape']), dtype=np.int16), np.array(ext.affine))
        img.header.extensions.append(ext)
        nw = NiftiWrapper(img)
        obs = {'initial': enc(ext._content), 'points': []}
        base = os.environ.get('VERIF_WORK') or os.path.join('/verif', 'work')
        os.makedirs(base, exist_ok=True)
        tmp = tempfile.mkdtemp(prefix='c09h_', dir=base)
        try:
            def touch(w, name):
                e = w.meta_ext
                if name == 'to_filename':
                    w.to_filename(os.path.join(tmp, 'touch' + h['suffix']))
                elif name == 'nbsave':
                    nb.save(w.nii_img, os.path.join(tmp, 'touch' + h['suffix']))
                elif name == 'content':
                    e.content
                elif name == 'get_content':
                    e.get_content()
                elif name == 'sizeondisk':
                    e.get_sizeondisk()
                elif name == 'str':
                    str(e)
                elif name == 'to_json':
                    e.to_json()
            if h['mode'] == 'load_edit_save':
                p0 = os.path.join(tmp, 'orig' + h['suffix'])
                nw.to_filename(p0)
                nw = NiftiWrapper.from_filename(p0)
                obs['initial'] = enc(nw.meta_ext._content)
            touch(nw, h['touch'])
            obs['touched'] = h['touch'] != 'none' or h['mode'] == 'load_edit_save'
            for gi, group in enumerate(h['edits']):
                cur = nw.meta_ext
                for ed in group:
                    apply_edit(cur, ed)
                pt = {'cur': enc(cur._content)}
                try:
                    cur.check_valid()
                    pt['valid'] = 'ok'
                except Exception as e:
                    pt['valid'] = errname(e)
                try:
                    text = cur.to_json()
                    pt['to_json'] = {'ok': text}
                except Exception as e:
                    text = None
                    pt['to_json'] = {'err': errname(e)}
                try:
                    pt['str'] = {'ok': str(cur)}
                except Exception as e:
                    pt['str'] = {'err': errname(e)}
                p = os.path.join(tmp, 'w%d%s' % (gi, h['suffix']))
                try:
                    nw.to_filename(p)
                    pt['save'] = 'ok'
                except Exception as e:
                    pt['save'] = errname(e)
                if pt['save'] == 'ok':
                    exts = [c for code, c in file_ext_bytes(p) if code == dcm_meta_ecode]
                    pt['n_ext'] = len(exts)
                    pt['file_bytes'] = exts[0].decode('latin-1') if exts else None     # byte values as code points
                    try:
                        pt['file'] = exts[0].decode('utf-8') if exts else None
                    except UnicodeDecodeError:
                        pt['file'] = None
                    try:
                        e2 = NiftiWrapper.from_filename(p).meta_ext
                        snapshot = copy.deepcopy(cur._content)
                        r = {'content': enc(e2._content), 'eq': bool(e2 == cur) and bool(cur == e2),
                             'exact': same(e2._content, snapshot), 'order': key_orders(e2._content) == key_orders(snapshot)}
                        try:
                            r['reser'] = e2.to_json()
                        except Exception as e:
                            r['reser_err'] = errname(e)
                        # what the in-memory object says about itself after the write must still be the same
                        r['mem_after'] = (cur.to_json() == text) if text is not None else False
                        pt['reload'] = r
                    except Exception as e:
                        pt['reload'] = {'err': errname(e), 'msg': str(e)[:200]}
                obs['points'].append(pt)
                if h['mode'] == 'load_edit_save' and gi % 2 == 1 and pt.get('save') == 'ok':
                    # continue the history from the file just written
                    try:
                        nw = NiftiWrapper.from_filename(p)
                    except Exception:
                        pass
        finally:
            shutil.rmtree(tmp, ignore_errors=True)
        return obs

    @staticmethod
    def coq_case(case, obs):
        def cerr(name):
            return name if name in ERRMAP.values() else 'ECrash'
        if not isinstance(obs, dict) or 'points' not in obs:
            return '{| Corr.hc_initial := JNull; Corr.hc_touched := false; Corr.hc_points := [] |}'
        names, binds = {}, []

        def share(key, lit):
            if key not in names:
                names[key] = 'x%d' % len(names)
                binds.append('let %s := %s in ' % (names[key], lit))
            return names[key]

        def text(s):
            return share('T' + s, ctext(s)) if isinstance(s, str) else '[0]%N'

        def val(tv):
            return share('V' + json.dumps(tv), tv_coq(tv))
        pts = []
        for pt in obs['points']:
            valid = 'Ok tt' if pt['valid'] == 'ok' else 'Err %s' % cerr(pt['valid'])
            tj = pt['to_json']
            tjs = ('Ok %s' % text(tj['ok'])) if 'ok' in tj else ('Err %s' % cerr(tj['err']))
            st = text(pt['str'].get('ok'))
            fl = '(Some %s)' % text(pt.get('file_bytes')) if pt.get('save') == 'ok' else 'None'
            rl = pt.get('reload') or {'err': 'ECrash'}
            ld = ('Ok %s' % val(rl['content'])) if 'content' in rl else ('Err %s' % cerr(rl.get('err', 'ECrash')))
            pts.append('{| Corr.sp_content := %s; Corr.sp_valid := %s; Corr.sp_to_json := %s; Corr.sp_str := %s; '
                       'Corr.sp_file := %s; Corr.sp_loaded := %s |}' % (val(pt['cur']), valid, tjs, st, fl, ld))
        init = val(obs['initial'])
        return ('(%s{| Corr.hc_initial := %s; Corr.hc_touched := %s; Corr.hc_points := %s |})'
                % (''.join(binds), init, cbool(bool(obs.get('touched'))), clist(pts)))

    @staticmethod
    def oracle(case, obs):
        if not isinstance(obs, dict) or 'points' not in obs:
            return 'history crashed: %s' % (obs.get('crash') if isinstance(obs, dict) else obs)
        if len(obs['points']) != len(case['hist']['edits']):
            return 'history stopped early'
        for i, pt in enumerate(obs['points']):
            w = 'write %d after in-place edit' % (i + 1)
            if 'ok' not in pt['to_json']:
                return '%s: to_json failed on the edited (valid) extension: %s' % (w, pt['to_json']['err'])
            text = pt['to_json']['ok']
            if pt['str'].get('ok') != text:
                return '%s: str(ext) is not the JSON of the edited extension' % w
            if pt.get('save') != 'ok':
                return '%s: to_filename failed: %s' % (w, pt.get('save'))
            if pt.get('n_ext') != 1:
                return '%s: file holds %s DcmMeta extensions' % (w, pt.get('n_ext'))
            if pt.get('file') != text:
                return '%s: extension bytes stored in the file are not to_json() of the in-memory extension' % w
            r = pt.get('reload') or {}
            if 'err' in r:
                return '%s: reading the file back failed: %s' % (w, r['err'])
            if not r.get('eq') and not tv_has_nan(pt['cur']):
                return '%s: extension read back is not equal (==) to the edited in-memory extension' % w
            if not r.get('exact') or not r.get('order'):
                return '%s: extension read back differs from the edited in-memory extension (keys, classes, values or order)' % w
            if r.get('reser') != text:
                return '%s: re-serialised JSON of the extension read back is not byte-identical' % w
            if not r.get('mem_after'):
                return '%s: to_json of the in-memory extension changed by writing it' % w
        return None

    @staticmethod
    def signature(case, obs, msg):
        return 'hist/' + msg.split(':', 1)[-1].strip().replace(' ', '-')[:60]

    @staticmethod
    def nontrivial(case, obs):
        return True

    @staticmethod
    def shrink(case):
        h = case['hist']
        used = set()
        for g in h['edits']:
            for ed in g:
                if 'key' in ed:
                    used.add(tuple(ed['key']))
                for k in ed.get('keys', []):
                    used.add(tuple(k))
        if len(h['edits']) > 1:
            for i in range(len(h['edits'])):
                c = dict(case); c['hist'] = dict(h, edits=h['edits'][:i] + h['edits'][i + 1:])
                yield c
        for i, g in enumerate(h['edits']):
            if len(g) > 1:
                for j in range(len(g)):
                    c = dict(case); c['hist'] = dict(h, edits=h['edits'][:i] + [g[:j] + g[j + 1:]] + h['edits'][i + 1:])
                    yield c
        if case.get('extra'):
            c = dict(case); c['extra'] = []
            yield c
        if case.get('reorient') is not None:
            c = dict(case); c['reorient'] = None
            yield c
        ents = case['entries']
        for i in range(len(ents)):
            if tuple(ents[i][2]) not in used:
                c = dict(case); c['entries'] = ents[:i] + ents[i + 1:]
                yield c


PARTS = [Codec, Loads, Ext, Hist]


# link (integrator): the abstract extension model (coq/Ext) is tied to the raw JSON content model (coq/Content, coq/Json,
# coq/Cli) through Link/Abs.v to_content / of_content; LinkPart compares to_content with the real _content on every run
from props import link as _link
COQ_PROPS = (list(COQ_PROPS) if isinstance(COQ_PROPS, (list, tuple)) else [COQ_PROPS]) + ['Props/C09link.v']
THEOREMS = list(THEOREMS) + ['C09_from_to_content', 'C09_constructors_agree_content', 'C09_from_json_models_agree', 'C09_roundtrip_ext', 'C09_qtok_dec_float']
if globals().get('TABLES'): TABLES = sorted(set(list(TABLES) + _link.TABLES))
PARTS = list(PARTS) + [_link.LinkPart]
