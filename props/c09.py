"""C09  Serialisation round-trips exactly through JSON and through NIfTI files.

Three correspondence parts:
  codec  random JSON values -> json.dumps(v, indent=4) / json.loads(.., object_pairs_hook=OrderedDict)
         (ties DV.Json.Model.print / parse to CPython on the image of the printer)
  loads  arbitrary texts (random white space, every escape style, duplicate keys, malformed) -> json.loads
         (ties DV.Json.Model.parse to CPython on a superset of the printer's image, error cases included)
  ext    DcmMetaExtensions built with make_empty + values -> to_json / str / from_json / from_runtime_repr /
         .nii and .nii.gz files, twice; plus a separate stream of invalid extensions
  ext_hist  histories of a live extension object: encoded/written (or loaded from a file), edited in place through the
         DcmMeta API, written again (once or twice); the reloaded extension and the raw bytes in the file are compared
         with the CURRENT in-memory extension
Values travel between generator, runner and Coq printer in a tagged form ("tv") that does not depend on
JSON's own float/int/unicode handling:
  ["n"] | ["b",bool] | ["i","<decimal>"] | ["f","<float.hex()>"] | ["s",[code points]] | ["a",[tv..]] | ["o",[[[cps],tv]..]]
"""
import os, sys, json, math

from vlib.coqlit import cstr, cz, cbool, clist, cpair

ID = "C09"
COQ_PROPS = "Props/C09.v"
THEOREMS = ["C09_parse_print", "C09_print_stable", "C09_print_int_roundtrip", "C09_print_injective",
            "C09_to_json_defined_iff_valid", "C09_from_to", "C09_from_runtime_repr_iff_valid",
            "C09_str_is_json", "C09_utf8_roundtrip", "C09_mangle_is_ascii_json", "C09_constructors_agree", "C09_file_roundtrip_partial",
            "C09_save_load_twice_partial", "C09_history_step_partial", "C09_history_cache_irrelevant_partial"]
ALLOWED_AXIOMS = []
RULE = ("codec (340 quick): random and hostile JSON values through CPython's json (model tie) and, as a constant of a minimal "
        "extension, through the public DcmMeta API; loads (442): texts through CPython's json only - a tie of the Coq parser, NOT an "
        "evaluation of dcmstack; ext (190) and ext_hist (96): extensions and edit/save/load histories in the real library, files "
        "included, judged against content computed from the case alone. non-trivial = container/escape/big int (codec), a key in "
        "some class or a refusal (ext), an edit that changes the content (ext_hist)")
TRUSTED_BASE = [
    "Section variable `check_valid : jv -> res unit` in Json/Model.v (the validity check, modelled and proved in DV.Content for C10); "
    "in the ext correspondence it is instantiated with the implementation's own check_valid() outcome on that content",
    "Section variable `store : str -> option str` with hypothesis `store b = Some b` standing for nibabel + gzip + the file system "
    "(to_filename followed by load hands back the extension bytes unchanged); exercised by the ext part on real .nii / .nii.gz files",
    "float tokens are opaque lexemes: float.__repr__ / float() shortest round-trip is not modelled; bit-exactness of floats is "
    "checked on the implementation by float.hex() in the oracle and by comparing the printed token with repr in the correspondence",
    "CPython 3.12 json (pure-Python encoder loop + C string encoder, C scanner) is tied to print/parse by the codec and loads parts",
]
ASSUMPTIONS = [
    "domain of the round-trip theorems (wf): strings and keys are sequences of Unicode scalar values (no lone surrogates: a Python "
    "str holding a high surrogate followed by a low surrogate does not survive json), object keys are strings and pairwise "
    "distinct, float tokens are lexemes of the JSON number grammar with a fraction or exponent, or NaN/Infinity/-Infinity",
    "integers are unbounded in the model; CPython refuses to print or parse more than 4300 digits (sys.set_int_max_str_digits), "
    "generators stay below 1300 digits",
    "extension generator: values are JSON-representable Python values (no tuples, no non-string dict keys); key strings arbitrary "
    "non-surrogate text; NaN/Infinity occur as values and are compared with the harness's own structural equality (NaN equal to NaN); "
    "the library's == is an additional clause only when the content holds no NaN",
    "what is compared is what C09 states: content (keys, classes, values, order), byte-identity of RE-serialisation, str() == "
    "to_json(); the layout of the JSON text (indent) and the byte form inside the file are not pinned (the file bytes must decode to "
    "the content); refusals are judged raised / not raised",
    "saving onto the path an image was loaded from is exercised for the extension only (all-zero voxel data; nibabel's lazy "
    "proxy makes the VOXELS of an uncompressed file unreliable in that situation - outside C09)",
    "file half is labelled partial: nibabel/gzip I/O is a hypothesis of the theorem, exercised by the correspondence only",
]

REPO = os.environ.get('DCMSTACK_REPO', '/repo')

# ------------------------------------------------------------------------------------------------
# tagged values

def dec(tv):
    t = tv[0]
    if t == 'n':
        return None
    if t == 'b':
        return bool(tv[1])
    if t == 'i':
        return int(tv[1])
    if t == 'f':
        return float.fromhex(tv[1])
    if t == 's':
        return ''.join(chr(c) for c in tv[1])
    if t == 'a':
        return [dec(x) for x in tv[1]]
    if t == 'o':
        from collections import OrderedDict
        d = OrderedDict()
        for k, v in tv[1]:
            d[''.join(chr(c) for c in k)] = dec(v)
        return d
    raise ValueError(t)


class Tok(object):
    """A float lexeme kept verbatim (parse_float / parse_constant hook of json.loads)."""
    def __init__(self, s):
        self.s = s


def enc(v):
    if v is None:
        return ['n']
    if isinstance(v, bool):
        return ['b', v]
    if isinstance(v, int):
        return ['i', str(v)]
    if isinstance(v, float):
        return ['f', v.hex()]
    if isinstance(v, Tok):
        return ['t', [ord(c) for c in v.s]]
    if isinstance(v, str):
        return ['s', [ord(c) for c in v]]
    if isinstance(v, (list, tuple)):
        return ['a', [enc(x) for x in v]]
    if hasattr(v, 'items'):
        return ['o', [[[ord(c) for c in k], enc(x)] for k, x in v.items()]]
    raise TypeError('not a JSON value: %r' % type(v))


def ftok(x):
    if x != x:
        return 'NaN'
    if x == math.inf:
        return 'Infinity'
    if x == -math.inf:
        return '-Infinity'
    return float.__repr__(x)


def ctext(s):
    """A text as [str]: pure printable-ASCII/newline texts as a Coq string literal (fast to parse), others as code points."""
    if s and all(32 <= ord(c) < 127 or c == '\n' for c in s):
        return '(Corr.sos "%s"%%string)' % s.replace('"', '""')
    return cstr(s)


def ccps(cps):
    if not cps:
        return '(@nil N)'
    if all(32 <= c < 127 for c in cps):
        return '(Corr.sos "%s"%%string)' % ''.join(chr(c) for c in cps).replace('"', '""')
    return '[' + '; '.join('%d' % c for c in cps) + ']%N'


def tv_coq(tv):
    t = tv[0]
    if t == 'n':
        return 'JNull'
    if t == 'b':
        return '(JBool %s)' % cbool(bool(tv[1]))
    if t == 'i':
        z = int(tv[1])
        if abs(z) >= 10 ** 40:
            return '(JInt (Corr.zdec %s "%d"%%string))' % (cbool(z < 0), abs(z))
        return '(JInt %s)' % cz(z)
    if t == 'f':
        return '(JNum %s)' % ctext(ftok(float.fromhex(tv[1])))
    if t == 't':
        return '(JNum %s)' % ccps(tv[1])
    if t == 's':
        return '(JStr %s)' % ccps(tv[1])
    if t == 'a':
        return '(JArr %s)' % clist(tv_coq(x) for x in tv[1])
    if t == 'o':
        return '(JObj %s)' % clist(cpair(ccps(k), tv_coq(v)) for k, v in tv[1])
    raise ValueError(t)


def same(a, b):
    """Exact equality of JSON values: same types, same order of keys, floats bit for bit."""
    if a is None or b is None:
        return a is None and b is None
    if isinstance(a, bool) or isinstance(b, bool):
        return isinstance(a, bool) and isinstance(b, bool) and a == b
    if isinstance(a, int) or isinstance(b, int):
        return isinstance(a, int) and isinstance(b, int) and a == b
    if isinstance(a, float) or isinstance(b, float):
        if not (isinstance(a, float) and isinstance(b, float)):
            return False
        return (a != a and b != b) or a.hex() == b.hex()
    if isinstance(a, str) or isinstance(b, str):
        return isinstance(a, str) and isinstance(b, str) and a == b
    if isinstance(a, list) or isinstance(b, list):
        return (isinstance(a, list) and isinstance(b, list) and len(a) == len(b)
                and all(same(x, y) for x, y in zip(a, b)))
    if hasattr(a, 'items') and hasattr(b, 'items'):
        ia, ib = list(a.items()), list(b.items())
        return len(ia) == len(ib) and all(ka == kb and isinstance(ka, str) and isinstance(kb, str) and same(va, vb)
                                          for (ka, va), (kb, vb) in zip(ia, ib))
    return False


def tv_size(tv):
    t = tv[0]
    if t in ('a',):
        return 1 + sum(tv_size(x) for x in tv[1])
    if t == 'o':
        return 1 + sum(len(k) + tv_size(x) for k, x in tv[1])
    if t in ('s', 't'):
        return 1 + len(tv[1])
    if t == 'i':
        return 1 + len(tv[1])
    return 1


def tv_interesting(tv):
    """contains a container, or a string that needs an escape, or a big int"""
    t = tv[0]
    if t in ('a', 'o'):
        return True
    if t == 's':
        return any(c < 32 or c > 126 or c in (34, 92) for c in tv[1])
    if t == 'i':
        return len(tv[1]) > 18
    return t == 'f'


# ------------------------------------------------------------------------------------------------
# generators

SPECIAL_CPS = [0, 1, 8, 9, 10, 12, 13, 27, 31, 32, 34, 39, 47, 92, 117, 126, 127, 128, 159, 160, 233, 255, 256, 0x3b1,
               0x2028, 0x2029, 0xd7ff, 0xe000, 0xfeff, 0xfffd, 0xfffe, 0xffff, 0x10000, 0x10001, 0x103ff, 0x10400,
               0x1f600, 0x1d11e, 0xfffff, 0x100000, 0x10fc00, 0x10ffff]


def gen_cp(rng):
    r = rng.random()
    if r < 0.35:
        return rng.randrange(32, 127)
    if r < 0.6:
        return rng.choice(SPECIAL_CPS)
    if r < 0.7:
        return rng.randrange(0, 32)
    if r < 0.8:
        return rng.randrange(128, 0x800)
    if r < 0.9:
        c = rng.randrange(0x800, 0x10000)
        return c if not (0xd800 <= c <= 0xdfff) else 0x4e2d
    return rng.randrange(0x10000, 0x110000)


HOSTILE_WORDS = ['NaN', 'Infinity', '-Infinity', 'null', 'true', 'false', 'None', 'True', 'False', 'nan', 'inf', '-inf', 'NULL',
                 'undefined', '1e5', '-0.0', '0.0', '1.0', '12', '-1', '1e+22', '5e-324', '0x10', '{', '}', '[', ']', ':', ',', '{}',
                 '[]', '": "', ': ', '", "', '":', ',"', '\\n', '\\u0041', '\\"', '\\\\', '\\t', '\\', '#', '//', '/*', '*/', "'",
                 '"', '\n', '\t', ' ', '    ', '\r\n', ': NaN', ': Infinity,', '[NaN]', ', null', '= NaN;', ': true', ': -Infinity\n',
                 '\u2028', '\u00e9', '\U0001f600', '\x7f', '\x00', 'NaN,', ' NaN ', '-Infinity]', 'Infinity}', 'nullnull', 'NaNs',
                 'InfinityWar', 'truely', 'falsetto', '"NaN"', '"Infinity"', "'NaN'"]
HOSTILE_TEMPLATES = ['%s', '%s', ' %s', '%s ', '\t%s', '%s\t', ' %s ', 'zoom = %s (clipped)', 'fill value (%s or 0)', 'a%sb', '%s%s',
                     'x: %s, y: %s', '{"k": %s}', '[%s, %s]', 'key %s', '%s # comment', '"%s"', '%s: %s', 'value is %s.', '(%s)',
                     '  %s\n', '%s,%s,%s', 'pre\n    "%s": %s,\n', '\\%s', '%s\\']


def gen_hostile_str(rng, maxlen=None):
    """text containing JSON-significant words and fragments, alone and embedded, with and without surrounding space"""
    tpl = rng.choice(HOSTILE_TEMPLATES)
    s = tpl % tuple(rng.choice(HOSTILE_WORDS) for _ in range(tpl.count('%s')))
    return [ord(c) for c in s]


def gen_str(rng, maxlen=12):
    r = rng.random()
    if r < 0.08:
        return []
    if r < 0.16:   # text that looks like escapes / JSON syntax
        return [ord(c) for c in rng.choice(['\\u0041', '\\n', '\\"', '"', '\\', '\\\\', '/', '</script>', '{"a": 1}', '[1,]',
                                             'null', 'NaN', '-Infinity', '1e5', ' ', '\t\r\n', ': ', ',', '\\ud83d\\ude00'])]
    if r < 0.32:
        return gen_hostile_str(rng)
    n = rng.randrange(1, maxlen + 1)
    return [gen_cp(rng) for _ in range(n)]


def gen_int(rng):
    r = rng.random()
    if r < 0.3:
        return rng.choice([0, 1, -1, 7, 10, -10, 99, 100, 2**31 - 1, -2**31, 2**53, 2**53 + 1, -2**63, 2**64, 10**18, -10**19])
    if r < 0.6:
        return rng.randrange(-10**6, 10**6)
    if r < 0.9:
        bits = rng.randrange(40, 600)
    else:
        bits = rng.randrange(600, 4000)
    v = rng.getrandbits(bits) | (1 << (bits - 1))
    if rng.random() < 0.2:
        v = 10 ** rng.randrange(1, 300)
    return -v if rng.random() < 0.5 else v


FIXED_FLOATS = [0.0, -0.0, 1.0, -1.0, 0.1, 0.5, 1.5, 1e22, 1e21, 1e16, 1e15, 123456789012345680.0, 1e-5, 1e-4, 0.0001, 1e-7,
                5e-324, -5e-324, 2.2250738585072014e-308, 2.225073858507201e-308, 1.7976931348623157e308, -1.7976931348623157e308,
                4.9406564584124654e-324, 1 / 3.0, 2 / 3.0, 0.30000000000000004, 9007199254740993.0, 1e100, 1.2e-100, 6.02214076e23,
                3.141592653589793, 0.6, 100.0, 1e23, 8.41e21, 2.5e-8]


def gen_float(rng, nonfinite):
    import struct
    r = rng.random()
    if nonfinite and r < 0.08:
        return rng.choice([math.nan, math.inf, -math.inf])
    if r < 0.4:
        return rng.choice(FIXED_FLOATS)
    if r < 0.55:   # subnormals
        return math.ldexp(rng.randrange(1, 2**52), -1074) * rng.choice([1, -1])
    if r < 0.7:    # huge
        return math.ldexp(rng.random() + 1, rng.randrange(900, 1023)) * rng.choice([1, -1])
    if r < 0.8:
        return round(rng.uniform(-1000, 1000), rng.randrange(0, 6))
    while True:
        x = struct.unpack('<d', struct.pack('<Q', rng.getrandbits(64)))[0]
        if x == x and abs(x) != math.inf:
            return x


def gen_scalar(rng, nonfinite=True, strgen=None):
    strgen = strgen or gen_str
    r = rng.random()
    if strgen is gen_hostile_str:
        if r < 0.5:
            return ['s', strgen(rng)]
        if r < 0.75 and nonfinite:
            return ['f', rng.choice([math.nan, math.inf, -math.inf]).hex()]
    if r < 0.08:
        return ['n']
    if r < 0.16:
        return ['b', rng.random() < 0.5]
    if r < 0.42:
        return ['i', str(gen_int(rng))]
    if r < 0.68:
        return ['f', gen_float(rng, nonfinite).hex()]
    return ['s', strgen(rng)]


def gen_keys(rng, n, taken=None, strgen=None):
    strgen = strgen or gen_str
    seen = set(taken or ())
    out = []
    while len(out) < n:
        k = strgen(rng, 8)
        if tuple(k) in seen:
            k = k + [rng.randrange(97, 123), len(seen) % 10 + 48]
            if tuple(k) in seen:
                continue
        seen.add(tuple(k))
        out.append(k)
    return out


def gen_value(rng, depth, nonfinite=True, width=4, strgen=None):
    if depth <= 0 or rng.random() < 0.35:
        return gen_scalar(rng, nonfinite, strgen)
    n = rng.choice([0, 1, 1, 2, 2, 3, width])
    if rng.random() < 0.5:
        return ['a', [gen_value(rng, depth - 1, nonfinite, width, strgen) for _ in range(n)]]
    ks = gen_keys(rng, n, None, strgen)
    return ['o', [[k, gen_value(rng, depth - 1, nonfinite, width, strgen)] for k in ks]]


def tv_has_nan(tv):
    t = tv[0]
    if t == 'f':
        return tv[1] == 'nan'
    if t == 'a':
        return any(tv_has_nan(x) for x in tv[1])
    if t == 'o':
        return any(tv_has_nan(x) for _, x in tv[1])
    return False


def shrink_tv(tv):
    """strictly smaller candidates"""
    t = tv[0]
    if t in ('a', 'o'):
        items = tv[1]
        for i in range(len(items)):
            yield [t, items[:i] + items[i + 1:]]
        for i, it in enumerate(items):
            sub = it if t == 'a' else it[1]
            yield sub
            for s in shrink_tv(sub):
                yield [t, items[:i] + [s if t == 'a' else [it[0], s]] + items[i + 1:]]
            if t == 'o' and len(it[0]) > 1:
                yield [t, items[:i] + [[it[0][:1], it[1]]] + items[i + 1:]]
    elif t == 's':
        if len(tv[1]) > 1:
            yield ['s', tv[1][:len(tv[1]) // 2]]
            yield ['s', tv[1][len(tv[1]) // 2:]]
    elif t == 'i':
        if len(tv[1]) > 2:
            yield ['i', tv[1][:len(tv[1]) // 2].rstrip('-') or '0']


# ------------------------------------------------------------------------------------------------
# part 1: codec

class Codec:
    NAME = "codec"
    CORR_REQUIRE = "From Coq Require Import String.\nFrom DV Require Import Common.Str Common.Jv Json.Model Json.Corr."
    CORR_CASE_TYPE = "Corr.codec_case"
    CORR_CHECK = "Corr.check_codec"
    CORR_SHOW = "Corr.show_codec"
    SHARD = 24
    IMPL_TIMEOUT = 20
    RULE = ("random JSON values; observation = exact text of CPython's json.dumps(indent=4) (ties the Coq printer/parser to the "
            "stdlib codec: this half does not go through dcmstack) AND the same value carried as a constant of a minimal extension "
            "through DcmMetaExtension.from_runtime_repr / to_json / from_json(str) / from_json(bytes) / get_values")

    @staticmethod
    def gen_cases(rng, tier):
        n = 260 if tier == 'quick' else 1600
        depth = 3 if tier == 'quick' else 5
        out = []
        # a few fixed corner cases first
        fixed = [['a', []], ['o', []], ['a', [['a', []], ['o', []]]], ['s', []], ['o', [[[], ['n']]]],
                 ['i', '-' + '9' * 1200], ['s', [0x1f600, 34, 92, 10, 0x7f, 0xffff, 0x10000, 0x10ffff]],
                 ['f', '-0x0.0p+0'], ['f', 'nan'], ['f', 'inf'], ['f', '-inf'],
                 ['o', [[[0xe9], ['a', [['i', '-123456789012345678901234567890'], ['f', (5e-324).hex()]]]],
                        [[34, 92], ['o', [[[0x10000], ['n']]]]]]]]
        for v in fixed:
            out.append({'kind': 'fixed', 'v': v})
        nh = 80 if tier == 'quick' else 400
        for _ in range(nh):
            r = rng.random()
            if r < 0.3:
                v = ['s', gen_hostile_str(rng)]
            elif r < 0.5:
                v = ['a', [gen_scalar(rng, True, gen_hostile_str) for _ in range(rng.randrange(1, 5))]]
            else:
                v = ['o', [[k, gen_value(rng, rng.choice([0, 0, 1, 2]), True, 3, gen_hostile_str)]
                           for k in gen_keys(rng, rng.randrange(1, 5), None, gen_hostile_str)]]
            out.append({'kind': 'hostile', 'v': v})
        n += nh
        while len(out) < n:
            r = rng.random()
            if r < 0.25:
                v, kind = gen_scalar(rng), 'scalar'
            elif r < 0.4:
                v, kind = ['s', gen_str(rng, 40)], 'string'
            else:
                d = rng.randrange(1, depth + 1)
                v, kind = gen_value(rng, d, True, 3 if d > 3 else 4), 'nested%d' % d
            if tv_size(v) > 2500:
                continue
            out.append({'kind': kind, 'v': v})
        return out

    @staticmethod
    def run_impl(case):
        from collections import OrderedDict
        v = dec(case['v'])
        text = json.dumps(v, indent=4)
        back = json.loads(text, object_pairs_hook=OrderedDict)
        again = json.dumps(back, indent=4)
        obs = {'text': text, 'same': same(v, back), 'redump_same': again == text}
        # the same value as a constant of a minimal extension, through the public DcmMeta API (str and bytes constructors)
        import copy
        from dcmstack.dcmmeta import DcmMetaExtension
        content = OrderedDict([('global', OrderedDict([('const', OrderedDict([('v', copy.deepcopy(v))])), ('slices', OrderedDict())])),
                               ('dcmmeta_shape', [1, 1, 1]),
                               ('dcmmeta_affine', [[1.0, 0.0, 0.0, 0.0], [0.0, 1.0, 0.0, 0.0], [0.0, 0.0, 1.0, 0.0], [0.0, 0.0, 0.0, 1.0]]),
                               ('dcmmeta_reorient_transform', None), ('dcmmeta_slice_dim', None), ('dcmmeta_version', 0.6)])
        try:
            ext = DcmMetaExtension.from_runtime_repr(content)
            t1 = ext.to_json()
            e2 = DcmMetaExtension.from_json(t1)
            e3 = DcmMetaExtension.from_json(t1.encode('utf-8'))
            obs['ext_same'] = same(e2.get_values('v'), v) and same(e3.get_values('v'), v)
            obs['ext_reser'] = e2.to_json() == t1 and e3.to_json() == t1 and str(ext) == t1
        except Exception as e:
            obs['ext_err'] = type(e).__name__
        return obs

    @staticmethod
    def coq_case(case, obs):
        if not isinstance(obs, dict) or 'text' not in obs:
            return '{| Corr.cc_val := %s; Corr.cc_text := (@nil N) |}' % tv_coq(case['v'])
        return '{| Corr.cc_val := %s; Corr.cc_text := %s |}' % (tv_coq(case['v']), ctext(obs['text']))

    @staticmethod
    def oracle(case, obs):
        if not isinstance(obs, dict) or 'crash' in obs:
            return 'json.dumps/json.loads failed on a JSON value: %s' % (obs.get('crash') if isinstance(obs, dict) else obs)
        if not obs.get('same'):
            return 'json text does not read back to the same value (types, key order, float bits)'
        if not obs.get('redump_same'):
            return 're-serialised JSON differs from the first serialisation'
        if 'ext_err' in obs:
            return 'extension: a minimal extension holding the value as a constant could not be serialised and reloaded: %s' % obs['ext_err']
        if not obs.get('ext_same'):
            return 'extension-value: the value does not survive to_json/from_json as a constant of an extension (types, key order, float bits)'
        if not obs.get('ext_reser'):
            return 'extension-text: re-serialised JSON / str() of the extension holding the value is not byte-identical'
        return None

    @staticmethod
    def signature(case, obs, msg):
        return 'codec/' + msg.split(' ')[0].rstrip(':')

    @staticmethod
    def nontrivial(case, obs):
        return tv_interesting(case['v'])

    @staticmethod
    def shrink(case):
        for v in shrink_tv(case['v']):
            yield {'kind': case['kind'], 'v': v}


# ------------------------------------------------------------------------------------------------
# part 2: loads (parser on a superset of the printer's image)

def rand_ws(rng):
    r = rng.random()
    if r < 0.5:
        return ''
    return ''.join(rng.choice(' \t\n\r') for _ in range(rng.randrange(1, 4)))


def sloppy_str(rng, cps):
    out = ['"']
    for c in cps:
        r = rng.random()
        if 0xd800 <= c <= 0xdfff:
            out.append('\\u%04x' % c)
        elif c in (34, 92) or c < 32:
            short = {34: '\\"', 92: '\\\\', 8: '\\b', 12: '\\f', 10: '\\n', 13: '\\r', 9: '\\t'}
            if c in short and r < 0.6:
                out.append(short[c])
            else:
                out.append(('\\u%04x' if r < 0.8 else '\\u%04X') % c)
        elif c == 47 and r < 0.5:
            out.append('\\/')
        elif r < 0.55:
            out.append(chr(c))                  # raw, also for non-ASCII
        elif c < 0x10000:
            out.append(('\\u%04x' if r < 0.8 else '\\u%04X') % c)
        else:
            v = c - 0x10000
            hi, lo = 0xd800 + (v >> 10), 0xdc00 + (v & 0x3ff)
            out.append(('\\u%04x\\u%04x' if r < 0.8 else '\\u%04X\\u%04x') % (hi, lo))
    out.append('"')
    return ''.join(out)


def sloppy_print(rng, tv):
    t = tv[0]
    if t == 'n':
        return 'null'
    if t == 'b':
        return 'true' if tv[1] else 'false'
    if t == 'i':
        return tv[1]
    if t == 'f':
        x = float.fromhex(tv[1])
        s = ftok(x)
        r = rng.random()
        if x == x and abs(x) != math.inf:
            if r < 0.15:
                s = '%e' % x
            elif r < 0.3:
                s = s.replace('e', 'E')
            elif r < 0.4 and 'e' not in s:
                s = s + '0'
            elif r < 0.5 and 'e' in s:
                s = s.replace('e+', 'e').replace('e-0', 'e-')
        return s
    if t == 's':
        return sloppy_str(rng, tv[1])
    if t == 'a':
        return '[' + rand_ws(rng) + (rand_ws(rng) + ',' + rand_ws(rng)).join(sloppy_print(rng, x) for x in tv[1]) + rand_ws(rng) + ']'
    if t == 'o':
        items = list(tv[1])
        if items and rng.random() < 0.3:      # duplicate keys
            k, v = rng.choice(items)
            items.insert(rng.randrange(len(items) + 1), [k, gen_scalar(rng)])
        return ('{' + rand_ws(rng)
                + (rand_ws(rng) + ',' + rand_ws(rng)).join(sloppy_str(rng, k) + rand_ws(rng) + ':' + rand_ws(rng) + sloppy_print(rng, v)
                                                            for k, v in items)
                + rand_ws(rng) + '}')
    raise ValueError(t)


DAMAGE_CHARS = list('{}[],:"\\ \n\tntfuNI-+.eE0123456789/x') + ['\x00', '\x1f', '\x7f', '\u00e9', '\ud800', '\ufeff', '\U0001f600']
HAND_TEXTS = ['', ' ', '[]', '{}', '[ ]', '{ }', '[,]', '[1,]', '{"a":1,}', '{,}', '[1 2]', '{"a" 1}', '{"a":}', '{a:1}', "{'a':1}",
              '01', '-', '-0', '-01', '1.', '1.e5', '1e', '1e+', '.5', '+1', '1.5e', '1.5e+', '1E5', '1e-0', '-0.0', '0.0e0', '00',
              '0x10', '1_000', 'NaN', 'Infinity', '-Infinity', '-Inf', 'nan', 'Nan', 'Infinit', '-NaN', 'nul', 'nullx', 'null null',
              'true', 'tru', 'True', 'false', 'fals', '"', '"a', '"\\', '"\\u', '"\\u12"', '"\\u123g"', '"\\x41"', '"\\a"',
              '"\\ud800"', '"\\udc00"', '"\\ud800\\udc00"', '"\\ud800\\ud800"', '"\\ud800\\u0041"', '"\\udc00\\ud800"',
              '"\\ud800\\n"', '"\\ud800\\', '"\\ud800\\u', '"\\ud800\\udc0', '"\\ud800\\udc0g"', '"\\ud800\\uDC00"', '"\\uD83D\\uDE00"',
              '"\\ud800x\\udc00"', '"\t"', '"\n"', '"\x7f"', '"\x1f"', '"\u2028"', '\ufeff[]', '[]\ufeff', ' [] ', '\n{\n}\n', '[] []',
              '[[[[[[]]]]]]', '[[]', '[]]', '{"a":{"a":{"a":{}}}}', '{"a":1,"a":2}', '{"a":1,"b":2,"a":3}', '{"":0}', '{"a":1 ,"b":2}',
              '{"a"\n:\n1}', '\x0b[]', '\x0c1', '[1\x0b]', '\u00a01', '1 \u00a0', '[1,\u20282]', '123456789012345678901234567890',
              '-123456789012345678901234567890', '1.7976931348623157e+308', '1e999', '-1e999', '5e-324', '1e-999', '0e0', '0E+0', '-0e-0',
              '{"a":[1,2,{"b":null}],"c":"\\u00e9"}', '[1.5,2e3,-3.25E-2, 4 ]', '"\\/"', '"/"', '"\\b\\f\\n\\r\\t\\"\\\\"',
              '--1', '1-', '1+1', '1e1.5', '1.5.5', '[1.]', '[.1]', '[-]', '{"a":-}', '[nul]', '[NaN,Infinity,-Infinity]', '[-Infinity1]',
              'Infinity8', 'NaNa', '[tru]', '"abc" x', '{} x', '1 2', '\t1\r', '"\\u0000"', '"\\uffff"', '"\\uFFFF"', '"\\uAbCd"',
              '"\\u00zz"', '"\\u 123"', '"\\u+123"', '"\\u1_23"', '"\\u12345"', '"\\ud83d\\ude00\\ud83d"', '"\\ud83d\\ud83d\\ude00"']


class Loads:
    NAME = "loads"
    CORR_REQUIRE = "From Coq Require Import String.\nFrom DV Require Import Common.Str Common.Jv Json.Model Json.Corr."
    CORR_CASE_TYPE = "Corr.loads_case"
    CORR_CHECK = "Corr.check_loads"
    CORR_SHOW = "Corr.show_loads"
    SHARD = 30
    IMPL_TIMEOUT = 20
    RULE = ("(model tie only: CPython's json, not dcmstack, is what runs here) texts with random white space / escape spellings / duplicate keys / non-canonical float lexemes, hand-written corner "
            "cases and randomly damaged texts; observation = json.loads result with float lexemes kept verbatim "
            "(parse_float/parse_constant hooks) or JSONDecodeError")

    @staticmethod
    def gen_cases(rng, tier):
        n = 300 if tier == 'quick' else 1500
        out = [{'kind': 'hand', 'text': [ord(c) for c in t]} for t in HAND_TEXTS]
        while len(out) < len(HAND_TEXTS) + n:
            v = gen_value(rng, rng.randrange(0, 4), True, 3)
            if tv_size(v) > 600:
                continue
            text = sloppy_print(rng, v)
            if rng.random() < 0.5:
                text = rand_ws(rng) + text + rand_ws(rng)
            kind = 'sloppy'
            if rng.random() < 0.45 and text:
                kind = 'damaged'
                for _ in range(rng.choice([1, 1, 2])):
                    i = rng.randrange(len(text) + 1)
                    r = rng.random()
                    if r < 0.35 and i < len(text):
                        text = text[:i] + text[i + 1:]
                    elif r < 0.7:
                        text = text[:i] + rng.choice(DAMAGE_CHARS) + text[i:]
                    elif r < 0.85 and i < len(text):
                        text = text[:i] + rng.choice(DAMAGE_CHARS) + text[i + 1:]
                    else:
                        text = text[:i]
            out.append({'kind': kind, 'text': [ord(c) for c in text]})
        return out

    @staticmethod
    def run_impl(case):
        from collections import OrderedDict
        text = ''.join(chr(c) for c in case['text'])
        try:
            v = json.loads(text, object_pairs_hook=OrderedDict, parse_float=Tok, parse_constant=Tok)
        except json.JSONDecodeError:
            return {'err': 'EValue'}
        obs = {'res': enc(v)}
        # what was read re-serialises to a text that reads back to the same value and re-serialises identically
        plain = json.loads(text, object_pairs_hook=OrderedDict)
        t1 = json.dumps(plain, indent=4)
        back = json.loads(t1, object_pairs_hook=OrderedDict)
        obs['stable'] = same(plain, back) and json.dumps(back, indent=4) == t1
        return obs

    @staticmethod
    def coq_case(case, obs):
        if isinstance(obs, dict) and 'res' in obs:
            res = '(Some %s)' % tv_coq(obs['res'])
        elif isinstance(obs, dict) and obs.get('err') == 'EValue':
            res = 'None'
        else:   # unexpected crash of the implementation runner: make the case visible as a mismatch
            res = '(Some (JArr [JNull; JNull; JNull]))' if case['text'] != [91, 93] else 'None'
        return '{| Corr.lc_text := %s; Corr.lc_result := %s |}' % (ccps(case['text']), res)

    @staticmethod
    def oracle(case, obs):
        # the property says nothing about which texts are accepted (that is the model correspondence); what it does say
        # applies to every value that was read: it re-serialises to a text that reads back exactly
        if isinstance(obs, dict) and 'res' in obs and not obs.get('stable'):
            return 'a value read from a text does not survive json.dumps/json.loads'
        return None

    @staticmethod
    def signature(case, obs, msg):
        return 'loads'

    @staticmethod
    def nontrivial(case, obs):
        return len(case['text']) > 2


# ------------------------------------------------------------------------------------------------
# part 3: extensions  (machinery shared by the parts ext and ext_hist)
#
# Ground truth.  The expected content of every extension is computed from the CASE alone (truth_initial, apply_edit_truth,
# truth_valid below: the documented DcmMeta format, no call into the library).  The content of the live object is
# snapshotted BEFORE any serialisation call; clause build/truth compares it with the generator's truth, and every later
# comparison (texts parsed with the stdlib json, file bytes parsed out of the file, reloaded extensions) is against
# that snapshot, with this module's own structural comparison `same` (types, float bits, order, NaN equal to NaN).

CLASSES = [('global', 'const'), ('global', 'slices'), ('time', 'samples'), ('time', 'slices'),
           ('vector', 'samples'), ('vector', 'slices')]
REQUIRED = {0.5: ['dcmmeta_affine', 'dcmmeta_slice_dim', 'dcmmeta_shape', 'dcmmeta_version', 'global'],
            0.6: ['dcmmeta_affine', 'dcmmeta_reorient_transform', 'dcmmeta_slice_dim', 'dcmmeta_shape', 'dcmmeta_version', 'global']}
DCMMETA_ECODE = 0


def valid_classes(shape):
    if len(shape) == 3:
        return CLASSES[:2]
    if len(shape) == 4:
        return CLASSES[:4]
    if shape[3] != 1:
        return CLASSES
    return CLASSES[:2] + CLASSES[-2:]


def multiplicity(shape, slice_dim, cls):
    base, sub = cls
    if sub == 'const':
        return 1
    if sub == 'slices':
        if slice_dim is None:
            return 0
        n = shape[slice_dim]
        if base == 'vector':
            n *= shape[3]
        elif base == 'global':
            for d in shape[3:]:
                n *= d
        return n
    if base == 'time':
        n = shape[3]
        if len(shape) == 5:
            n *= shape[4]
        return n
    return shape[4]


class Harness(Exception):
    """the harness itself cannot observe (not a verdict about the property)"""


def ks(cps):
    return ''.join(chr(c) for c in cps)


def content_of(ext):
    """The runtime dictionary of an extension: through the public accessor, with ONE fallback to the attribute."""
    try:
        c = ext.get_content()
        if hasattr(c, 'items'):
            return c
    except (AttributeError, TypeError):
        pass
    c = getattr(ext, '_content', None)
    if hasattr(c, 'items'):
        return c
    raise Harness('cannot read the content dictionary of a DcmMetaExtension')


def same_unordered(a, b):
    """`same`, except that dictionaries are compared as maps"""
    if hasattr(a, 'items') and hasattr(b, 'items'):
        return (len(a) == len(b) and all(isinstance(k, str) and k in b and same_unordered(v, b[k]) for k, v in a.items()))
    if isinstance(a, list) and isinstance(b, list):
        return len(a) == len(b) and all(same_unordered(x, y) for x, y in zip(a, b))
    if hasattr(a, 'items') or hasattr(b, 'items') or isinstance(a, list) or isinstance(b, list):
        return False
    return same(a, b)


def num_of(x):
    """a matrix entry of a case: a float (hex string) or an integer JSON number (['i', decimal])"""
    return int(x[1]) if isinstance(x, list) else float.fromhex(x)


def matrix_of(rows):
    """the matrix exactly as the content holds it: Python floats and ints"""
    return None if rows is None else [[num_of(x) for x in row] for row in rows]


def matrix_has_int(rows):
    return rows is not None and any(isinstance(x, list) for row in rows for x in row)


def float_matrix(rows):
    return [[float(num_of(x)) for x in row] for row in rows]


def truth_initial(case):
    """the content dictionary the documented format prescribes for this case (generator truth)"""
    from collections import OrderedDict
    shape = list(case['shape'])

    def base():
        return OrderedDict([('samples', OrderedDict()), ('slices', OrderedDict())])
    t = OrderedDict()
    t['global'] = OrderedDict([('const', OrderedDict()), ('slices', OrderedDict())])
    if len(shape) == 4 or (len(shape) > 4 and shape[3] != 1):
        t['time'] = base()
    if len(shape) > 4:
        t['vector'] = base()
    t['dcmmeta_shape'] = shape
    t['dcmmeta_affine'] = matrix_of(case['affine'])
    t['dcmmeta_reorient_transform'] = matrix_of(case['reorient'])
    t['dcmmeta_slice_dim'] = case['slice_dim']
    t['dcmmeta_version'] = 0.6
    for b, s, k, v in case['entries']:
        t[b][s][ks(k)] = dec(v)
    for k, v in case.get('extra', []):
        t[ks(k)] = dec(v)
    for b, subs in case.get('stale', []):
        t[b] = OrderedDict((sn, OrderedDict((ks(k), dec(v)) for k, v in ents)) for sn, ents in subs)
    if case.get('version') == 0.5:
        t['dcmmeta_version'] = 0.5
        del t['dcmmeta_reorient_transform']
    return t


def truth_valid(t):
    """the validity rules of the format, on a content dictionary (generator side)"""
    req = REQUIRED.get(t.get('dcmmeta_version'))
    if req is None or any(k not in t for k in req):
        return False
    aff, sd, shape = t['dcmmeta_affine'], t['dcmmeta_slice_dim'], t['dcmmeta_shape']
    if not (isinstance(aff, list) and len(aff) == 4 and all(isinstance(r, list) and len(r) == 4 for r in aff)):
        return False
    if sd is not None and not (isinstance(sd, int) and 0 <= sd < 3):
        return False
    if not (isinstance(shape, list) and 3 <= len(shape) < 6):
        return False
    seen = set()
    for b, s in valid_classes(shape):
        if b not in t or not hasattr(t[b], 'items') or s not in t[b]:
            return False
        d = t[b][s]
        m = multiplicity(shape, sd, (b, s))
        if m == 0 and len(d) != 0:
            return False
        if m > 1 and any(not isinstance(v, (list, str)) or len(v) != m for v in d.values()):
            return False
        if seen & set(d):
            return False
        seen |= set(d)
    return True


def match_truth(content, truth):
    """content == truth: the top level and the base dictionaries as maps (their order is the implementation's business and
    is what every reload is then held to), the class dictionaries and all values exactly, in order"""
    if not hasattr(content, 'items') or set(content.keys()) != set(truth.keys()) or len(content) != len(truth):
        return False
    for k, b in truth.items():
        a = content[k]
        if k in ('global', 'time', 'vector') and hasattr(b, 'items'):
            if not hasattr(a, 'items') or set(a.keys()) != set(b.keys()) or len(a) != len(b):
                return False
            if not all(same(a[s], b[s]) for s in b):
                return False
        elif not same(a, b):
            return False
    return True


def errname(e):
    """class of an exception for the diagnostics (never compared: refusals are judged raised / not raised)"""
    for cls, name in ((ValueError, 'ValueError'), (KeyError, 'KeyError'), (TypeError, 'TypeError'),
                      (AttributeError, 'AttributeError'), (IndexError, 'IndexError'), (OSError, 'OSError')):
        if isinstance(e, cls):
            return name
    try:
        from dcmstack.dcmmeta import InvalidExtensionError, MissingExtensionError
        if isinstance(e, InvalidExtensionError):
            return 'InvalidExtensionError'
        if isinstance(e, MissingExtensionError):
            return 'MissingExtensionError'
    except ImportError:
        pass
    return 'Exception'


CORRUPTIONS = ['del_req', 'bad_count', 'dup_key', 'slice_dim_bad', 'shape_len', 'affine_shape', 'slices_without_dim', 'missing_sub']
FORMATS = {'nii': '.nii', 'niigz': '.nii.gz', 'pair': '.img'}


INT_ENTRIES = [0, 1, -1, 2, 3, -2, 10, 2 ** 31, 2 ** 53, 2 ** 53 + 1, -(2 ** 53) - 1, 2 ** 62 + 1, 9007199254740993, 123456789012345678]


def gen_affine(rng, ints=0.25):
    """a 4x4 matrix: floats as dcmstack itself writes them, or - as from_runtime_repr / third-party JSON may hold -
    integer JSON numbers: an all-int matrix, a mix of ints and floats, ints beyond 2**53"""
    if rng.random() < ints:
        r = rng.random()
        if r < 0.3:      # integer identity / permutation-like
            m = [[['i', str(int(i == j) * rng.choice([1, 1, 2, -1, 3]))] for j in range(4)] for i in range(3)]
            m.append([['i', '0'], ['i', '0'], ['i', '0'], ['i', '1']])
            return m
        m = []
        for i in range(3):
            row = []
            for j in range(4):
                q = rng.random()
                if q < 0.45:
                    row.append(['i', str(rng.choice(INT_ENTRIES))])
                elif q < 0.6:
                    row.append(['i', str(rng.randrange(-1000, 1000))])
                else:
                    row.append(rng.choice([0.0, 1.0, 0.5, -2.5, rng.uniform(-3, 3)]).hex())
            m.append(row)
        m.append([rng.choice([['i', '0'], (0.0).hex()]) for _ in range(3)] + [rng.choice([['i', '1'], (1.0).hex()])])
        return m
    r = rng.random()
    if r < 0.3:
        m = [[1.0, 0.0, 0.0, 0.0], [0.0, 1.0, 0.0, 0.0], [0.0, 0.0, 1.0, 0.0], [0.0, 0.0, 0.0, 1.0]]
    else:
        m = [[rng.uniform(-3, 3) if rng.random() < 0.8 else gen_float(rng, False) for _ in range(4)] for _ in range(3)]
        m = [[x if abs(x) < 1e30 else 1.5 for x in row] for row in m]
        m.append([0.0, 0.0, 0.0, 1.0])
    return [[x.hex() for x in row] for row in m]


TOP_NAMES = ('global', 'time', 'vector', 'dcmmeta_shape', 'dcmmeta_affine', 'dcmmeta_reorient_transform', 'dcmmeta_slice_dim',
             'dcmmeta_version')


def gen_ext_case(rng, depth, corrupt=None, hostile=False):
    strgen = gen_hostile_str if hostile else None
    nonfin = bool(hostile)
    nd = rng.choice([3, 3, 4, 4, 5, 5])
    shape = [rng.randrange(1, 4) for _ in range(nd)]
    if nd == 5 and rng.random() < 0.3:
        shape[3] = 1
    slice_dim = rng.choice([None, 0, 1, 2, 2])
    if corrupt == 'slices_without_dim':
        slice_dim = None
    entries = []
    taken = set()
    for cls in valid_classes(shape):
        m = multiplicity(shape, slice_dim, cls)
        if m == 0:
            continue
        for k in gen_keys(rng, rng.choice([0, 1, 1, 2, 3]) + (1 if hostile else 0), taken, strgen):
            taken.add(tuple(k))
            if cls[1] == 'const':
                v = gen_value(rng, depth, nonfin, 3, strgen)
            else:
                d = rng.choice([0, 0, 1, max(0, depth - 1)])
                v = ['a', [gen_value(rng, d, nonfin, 3, strgen) for _ in range(m)]]
            entries.append([cls[0], cls[1], k, v])
    rng.shuffle(entries)
    extra = []
    if rng.random() < 0.25:
        for k in gen_keys(rng, rng.choice([1, 2]), taken | {tuple(map(ord, s)) for s in TOP_NAMES}, strgen):
            extra.append([k, gen_value(rng, 1, nonfin, 2, strgen)])
    # stale class dictionaries: a base dictionary the shape does not call for (left behind by an earlier, larger shape)
    stale = []
    if not corrupt and rng.random() < 0.3:
        vb = {c[0] for c in valid_classes(shape)}
        for b in ('time', 'vector'):
            if b not in vb and not (b == 'time' and (nd == 4 or (nd > 4 and shape[3] != 1))) and not (b == 'vector' and nd > 4):
                subs = []
                for sn in ('samples', 'slices'):
                    ents = [[k, gen_value(rng, 1, nonfin, 2, strgen)] for k in gen_keys(rng, rng.choice([0, 1, 2]), None, strgen)]
                    subs.append([sn, ents])
                stale.append([b, subs])
    version = 0.6
    reorient = gen_affine(rng) if rng.random() < 0.5 else None
    if not corrupt and rng.random() < 0.15:
        version, reorient = 0.5, None
    kind = ('invalid/' + corrupt) if corrupt else (('hostile%dd' if hostile else 'valid%dd') % nd)
    if version == 0.5:
        kind += '/v0.5'
    if stale:
        kind += '/stale'
    affine = gen_affine(rng)
    hdr_slice = rng.choice([None, 0, 1, 2])
    if matrix_has_int(affine) or matrix_has_int(reorient):
        kind += '/intmatrix'
    kind += '/sd%s-hdr%s' % ('N' if slice_dim is None else slice_dim, 'N' if hdr_slice is None else hdr_slice)
    return {'kind': kind, 'shape': shape, 'slice_dim': slice_dim, 'affine': affine, 'reorient': reorient,
            'entries': entries, 'extra': extra, 'stale': stale, 'version': version, 'corrupt': corrupt,
            'csel': rng.randrange(1000),
            'build': 'make_empty' if corrupt else rng.choice(['make_empty', 'make_empty', 'runtime', 'json']),
            'hdr_slice': hdr_slice,      # dim_info of the NIfTI header, independent of the extension's slice dim
            'endian': '>' if rng.random() < 0.2 else '<',
            'foreign': rng.choice([None, None, None, 'before', 'after', 'both']),
            'formats': ['nii', 'niigz'] + (['pair'] if rng.random() < 0.25 else []),
            'cycles': rng.choice([1, 2, 2, 3, 4]),
            'same_path': rng.random() < 0.3}


def build_ext(case):
    import copy
    import numpy as np
    from dcmstack.dcmmeta import DcmMetaExtension
    build = case.get('build', 'make_empty')
    if build == 'runtime':
        ext = DcmMetaExtension.from_runtime_repr(copy.deepcopy(truth_initial(case)))
    elif build == 'json':
        ext = DcmMetaExtension.from_json(json.dumps(truth_initial(case)))      # compact stdlib text of the truth
    else:
        aff = np.array(float_matrix(case['affine']))
        reo = None if case['reorient'] is None else np.array(float_matrix(case['reorient']))
        ext = DcmMetaExtension.make_empty(tuple(case['shape']), aff, reo, case['slice_dim'])
        for base, sub, k, v in case['entries']:
            ext.get_class_dict((base, sub))[ks(k)] = dec(v)
        content = content_of(ext)
        if matrix_has_int(case['affine']):
            content['dcmmeta_affine'] = matrix_of(case['affine'])
        if matrix_has_int(case['reorient']):
            content['dcmmeta_reorient_transform'] = matrix_of(case['reorient'])
        for k, v in case.get('extra', []):
            content[ks(k)] = dec(v)
        from collections import OrderedDict
        for b, subs in case.get('stale', []):
            content[b] = OrderedDict((sn, OrderedDict((ks(k), dec(v)) for k, v in ents)) for sn, ents in subs)
        if case.get('version') == 0.5:
            ext.version = 0.5
            del content['dcmmeta_reorient_transform']
    c = case.get('corrupt')
    if c:
        corrupt_content(content_of(ext), case, c)
    return ext


def corrupt_content(content, case, c):
    """one corruption of a content dictionary (applied to the live object and, identically, to the generator's truth)"""
    sel = case.get('csel', 0)
    shape, sd = case['shape'], case['slice_dim']
    vcs = valid_classes(shape)
    if c == 'bad_count':
        cands = [cl for cl in vcs if multiplicity(shape, sd, cl) > 1]
        if cands:
            cl = cands[sel % len(cands)]
            m = multiplicity(shape, sd, cl)
            content[cl[0]][cl[1]]['badcount'] = [0] * (m + 1 if sel % 2 else m - 1)
            return
        c = 'slice_dim_bad'
    if c == 'dup_key':
        cands = [cl for cl in vcs if multiplicity(shape, sd, cl) >= 1]
        if len(cands) >= 2:
            a, b = cands[sel % len(cands)], cands[(sel + 1) % len(cands)]
            content[a[0]][a[1]]['dup'] = [1] * multiplicity(shape, sd, a) if a[1] != 'const' else 1
            content[b[0]][b[1]]['dup'] = [1] * multiplicity(shape, sd, b) if b[1] != 'const' else 1
            return
        c = 'slice_dim_bad'
    if c == 'del_req':
        req = ['dcmmeta_affine', 'dcmmeta_reorient_transform', 'dcmmeta_slice_dim', 'dcmmeta_shape', 'global']
        del content[req[sel % len(req)]]
    elif c == 'slice_dim_bad':
        content['dcmmeta_slice_dim'] = [3, -1, 7][sel % 3]
    elif c == 'shape_len':
        content['dcmmeta_shape'] = [[2, 2], [2, 2, 2, 2, 2, 2]][sel % 2]
    elif c == 'affine_shape':
        content['dcmmeta_affine'] = content['dcmmeta_affine'][:3]
    elif c == 'slices_without_dim':
        content['global']['slices']['orphan'] = [1, 2]
    elif c == 'missing_sub':
        base = vcs[sel % len(vcs)]
        del content[base[0]][base[1]]


def truth_of_case(case):
    t = truth_initial(case)
    if case.get('corrupt'):
        corrupt_content(t, case, case['corrupt'])
    return t


def voxels_of(case):
    """the voxel data of the case's image (generator truth): zeros, or - when the case has a data seed - a fixed pattern"""
    import numpy as np
    shape = tuple(case['shape'])
    if case.get('data_seed') is None:
        return np.zeros(shape, dtype=np.int16)
    n = int(np.prod(shape))
    return ((np.arange(n, dtype=np.int64) * 7 + case['data_seed']) % 997).astype(np.int16).reshape(shape)


def make_image(case, ext):
    """an image of the case's shape carrying `ext` (and, optionally, extensions that are not ours); little or big endian;
    single file or header/image pair"""
    import numpy as np
    import nibabel as nb
    from nibabel.nifti1 import Nifti1Extension

    def build(cls):
        hdr = cls.header_class(endianness='>') if case.get('endian') == '>' else None
        aff = np.array(float_matrix(case['affine']))
        if not all(x == 0 or 1e-3 <= abs(x) <= 1e3 for x in aff.ravel()):
            # the extension keeps the case's affine (any floats); the IMAGE gets a tame one: nibabel's qform code runs an
            # SVD that does not terminate in reasonable time on matrices mixing subnormal and huge entries (not C09's subject)
            aff = np.eye(4)
        img = cls(voxels_of(case), aff, header=hdr)
        if case.get('hdr_slice') is not None:
            img.header.set_dim_info(slice=case['hdr_slice'])
        f = case.get('foreign')
        if f in ('before', 'both'):
            img.header.extensions.append(Nifti1Extension('comment', b'{"not": "a dcmmeta extension"}'))
        img.header.extensions.append(ext)
        if f in ('after', 'both'):
            img.header.extensions.append(Nifti1Extension('afni', b'<AFNI_attributes/>'))
        return img
    return build


def file_ext_bytes(path):
    """The extension section of a NIfTI-1 file (single file, or the .hdr of a pair), parsed from the raw bytes with no
    nibabel object involved: list of (ecode, content with the zero padding removed)."""
    import gzip, struct
    if path.endswith('.img'):
        path = path[:-4] + '.hdr'
    with (gzip.open(path, 'rb') if path.endswith('.gz') else open(path, 'rb')) as f:
        data = f.read()
    en = '<' if struct.unpack('<i', data[:4])[0] == 348 else '>'
    single = data[344:347] == b'n+1'
    limit = int(struct.unpack(en + 'f', data[108:112])[0]) if single else len(data)
    out = []
    if len(data) < 352 or data[348] == 0:
        return out
    pos = 352
    while pos + 8 <= limit:
        esize, ecode = struct.unpack(en + 'ii', data[pos:pos + 8])
        if esize < 8 or pos + esize > len(data):
            break
        out.append((ecode, data[pos + 8:pos + esize].rstrip(b'\x00')))
        pos += esize
    return out


def observe_file(path, snapshot):
    """what the file holds, judged without the library: number of DcmMeta extensions, their bytes, and whether those bytes
    (utf-8, JSON read with the stdlib) are exactly the snapshot"""
    from collections import OrderedDict
    exts = [c for code, c in file_ext_bytes(path) if code == DCMMETA_ECODE]
    r = {'n_ext': len(exts), 'file': exts[0].decode('latin-1') if exts else None, 'file_same': False}
    if len(exts) == 1:
        try:
            r['file_same'] = same(json.loads(exts[0].decode('utf-8'), object_pairs_hook=OrderedDict), snapshot)
        except ValueError:
            pass
    return r


def observe_ext(e2, snapshot, ref_ext=None):
    """a reloaded extension against the snapshot of the original content"""
    c2 = content_of(e2)
    r = {'same': same(c2, snapshot), 'same_unordered': same_unordered(c2, snapshot)}
    if not r['same']:
        r['content'] = enc(c2)
    if ref_ext is not None:
        try:
            r['eq'] = bool(e2 == ref_ext) and bool(ref_ext == e2)
        except Exception as e:
            r['eq'] = False
            r['eq_err'] = errname(e)
    try:
        t2 = e2.to_json()
        r['reser'] = t2 if isinstance(t2, str) else None
    except Exception as e:
        r['reser_err'] = errname(e)
    try:
        r['str_is_json'] = str(e2) == r.get('reser')
    except Exception as e:
        r['str_is_json'] = False
    return r


def serial_obs(ext, out):
    """check_valid / to_json / str of a live extension, into `out`; returns the JSON text or None"""
    try:
        ext.check_valid()
        out['valid'] = 'ok'
    except Exception as e:
        out['valid'] = errname(e)
    text = None
    try:
        text = ext.to_json()
        out['to_json'] = {'ok': text} if isinstance(text, str) else {'err': 'not-a-str'}
        if not isinstance(text, str):
            text = None
    except Exception as e:
        out['to_json'] = {'err': errname(e)}
    try:
        s = str(ext)
        out['str'] = {'ok': s}
    except Exception as e:
        out['str'] = {'err': errname(e)}
    return text


def judge_serial(o, snapshot_tv, expect_valid, where=''):
    """clauses about to_json/str of one observed state; snapshot_tv is the content taken before the calls"""
    from collections import OrderedDict
    msgs = []
    tj = o['to_json']
    if (o['valid'] == 'ok') != expect_valid:
        msgs.append('[%svalid/expected] check_valid says %s for a content the format rules make %s'
                    % (where, o['valid'], 'valid' if expect_valid else 'invalid'))
    if not expect_valid:
        if 'ok' in tj:
            msgs.append('[%sto_json/invalid-accepted] to_json serialised an invalid extension' % where)
        return msgs
    if 'ok' not in tj:
        msgs.append('[%sto_json/raised] to_json failed on a valid extension: %s' % (where, tj['err']))
        return msgs
    text = tj['ok']
    try:
        back = json.loads(text, object_pairs_hook=OrderedDict)
        snap = dec(snapshot_tv)
        if not same(back, snap):
            msgs.append('[%sto_json/%s] the JSON text does not read back (stdlib json) to the content of the extension'
                        % (where, 'order' if same_unordered(back, snap) else 'content'))
    except ValueError:
        msgs.append('[%sto_json/not-json] to_json did not return JSON' % where)
    if not o.get('post_same'):
        msgs.append('[%sto_json/inplace] serialising changed the content of the extension in place' % where)
    if o['str'].get('ok') != text:
        msgs.append('[%sstr/is-json] str(ext) is not the JSON of the extension: %s' % (where, o['str'].get('err') or 'different text'))
    return msgs


def judge_reload(r, text, has_nan, where):
    msgs = []
    if r is None or 'err' in r:
        return ['[%s/raised] reload failed: %s' % (where, (r or {}).get('err'))]
    if not r.get('same'):
        msgs.append('[%s/%s] reloaded extension differs from the original content (%s)'
                    % (where, 'order' if r.get('same_unordered') else 'content',
                       'key order' if r.get('same_unordered') else 'keys, classes, types, values or float bits'))
    if 'eq' in r and not r['eq'] and not has_nan and r.get('same'):
        msgs.append('[%s/eq] reloaded extension has the same content but is not == to the original' % where)
    if r.get('reser') != text:
        msgs.append('[%s/reser] re-serialised JSON is not byte-identical' % where)
    if not r.get('str_is_json'):
        msgs.append('[%s/str] str() of the reloaded extension is not its JSON' % where)
    if 'n_ext' in r:
        if r['n_ext'] != 1:
            msgs.append('[%s/file-count] the file holds %s DcmMeta extensions' % (where, r['n_ext']))
        elif not r.get('file_same'):
            msgs.append('[%s/file-content] the extension bytes in the file do not decode (utf-8, JSON) to the content' % where)
    return msgs


def msg_id(msg):
    return msg[1:msg.index(']')] if msg.startswith('[') and ']' in msg else 'other'


def lit_shared():
    """let-bound sharing of identical texts / values inside one case literal"""
    names, binds = {}, []

    def share(key, lit):
        if key not in names:
            names[key] = 'x%d' % len(names)
            binds.append('let %s := %s in ' % (names[key], lit))
        return names[key]

    def text(s):
        return share('T' + s, ctext(s)) if isinstance(s, str) else '[0]%N'

    def val(tv):
        return share('V' + json.dumps(tv), tv_coq(tv))
    return binds, text, val


def coq_res_unit(v):
    return 'Ok tt' if v == 'ok' else 'Err EInvalidExt'       # compared as raised / not raised only


class Ext:
    NAME = "ext"
    CORR_REQUIRE = "From Coq Require Import String.\nFrom DV Require Import Common.Str Common.Jv Json.Model Json.Corr."
    CORR_CASE_TYPE = "Corr.ext_case"
    CORR_CHECK = "Corr.check_ext"
    CORR_SHOW = "Corr.show_ext"
    SHARD = 10
    IMPL_TIMEOUT = 60
    RULE = ("valid DcmMetaExtensions of every shape class, version 0.6 and 0.5, with and without stale base dictionaries and "
            "extra top-level keys, affine / reorient matrices of floats or of integer JSON numbers (all-int, mixed, beyond 2**53), "
            "every combination of extension slice dim {None,0,1,2} x NIfTI header dim_info slice {None,0,1,2}, "
            "built by make_empty + API, by from_runtime_repr or by from_json of the generator's truth; "
            "expected content computed from the case alone; observed: content before any call, to_json, str, content after, "
            "and reloads through from_json(str), from_json(bytes), from_runtime_repr and 1-4 save/load cycles through .nii, "
            ".nii.gz (sometimes a .hdr/.img pair; little/big endian; other extensions beside ours; saving onto the loaded "
            "path): own structural comparison (NaN equal to NaN), bytes of re-serialisation, and the extension bytes parsed out "
            "of the file read with the stdlib json; invalid extensions: to_json and to_filename must refuse (any exception)")

    @staticmethod
    def gen_cases(rng, tier):
        nvalid = 110 if tier == 'quick' else 600
        ninv = 32 if tier == 'quick' else 160
        depth = 2 if tier == 'quick' else 4
        out = [gen_ext_case(rng, depth) for _ in range(nvalid)]
        out += [gen_ext_case(rng, 1, None, True) for _ in range(48 if tier == 'quick' else 240)]
        out += [gen_ext_case(rng, 1, CORRUPTIONS[i % len(CORRUPTIONS)]) for i in range(ninv)]
        return out

    @staticmethod
    def run_impl(case):
        import copy, shutil, tempfile
        import nibabel as nb
        from dcmstack.dcmmeta import DcmMetaExtension, NiftiWrapper
        base = os.environ.get('VERIF_WORK') or os.path.join('/verif', 'work', 'c09_manual')
        os.makedirs(base, exist_ok=True)
        tmp = tempfile.mkdtemp(prefix='c09_', dir=base)
        try:
            ext = build_ext(dict(case, corrupt=None))
            nw_bad = None
            if case.get('corrupt'):
                nw_bad = NiftiWrapper(make_image(case, ext)(nb.Nifti1Image))     # wrapped while still valid
                corrupt_content(content_of(ext), case, case['corrupt'])
            snapshot = copy.deepcopy(content_of(ext))            # BEFORE any serialisation call
            obs = {'pre': enc(snapshot)}
            text = serial_obs(ext, obs)
            obs['post_same'] = same(content_of(ext), snapshot)
            obs['paths'] = {}
            if nw_bad is not None:
                p = os.path.join(tmp, 'invalid.nii')
                try:
                    nw_bad.to_filename(p)
                    obs['save'] = 'ok'
                except Exception as e:
                    obs['save'] = errname(e)
                obs['written'] = os.path.exists(p)
                return obs
            if text is None:
                return obs

            def attempt(name, f):
                try:
                    obs['paths'][name] = f()
                    return True
                except Harness:
                    raise
                except Exception as e:
                    obs['paths'][name] = {'err': errname(e), 'msg': str(e)[:200]}
                    return False

            attempt('json', lambda: observe_ext(DcmMetaExtension.from_json(text), snapshot, ext))
            attempt('json_bytes', lambda: observe_ext(DcmMetaExtension.from_json(text.encode('utf-8')), snapshot, ext))
            attempt('runtime', lambda: observe_ext(DcmMetaExtension.from_runtime_repr(copy.deepcopy(snapshot)), snapshot, ext))
            ncyc = case.get('cycles', 2)
            for fmt in case.get('formats', ['nii', 'niigz']):
                suffix = FORMATS[fmt]
                cls = nb.Nifti1Pair if fmt == 'pair' else nb.Nifti1Image
                state = {'p': os.path.join(tmp, fmt + '0' + suffix)}
                try:
                    NiftiWrapper(make_image(case, ext)(cls)).to_filename(state['p'])
                except Exception as e:
                    obs['paths'][fmt + '#1'] = {'err': errname(e), 'msg': 'first write: ' + str(e)[:200]}
                    continue
                for k in range(1, ncyc + 1):
                    def cycle():
                        nwk = NiftiWrapper.from_filename(state['p'])
                        r = observe_ext(nwk.meta_ext, snapshot, ext)
                        r.update(observe_file(state['p'], snapshot))
                        state['nw'] = nwk
                        return r
                    if not attempt('%s#%d' % (fmt, k), cycle) or k == ncyc:
                        break
                    try:
                        # onto the loaded path only for .nii.gz: on an uncompressed file nibabel's memory-mapped data
                        # proxy reads from the file being truncated (garbage voxels or SIGBUS) - reported, outside C09
                        if not (case.get('same_path') and fmt == 'niigz'):
                            state['p'] = os.path.join(tmp, '%s%d%s' % (fmt, k, suffix))
                        state['nw'].to_filename(state['p'])
                    except Exception as e:
                        obs['paths']['%s#%d' % (fmt, k + 1)] = {'err': errname(e), 'msg': 'rewrite: ' + str(e)[:200]}
                        break
            return obs
        except Harness as e:
            return {'harness': str(e)}
        finally:
            shutil.rmtree(tmp, ignore_errors=True)

    @staticmethod
    def coq_case(case, obs):
        if not isinstance(obs, dict) or 'pre' not in obs:
            # the runner could not observe: a literal that cannot pass
            return ('{| Corr.ec_content := JNull; Corr.ec_valid := Ok tt; Corr.ec_to_json := Err ECrash; '
                    'Corr.ec_str := None; Corr.ec_reser := []; Corr.ec_files := []; Corr.ec_loaded := [] |}')
        binds, text, val = lit_shared()
        tj = obs['to_json']
        tjs = ('Ok %s' % text(tj['ok'])) if 'ok' in tj else 'Err EInvalidExt'
        st = ('(Some %s)' % text(obs['str']['ok'])) if 'ok' in obs['str'] else 'None'
        pre = val(obs['pre'])
        reser, files, loaded = [], [], []
        for name in sorted(obs.get('paths', {})):
            r = obs['paths'][name]
            if 'err' in r:
                reser.append('[0]%N')
                continue
            reser.append(text(r.get('reser')))
            loaded.append(pre if r.get('same') else val(r['content']))
            if 'n_ext' in r:
                files.append(text(r.get('file')))
        return ('(%s{| Corr.ec_content := %s; Corr.ec_valid := %s; Corr.ec_to_json := %s; Corr.ec_str := %s; Corr.ec_reser := %s; '
                'Corr.ec_files := %s; Corr.ec_loaded := %s |})'
                % (''.join(binds), pre, coq_res_unit(obs['valid']), tjs, st, clist(reser), clist(files), clist(loaded)))

    @staticmethod
    def messages(case, obs):
        if not isinstance(obs, dict):
            return ['[crash] no observation']
        if 'harness' in obs:
            return ['[harness] %s' % obs['harness']]
        if 'crash' in obs or 'pre' not in obs:
            return ['[crash] building or observing the extension raised %s' % obs.get('crash')]
        msgs = []
        truth = truth_of_case(case)
        if not match_truth(dec(obs['pre']), truth):
            msgs.append('[build/truth] the content of the freshly built extension is not what the format prescribes for the case')
        expect_valid = truth_valid(truth)
        msgs += judge_serial(obs, obs['pre'], expect_valid)
        if not expect_valid:
            if obs.get('save') == 'ok' or obs.get('written'):
                msgs.append('[to_filename/invalid-written] to_filename wrote an invalid extension')
            return msgs
        if 'ok' not in obs['to_json']:
            return msgs
        text = obs['to_json']['ok']
        has_nan = tv_has_nan(obs['pre'])
        expected = ['json', 'json_bytes', 'runtime'] + ['%s#%d' % (f, k) for f in case.get('formats', ['nii', 'niigz'])
                                                        for k in range(1, case.get('cycles', 2) + 1)]
        for name in expected:
            where = name.split('#')[0]
            r = obs['paths'].get(name)
            if r is None:
                if not any(m.startswith('[%s/raised]' % where) for m in msgs):
                    msgs.append('[%s/raised] save/load cycle did not complete' % where)
                continue
            msgs += judge_reload(r, text, has_nan, where)
        return msgs

    @staticmethod
    def oracle(case, obs):
        msgs = Ext.messages(case, obs)
        return msgs[0] if msgs else None

    @staticmethod
    def signature(case, obs, msg):
        return 'ext/' + msg_id(msg)

    @staticmethod
    def nontrivial(case, obs):
        return bool(case['entries']) or bool(case.get('corrupt'))

    @staticmethod
    def shrink(case):
        ents = case['entries']
        for field, small in (('extra', []), ('stale', []), ('reorient', None), ('foreign', None), ('endian', '<'),
                             ('same_path', False), ('cycles', 1), ('formats', ['nii']), ('formats', ['niigz']),
                             ('build', 'make_empty'), ('hdr_slice', None)):
            if case.get(field) != small and not (field == 'reorient' and case.get('version') == 0.5):
                c = dict(case); c[field] = small
                yield c
        for i in range(len(ents)):
            c = dict(case); c['entries'] = ents[:i] + ents[i + 1:]
            yield c
        for i, (b, s, k, v) in enumerate(ents):
            if s == 'const':
                for v2 in shrink_tv(v):
                    c = dict(case); c['entries'] = ents[:i] + [[b, s, k, v2]] + ents[i + 1:]
                    yield c
            if len(k) > 1 and not any(e[2] == k[:1] for e in ents):
                c = dict(case); c['entries'] = ents[:i] + [[b, s, k[:1], v]] + ents[i + 1:]
                yield c


# ------------------------------------------------------------------------------------------------
# part 4: histories (encode/save -> edit in place -> save -> load; load -> edit -> save -> load; several edits; a refused write)

TOUCHES = ['to_filename', 'nbsave', 'content', 'get_content', 'sizeondisk', 'str', 'to_json', 'none']
EDIT_KINDS = ['add_key', 'change_value', 'del_key', 'move_key', 'filter_meta', 'clear_slice_meta']


def gen_class_value(rng, shape, slice_dim, cls, depth=1):
    m = multiplicity(shape, slice_dim, cls)
    if cls[1] == 'const':
        return gen_value(rng, depth, False, 3)
    return ['a', [gen_value(rng, rng.choice([0, 0, 1]), False, 2) for _ in range(m)]]


def gen_edit(rng, case, entries):
    """One in-place edit that keeps the extension valid; `entries` (the generator's view of the current keys) is updated."""
    shape, sd = case['shape'], case['slice_dim']
    usable = [cl for cl in valid_classes(shape) if multiplicity(shape, sd, cl) >= 1]
    kind = rng.choice(EDIT_KINDS)
    if kind in ('change_value', 'del_key', 'move_key') and not entries:
        kind = 'add_key'
    if kind == 'move_key' and len(usable) < 2:
        kind = 'change_value'
    if kind == 'add_key':
        cl = rng.choice(usable)
        k = gen_keys(rng, 1, {tuple(e[2]) for e in entries} | {(98, 97, 100)})[0]
        v = gen_class_value(rng, shape, sd, cl)
        entries.append([cl[0], cl[1], k, v])
        return {'op': 'set', 'cls': list(cl), 'key': k, 'val': v}
    if kind == 'change_value':
        i = rng.randrange(len(entries))
        b, s, k, _ = entries[i]
        v = gen_class_value(rng, shape, sd, (b, s))
        entries[i] = [b, s, k, v]
        return {'op': 'set', 'cls': [b, s], 'key': k, 'val': v}
    if kind == 'del_key':
        i = rng.randrange(len(entries))
        b, s, k, _ = entries.pop(i)
        return {'op': 'del', 'cls': [b, s], 'key': k}
    if kind == 'move_key':
        i = rng.randrange(len(entries))
        b, s, k, _ = entries.pop(i)
        cl = rng.choice([c for c in usable if c != (b, s)])
        v = gen_class_value(rng, shape, sd, cl)
        entries.append([cl[0], cl[1], k, v])
        return {'op': 'move', 'cls': [b, s], 'to': list(cl), 'key': k, 'val': v}
    if kind == 'filter_meta':
        drop = [e[2] for e in entries if rng.random() < 0.5]
        entries[:] = [e for e in entries if e[2] not in drop]
        return {'op': 'filter', 'keys': drop}
    entries[:] = [e for e in entries if e[1] != 'slices']
    return {'op': 'clear_slices'}


def apply_edit(ext, ed):
    """an edit through the DcmMeta API of the live object"""
    op = ed['op']
    if op == 'set':
        ext.get_class_dict(tuple(ed['cls']))[ks(ed['key'])] = dec(ed['val'])
    elif op == 'del':
        ext.get_class_dict(tuple(ed['cls'])).pop(ks(ed['key']), None)
    elif op == 'move':
        ext.get_class_dict(tuple(ed['cls'])).pop(ks(ed['key']), None)
        ext.get_class_dict(tuple(ed['to']))[ks(ed['key'])] = dec(ed['val'])
    elif op == 'filter':
        drop = set(ks(k) for k in ed['keys'])
        ext.filter_meta(lambda key, vals: key in drop)
    elif op == 'clear_slices':
        ext.clear_slice_meta()
    else:
        raise ValueError(op)


def apply_edit_truth(t, ed, case):
    """the same edit on the generator's truth (documented meaning of the API call)"""
    op = ed['op']
    vcs = valid_classes(case['shape'])
    if op == 'set':
        t[ed['cls'][0]][ed['cls'][1]][ks(ed['key'])] = dec(ed['val'])
    elif op == 'del':
        t[ed['cls'][0]][ed['cls'][1]].pop(ks(ed['key']), None)
    elif op == 'move':
        t[ed['cls'][0]][ed['cls'][1]].pop(ks(ed['key']), None)
        t[ed['to'][0]][ed['to'][1]][ks(ed['key'])] = dec(ed['val'])
    elif op == 'filter':
        drop = set(ks(k) for k in ed['keys'])
        for b, s in vcs:
            for k in [k for k in t[b][s] if k in drop]:
                del t[b][s][k]
    elif op == 'clear_slices':
        for b, s in vcs:
            if s == 'slices':
                t[b][s].clear()


def hist_truths(case):
    """generator truth at every write point"""
    import copy
    t = truth_initial(case)
    out = []
    for g in case['hist']['groups']:
        for ed in g['edits']:
            apply_edit_truth(t, ed, case)
        out.append(copy.deepcopy(t))
    return out


def hist_plan_ok(case):
    """the plan is inside the domain: the initial extension is valid and each write point is valid exactly when its group
    is not the announced invalidation"""
    try:
        if not truth_valid(truth_initial(case)):
            return False
        return all(truth_valid(t) == (not g.get('invalid')) for t, g in zip(hist_truths(case), case['hist']['groups']))
    except (KeyError, TypeError, IndexError):
        return False


class Hist:
    NAME = "ext_hist"
    CORR_REQUIRE = "From Coq Require Import String.\nFrom DV Require Import Common.Str Common.Jv Json.Model Json.Corr."
    CORR_CASE_TYPE = "Corr.hist_case"
    CORR_CHECK = "Corr.check_hist"
    CORR_SHOW = "Corr.show_hist"
    SHARD = 8
    IMPL_TIMEOUT = 90
    RULE = ("a valid extension attached to an image is first encoded or written (to_filename, nb.save, .content, get_content, "
            "get_sizeondisk, str, to_json, or nothing), or is obtained from a file with from_filename (and then optionally touched); it "
            "is then edited in place through the DcmMeta API (set/change/delete/move a key, filter_meta, clear_slice_meta) and "
            "written again, 1-5 times, to .nii / .nii.gz / a pair, onto a fresh path or onto the path it was loaded from; one "
            "history in four passes through an INVALID state (the write must be refused) and is repaired; the expected content "
            "after every edit is computed from the case alone; observation per write = content of the in-memory object, "
            "to_json, str, the extension bytes parsed out of the file, and the extension from_filename finds in the file. "
            "non-trivial = some edit changed the content")

    @staticmethod
    def gen_cases(rng, tier):
        n = 96 if tier == 'quick' else 480
        out = []
        for i in range(n):
            c = gen_ext_case(rng, 1, None, i % 3 == 2)
            mode = ['save_edit_save', 'load_edit_save'][i % 2]
            entries = [list(e) for e in c['entries']]
            nw = rng.choice([1, 1, 2, 2, 3, 4, 5])
            groups = [{'edits': [gen_edit(rng, c, entries) for _ in range(rng.choice([1, 1, 2]))], 'invalid': False}
                      for _ in range(nw)]
            shape, sd = c['shape'], c['slice_dim']
            if i % 4 == 3:
                # an invalidating edit (wrong number of values, or the same key in two classes), refused, then repaired
                usable = [cl for cl in valid_classes(shape) if multiplicity(shape, sd, cl) >= 1]
                many = [cl for cl in usable if multiplicity(shape, sd, cl) > 1]
                at = rng.randrange(len(groups) + 1)
                bad = [98, 97, 100]
                if many:
                    cl = rng.choice(many)
                    m = multiplicity(shape, sd, cl)
                    brk = {'op': 'set', 'cls': list(cl), 'key': bad, 'val': ['a', [['i', '0']] * (m + 1)]}
                    fix = {'op': 'del', 'cls': list(cl), 'key': bad}
                elif len(usable) >= 2:
                    a, b = usable[0], usable[1]
                    brk = {'op': 'set', 'cls': list(a), 'key': bad, 'val': gen_class_value(rng, shape, sd, a)}
                    groups.insert(at, {'edits': [brk], 'invalid': False})
                    at += 1
                    brk = {'op': 'set', 'cls': list(b), 'key': bad, 'val': gen_class_value(rng, shape, sd, b)}
                    fix = {'op': 'del', 'cls': list(b), 'key': bad}
                else:
                    brk = None
                if brk:
                    groups.insert(at, {'edits': [brk], 'invalid': True})
                    groups.insert(at + 1, {'edits': [fix], 'invalid': False})
            fmt = ['nii', 'niigz', 'nii', 'niigz', 'pair'][(i // 2) % 5]
            c['hist'] = {'mode': mode, 'fmt': fmt, 'touch': TOUCHES[(i // 4) % len(TOUCHES)], 'groups': groups,
                         'same_path': mode == 'load_edit_save' and fmt == 'niigz' and rng.random() < 0.6,
                         'reload_every': rng.choice([0, 1, 2])}
            c['kind'] = 'hist/%s/%s/%s%s' % (mode, fmt, c['hist']['touch'], '/refusal' if any(g['invalid'] for g in groups) else '')
            if not hist_plan_ok(c):                      # cannot happen unless a random key collides with the reserved one
                c['hist']['groups'] = [g for g in groups if not g['invalid'] and not any(e.get('key') == [98, 97, 100] for e in g['edits'])]
                c['kind'] = 'hist/%s/%s/%s' % (mode, fmt, c['hist']['touch'])
                if not c['hist']['groups'] or not hist_plan_ok(c):
                    continue
            out.append(c)
        return out

    @staticmethod
    def run_impl(case):
        import copy, shutil, tempfile
        import nibabel as nb
        from dcmstack.dcmmeta import NiftiWrapper
        h = case['hist']
        suffix = FORMATS[h['fmt']]
        cls = nb.Nifti1Pair if h['fmt'] == 'pair' else nb.Nifti1Image
        base = os.environ.get('VERIF_WORK') or os.path.join('/verif', 'work', 'c09_manual')
        os.makedirs(base, exist_ok=True)
        tmp = tempfile.mkdtemp(prefix='c09h_', dir=base)
        try:
            ext = build_ext(case)
            obs = {'initial': enc(copy.deepcopy(content_of(ext))), 'points': []}
            nw = NiftiWrapper(make_image(case, ext)(cls))
            loaded_from = None

            def touch(w, name):
                e = w.meta_ext
                if name == 'to_filename':
                    w.to_filename(os.path.join(tmp, 'touch' + suffix))
                elif name == 'nbsave':
                    nb.save(w.nii_img, os.path.join(tmp, 'touch' + suffix))
                elif name == 'content':
                    e.content
                elif name == 'get_content':
                    e.get_content()
                elif name == 'sizeondisk':
                    e.get_sizeondisk()
                elif name == 'str':
                    str(e)
                elif name == 'to_json':
                    e.to_json()
            if h['mode'] == 'load_edit_save':
                loaded_from = os.path.join(tmp, 'orig' + suffix)
                nw.to_filename(loaded_from)
                nw = NiftiWrapper.from_filename(loaded_from)
            touch(nw, h['touch'])
            obs['touched'] = h['touch'] != 'none' or h['mode'] == 'load_edit_save'
            for gi, group in enumerate(h['groups']):
                cur = nw.meta_ext
                for ed in group['edits']:
                    apply_edit(cur, ed)
                snapshot = copy.deepcopy(content_of(cur))           # BEFORE any serialisation call
                pt = {'cur': enc(snapshot)}
                text = serial_obs(cur, pt)
                pt['post_same'] = same(content_of(cur), snapshot)
                same_path = bool(h.get('same_path') and loaded_from and h['fmt'] == 'niigz')
                p = loaded_from if same_path else os.path.join(tmp, 'w%d%s' % (gi, suffix))
                before = None
                if same_path:
                    before = [c for code, c in file_ext_bytes(p) if code == DCMMETA_ECODE]
                try:
                    nw.to_filename(p)
                    pt['save'] = 'ok'
                except Exception as e:
                    pt['save'] = errname(e)
                if pt['save'] == 'ok':
                    pt.update(observe_file(p, snapshot))
                    try:
                        nw2 = NiftiWrapper.from_filename(p)
                        r = observe_ext(nw2.meta_ext, snapshot, cur)
                        r['mem_after'] = same(content_of(cur), snapshot)
                        pt['reload'] = r
                        if same_path or (h.get('reload_every') and (gi + 1) % h['reload_every'] == 0):
                            # continue the history from the file just written (always after writing onto the path the
                            # image was loaded from: nibabel's lazy data proxy of the old image is stale after that)
                            nw, loaded_from = nw2, p
                    except Harness:
                        raise
                    except Exception as e:
                        pt['reload'] = {'err': errname(e), 'msg': str(e)[:200]}
                else:
                    if same_path:
                        pt['written'] = [c for code, c in file_ext_bytes(p) if code == DCMMETA_ECODE] != before
                    else:
                        pt['written'] = os.path.exists(p)
                obs['points'].append(pt)
            return obs
        except Harness as e:
            return {'harness': str(e)}
        finally:
            shutil.rmtree(tmp, ignore_errors=True)

    @staticmethod
    def coq_case(case, obs):
        if not isinstance(obs, dict) or 'points' not in obs:
            return '{| Corr.hc_initial := JNull; Corr.hc_touched := false; Corr.hc_points := [] |}'
        binds, text, val = lit_shared()
        pts = []
        for pt in obs['points']:
            tj = pt['to_json']
            tjs = ('Ok %s' % text(tj['ok'])) if 'ok' in tj else 'Err EInvalidExt'
            st = ('(Some %s)' % text(pt['str']['ok'])) if 'ok' in pt['str'] else 'None'
            cur = val(pt['cur'])
            fl = '(Some %s)' % text(pt.get('file')) if pt.get('save') == 'ok' else 'None'
            rl = pt.get('reload') or {'err': 'x'}
            if 'err' in rl:
                ld = 'Err ECrash'
            else:
                ld = 'Ok %s' % (cur if rl.get('same') else val(rl['content']))
            pts.append('{| Corr.sp_content := %s; Corr.sp_valid := %s; Corr.sp_to_json := %s; Corr.sp_str := %s; '
                       'Corr.sp_file := %s; Corr.sp_loaded := %s |}' % (cur, coq_res_unit(pt['valid']), tjs, st, fl, ld))
        init = val(obs['initial'])
        return ('(%s{| Corr.hc_initial := %s; Corr.hc_touched := %s; Corr.hc_points := %s |})'
                % (''.join(binds), init, cbool(bool(obs.get('touched'))), clist(pts)))

    @staticmethod
    def messages(case, obs):
        if not isinstance(obs, dict):
            return ['[crash] no observation']
        if 'harness' in obs:
            return ['[harness] %s' % obs['harness']]
        if 'crash' in obs or 'points' not in obs:
            return ['[crash] the history raised %s' % obs.get('crash')]
        msgs = []
        if not match_truth(dec(obs['initial']), truth_initial(case)):
            msgs.append('[build/truth] the content of the freshly built extension is not what the format prescribes for the case')
        truths = hist_truths(case)
        if len(obs['points']) != len(truths):
            msgs.append('[crash] history stopped early')
        for pt, truth, g in zip(obs['points'], truths, case['hist']['groups']):
            if not match_truth(dec(pt['cur']), truth):
                msgs.append('[edit/truth] after the in-place edit the content of the extension is not what the edit means')
            ok = not g.get('invalid')
            msgs += judge_serial(pt, pt['cur'], ok, 'write/')
            if not ok:
                if pt.get('save') == 'ok' or pt.get('written'):
                    msgs.append('[write/invalid-written] to_filename wrote an invalid extension')
                continue
            if 'ok' not in pt['to_json']:
                continue
            if pt.get('save') != 'ok':
                msgs.append('[write/raised] to_filename failed on a valid edited extension: %s' % pt.get('save'))
                continue
            r = dict(pt.get('reload') or {'err': 'missing'})
            if 'err' not in r:
                r.update({k: pt[k] for k in ('n_ext', 'file_same') if k in pt})
            msgs += judge_reload(r, pt['to_json']['ok'], tv_has_nan(pt['cur']), 'write')
            if 'err' not in r and not r.get('mem_after'):
                msgs.append('[write/mem-after] writing changed the content of the in-memory extension')
        return msgs

    @staticmethod
    def oracle(case, obs):
        msgs = Hist.messages(case, obs)
        return msgs[0] if msgs else None

    @staticmethod
    def signature(case, obs, msg):
        return 'hist/' + msg_id(msg)

    @staticmethod
    def nontrivial(case, obs):
        # some edit changed the content (generator truth)
        prev = truth_initial(case)
        for t in hist_truths(case):
            if not same(t, prev):
                return True
            prev = t
        return False

    @staticmethod
    def shrink(case):
        h = case['hist']
        cands = []
        groups = h['groups']
        for i in range(len(groups)):
            cands.append(dict(case, hist=dict(h, groups=groups[:i] + groups[i + 1:])))
        for i, g in enumerate(groups):
            for j in range(len(g['edits'])):
                if len(g['edits']) > 1:
                    g2 = dict(g, edits=g['edits'][:j] + g['edits'][j + 1:])
                    cands.append(dict(case, hist=dict(h, groups=groups[:i] + [g2] + groups[i + 1:])))
        for field, small in (('extra', []), ('stale', []), ('reorient', None), ('foreign', None), ('endian', '<'), ('hdr_slice', None)):
            if case.get(field) != small and not (field == 'reorient' and case.get('version') == 0.5):
                cands.append(dict(case, **{field: small}))
        for field, small in (('same_path', False), ('reload_every', 0), ('touch', 'none')):
            if h.get(field) != small:
                cands.append(dict(case, hist=dict(h, **{field: small})))
        ents = case['entries']
        for i in range(len(ents)):
            cands.append(dict(case, entries=ents[:i] + ents[i + 1:]))
        for c in cands:
            if c['hist']['groups'] and hist_plan_ok(c):        # stay inside the valid domain
                yield c


# ------------------------------------------------------------------------------------------------
# part 5: load -> edit -> save ONTO THE PATH THE IMAGE WAS LOADED FROM (uncompressed .nii included), real voxel data.
# F28: from_filename memory mapped the data, so writing the wrapper back over its own file read voxels from the file being
# truncated (garbage voxels, or SIGBUS once the extension grows past a page).  Every cycle runs in a child process of its
# own, so that a killed interpreter is an observation.

def samepath_child(spec_path):
    """child process: one load / edit / save-onto-the-same-path cycle; writes the observation next to the spec"""
    import copy
    spec = json.load(open(spec_path))
    repo = os.environ.get('DCMSTACK_REPO', '/repo')
    src = os.path.join(repo, 'src')
    sys.path.insert(0, src)
    import warnings
    warnings.simplefilter('ignore')
    import dcmstack
    if not os.path.realpath(dcmstack.__file__).startswith(os.path.realpath(src) + os.sep):
        raise SystemExit('refusing to run: dcmstack was imported from %s, not from %s' % (dcmstack.__file__, src))
    from dcmstack.dcmmeta import NiftiWrapper
    nw = NiftiWrapper.from_filename(spec['path'])
    cur = nw.meta_ext
    for ed in spec['edits']:
        apply_edit(cur, ed)
    snapshot = copy.deepcopy(content_of(cur))
    pt = {'cur': enc(snapshot)}
    serial_obs(cur, pt)
    pt['post_same'] = same(content_of(cur), snapshot)
    try:
        nw.to_filename(spec['path'])
        pt['save'] = 'ok'
    except Exception as e:
        pt['save'] = errname(e)
    pt['mem_after'] = same(content_of(cur), snapshot)
    json.dump(pt, open(spec['out'], 'w'))


class SamePath:
    NAME = "ext_samepath"
    CORR_REQUIRE = Hist.CORR_REQUIRE
    CORR_CASE_TYPE = "Corr.hist_case"
    CORR_CHECK = "Corr.check_hist"
    CORR_SHOW = "Corr.show_hist"
    SHARD = 6
    IMPL_TIMEOUT = 240
    RULE = ("an image with real voxel data (>= 64x64x8 int16, so that a memory mapping of the file matters) and a valid extension is "
            "written to .nii (3 in 4) or .nii.gz; then 1-3 times, each time in a fresh child process: NiftiWrapper.from_filename, "
            "in-place edits (among them a constant that grows the extension by 10 .. 100000 bytes, or removes it again), "
            "to_filename onto the SAME path. Observed per cycle: exit status of the child, content/to_json/str in the child, the "
            "extension bytes parsed out of the file, the extension a fresh from_filename finds, and the voxel data of the file "
            "against the generator's array. non-trivial = some edit changed the content")

    @staticmethod
    def gen_cases(rng, tier):
        n = 20 if tier == 'quick' else 80
        out = []
        for i in range(n):
            shape = rng.choice([[64, 64, 8], [64, 64, 8], [32, 64, 16], [64, 64, 8, 2], [40, 48, 20]])
            slice_dim = rng.choice([None, 2, 2, 1])
            c = {'shape': shape, 'slice_dim': slice_dim, 'affine': gen_affine(rng, 0.1), 'reorient': None, 'extra': [], 'stale': [],
                 'version': 0.6, 'corrupt': None, 'csel': 0, 'build': 'make_empty', 'endian': '>' if rng.random() < 0.15 else '<',
                 'foreign': rng.choice([None, None, 'after']), 'hdr_slice': rng.choice([None, 2, slice_dim]),
                 'data_seed': rng.randrange(997), 'entries': []}
            for k in gen_keys(rng, rng.randrange(0, 3)):
                c['entries'].append(['global', 'const', k, gen_value(rng, 1, False, 2)])
            entries = [list(e) for e in c['entries']]
            groups = []
            grown = False
            for g in range(rng.choice([1, 2, 2, 3])):
                eds = []
                if grown and rng.random() < 0.4:
                    eds.append({'op': 'del', 'cls': ['global', 'const'], 'key': [75]})
                    grown = False
                else:
                    size = rng.choice([10, 300, 5000, 5000, 20000, 20000, 20000, 100000])
                    eds.append({'op': 'set', 'cls': ['global', 'const'], 'key': [75], 'val': ['s', [118 + (g % 3)] * size]})
                    grown = True
                if rng.random() < 0.5:
                    eds.append(gen_edit(rng, c, entries))
                groups.append({'edits': eds, 'invalid': False})
            fmt = 'niigz' if i % 4 == 3 else 'nii'
            c['hist'] = {'mode': 'samepath', 'fmt': fmt, 'groups': groups}
            c['kind'] = 'samepath/%s/%dcycles' % (fmt, len(groups))
            if hist_plan_ok(c):
                out.append(c)
        return out

    @staticmethod
    def run_impl(case):
        import copy, shutil, tempfile, subprocess
        import numpy as np
        import nibabel as nb
        from dcmstack.dcmmeta import NiftiWrapper
        h = case['hist']
        suffix = FORMATS[h['fmt']]
        base = os.environ.get('VERIF_WORK') or os.path.join('/verif', 'work', 'c09_manual')
        os.makedirs(base, exist_ok=True)
        tmp = tempfile.mkdtemp(prefix='c09s_', dir=base)
        try:
            ext = build_ext(case)
            obs = {'initial': enc(copy.deepcopy(content_of(ext))), 'touched': True, 'points': []}
            p = os.path.join(tmp, 'x' + suffix)
            NiftiWrapper(make_image(case, ext)(nb.Nifti1Image)).to_filename(p)
            truth_data = voxels_of(case)
            truths = hist_truths(case)
            here = os.path.dirname(os.path.dirname(os.path.abspath(__file__)))
            env = dict(os.environ, PYTHONPATH=here + os.pathsep + os.environ.get('PYTHONPATH', ''))
            for gi, group in enumerate(h['groups']):
                spec = {'path': p, 'edits': group['edits'], 'out': os.path.join(tmp, 'out%d.json' % gi)}
                sp = os.path.join(tmp, 'spec%d.json' % gi)
                json.dump(spec, open(sp, 'w'))
                try:
                    r = subprocess.run([sys.executable, '-m', 'props.c09', 'samepath-child', sp], cwd=here, env=env,
                                       stdout=subprocess.PIPE, stderr=subprocess.STDOUT, timeout=100)
                    rc, tail = r.returncode, r.stdout.decode('utf-8', 'replace')[-300:]
                except subprocess.TimeoutExpired:
                    rc, tail = 'timeout', ''
                if rc != 0 or not os.path.exists(spec['out']):
                    obs['points'].append({'cur': enc(truths[gi]), 'valid': 'ok', 'to_json': {'err': 'child'}, 'str': {'err': 'child'},
                                          'save': 'child', 'exit': rc, 'tail': tail,
                                          'file_size': os.path.getsize(p) if os.path.exists(p) else None})
                    break
                pt = json.load(open(spec['out']))
                if pt.get('save') == 'ok':
                    snapshot = dec(pt['cur'])
                    pt.update(observe_file(p, snapshot))
                    try:
                        nw2 = NiftiWrapper.from_filename(p)
                        rl = observe_ext(nw2.meta_ext, snapshot)
                        rl['mem_after'] = bool(pt.get('mem_after'))
                        pt['reload'] = rl
                    except Harness:
                        raise
                    except Exception as e:
                        pt['reload'] = {'err': errname(e), 'msg': str(e)[:200]}
                    try:
                        got = np.asanyarray(nb.load(p, mmap=False).dataobj)
                        pt['data_same'] = bool(got.shape == truth_data.shape and np.array_equal(got, truth_data))
                    except Exception as e:
                        pt['data_same'] = False
                        pt['data_err'] = errname(e)
                obs['points'].append(pt)
            return obs
        except Harness as e:
            return {'harness': str(e)}
        finally:
            shutil.rmtree(tmp, ignore_errors=True)

    coq_case = staticmethod(Hist.coq_case.__func__ if hasattr(Hist.coq_case, '__func__') else Hist.coq_case)

    @staticmethod
    def messages(case, obs):
        if isinstance(obs, dict) and 'points' in obs:
            for i, pt in enumerate(obs['points']):
                if 'exit' in pt:
                    return ['[killed] load / edit / save onto the loaded path: the interpreter ended with status %s (file now %s bytes)'
                            % (pt['exit'], pt.get('file_size'))]
        msgs = Hist.messages(case, obs)
        if isinstance(obs, dict) and 'points' in obs:
            for pt in obs['points']:
                if pt.get('save') == 'ok' and not pt.get('data_same'):
                    msgs.append('[voxels] after saving onto the loaded path the voxel data of the file is not the image data')
        return msgs

    @staticmethod
    def oracle(case, obs):
        msgs = SamePath.messages(case, obs)
        return msgs[0] if msgs else None

    @staticmethod
    def signature(case, obs, msg):
        return 'samepath/' + msg_id(msg)

    nontrivial = staticmethod(Hist.nontrivial.__func__ if hasattr(Hist.nontrivial, '__func__') else Hist.nontrivial)

    @staticmethod
    def shrink(case):
        h = case['hist']
        groups = h['groups']
        for i in range(len(groups)):
            c = dict(case, hist=dict(h, groups=groups[:i] + groups[i + 1:]))
            if c['hist']['groups'] and hist_plan_ok(c):
                yield c
        for field, small in (('foreign', None), ('endian', '<'), ('hdr_slice', None), ('entries', [])):
            if case.get(field) != small:
                c = dict(case, **{field: small})
                if hist_plan_ok(c):
                    yield c


PARTS = [Codec, Loads, Ext, Hist, SamePath]


# link (integrator): the abstract extension model (coq/Ext) is tied to the raw JSON content model (coq/Content, coq/Json,
# coq/Cli) through Link/Abs.v to_content / of_content; LinkPart compares to_content with the real _content on every run
from props import link as _link
COQ_PROPS = (list(COQ_PROPS) if isinstance(COQ_PROPS, (list, tuple)) else [COQ_PROPS]) + ['Props/C09link.v']
THEOREMS = list(THEOREMS) + ['C09_from_to_content', 'C09_constructors_agree_content', 'C09_from_json_models_agree', 'C09_roundtrip_ext', 'C09_qtok_dec_float']
if globals().get('TABLES'): TABLES = sorted(set(list(TABLES) + _link.TABLES))
PARTS = list(PARTS) + [_link.LinkPart]


if __name__ == '__main__' and sys.argv[1:2] == ['samepath-child']:
    samepath_child(sys.argv[2])
